"""C01 - mesh lattice, index <-> coordinate maps (DESIGN §4 C01)."""
import z3
from pyvc.core import *
from pyvc.contracts import Contract, State, conj, disj
from pyvc.states import inp, sym_region, sym_mesh, _eq
from .shared import (RegionInit, RegionContains, Index2Point, Point2Index, MeshInit, NDIMS, HALF, contains_point)


def prod_terms(xs):
    r = z3.IntVal(1)
    for x in xs:
        r = r * I(x)
    return r


def unravel(k, n):
    """first-dimension-fastest unravelling of a flat position k over counts n"""
    out = []
    rest = k
    for j, nj in enumerate(n):
        if j == len(n) - 1:
            out.append(rest)
        else:
            out.append(rest % I(nj))
            rest = rest / I(nj)
    return out


class MeshLen(Contract):
    name = 'Mesh.__len__'
    func = 'Mesh.__len__'
    qual = ('Mesh', '__len__')

    def configs(s, tier):
        return [{'ndim': d} for d in NDIMS[tier]]

    def pre_state(s, E, cfg):
        m, assume = sym_mesh(E, cfg['ndim'])
        st = State(m, [], {})
        st.assume = assume
        return st

    def frame(s, E, st):
        return [('self', st.self)]

    def post(s, E, st, result):
        if not isinstance(result, (int, Sym)) or kind_of(result) != 'int':
            return [('len is an int', False)]
        return [('number of cells = prod(n)', I(result) == prod_terms(st.self.attrs['_n'].elems))]


class MeshIndices(MeshLen):
    name = 'Mesh.indices'
    func = 'Mesh.indices'
    qual = ('Mesh', 'indices')

    def post(s, E, st, result):
        n = st.self.attrs['_n'].elems
        if not isinstance(result, SymSeq):
            return [('indices is a sequence', False)]
        k = E.fresh('pos', 'int')
        E.assume(z3.And(k.t >= 0, k.t < prod_terms(n)))
        el = result.elem(k)
        out = [('length = prod(n)', I(result.length) == prod_terms(n))]
        if not isinstance(el, tuple) or len(el) != len(n):
            return out + [('elements are index tuples of length ndim', False)]
        for j, (x, u) in enumerate(zip(el, unravel(k.t, n))):
            out.append((f'k-th index, axis {j}: first dimension fastest', I(x) == u))
        return out


class MeshIter(MeshLen):
    name = 'Mesh.__iter__'
    func = 'Mesh.__iter__'
    qual = ('Mesh', '__iter__')

    def post(s, E, st, result):
        n = st.self.attrs['_n'].elems
        reg = st.self.attrs['_region'].attrs
        if not isinstance(result, SymSeq):
            return [('iteration is a sequence', False)]
        k = E.fresh('pos', 'int')
        E.assume(z3.And(k.t >= 0, k.t < prod_terms(n)))
        el = result.elem(k)
        out = [('length = prod(n)', I(result.length) == prod_terms(n))]
        if not isinstance(el, Vec) or len(el) != len(n):
            return out + [('elements are points of length ndim', False)]
        for j, (x, u) in enumerate(zip(el.elems, unravel(k.t, n))):
            pm, px = R(reg['_pmin'].elems[j]), R(reg['_pmax'].elems[j])
            out.append((f'k-th point, axis {j} = centre of the k-th index (first dimension fastest)',
                        R(x) * R(n[j]) == pm * R(n[j]) + (z3.ToReal(u) + HALF) * (px - pm)))
        return out


class MeshCells(MeshLen):
    name = 'Mesh.cells'
    func = 'Mesh.cells'
    qual = ('Mesh', 'cells')
    offset = HALF
    extra = 0

    def post(s, E, st, result):
        n = st.self.attrs['_n'].elems
        reg = st.self.attrs['_region'].attrs
        vals = getattr(result, 'vals', None)
        if vals is None or len(vals) != len(n):
            return [('one coordinate list per axis', False)]
        out = [('fields named after the dimensions', _eq(E, tuple(result.names), reg['_dims']))]
        for j, seq in enumerate(vals):
            if not isinstance(seq, SymSeq):
                out.append((f'axis {j} is a sequence', False))
                continue
            k = E.fresh('pos', 'int')
            E.assume(z3.And(k.t >= 0, k.t < I(n[j]) + s.extra))
            pm, px = R(reg['_pmin'].elems[j]), R(reg['_pmax'].elems[j])
            out.append((f'axis {j}: length', I(seq.length) == I(n[j]) + s.extra))
            out.append((f'axis {j}: k-th entry = pmin + (k+{s.offset})*edges/n',
                        R(seq.elem(k)) * R(n[j]) == pm * R(n[j]) + (z3.ToReal(k.t) + s.offset) * (px - pm)))
        return out


class MeshVertices(MeshCells):
    name = 'Mesh.vertices'
    func = 'Mesh.vertices'
    qual = ('Mesh', 'vertices')
    offset = z3.RealVal(0)
    extra = 1


# ------------------------------------------------------------------ lemmas over the contracts only
class Lemmas(Contract):
    """consequences of the contracts of index2point / point2index (no code involved)"""
    name = 'lemmas'
    func = None

    def configs(s, tier):
        return [{'ndim': d} for d in NDIMS[tier]]

    def lemmas(s, E, cfg, prop):
        d = cfg['ndim']
        obs = []
        E.pc = []
        E.inputs = {}
        m, assume = sym_mesh(E, d)
        for a in assume:
            E.assume(a)
        i2p, p2i = Index2Point(), Point2Index()
        n = m.attrs['_n'].elems
        reg = m.attrs['_region']

        def ob(label, goal, pc=None):
            key = f"{prop}/lemma/{label}"
            obs.append({'key': key, 'id': f"{key}[ndim={d}]", 'config': f'ndim={d}', 'kind': 'lemma', 'text': label,
                        'pc': list(E.pc if pc is None else pc), 'goal': goal, 'inputs': dict(E.inputs), 'path': 0, 'outcome': 'lemma'})

        # (1) round trip  point2index(index2point(i)) == i  for every in-range i
        idx = tuple(inp(E, f'i{j}', 'int') for j in range(d))
        for i, k in zip(idx, n):
            E.assume(z3.And(I(i) >= 0, I(i) < I(k)))
        save = list(E.pc)
        st = i2p.bind(E, m, [idx], {})
        ob('index2point accepts every in-range index', z3.Not(disj([c for _, c in i2p.raises(E, st)])))
        ctr = i2p.fresh_result(E, st)
        for _, phi in i2p.post(E, st, ctr):
            E.assume(phi)
        st2 = p2i.bind(E, m, [ctr], {})
        ob('the centre of a cell lies in the region (point2index accepts it)', z3.Not(disj([c for _, c in p2i.raises(E, st2)])))
        back = p2i.fresh_result(E, st2)
        for _, phi in p2i.post(E, st2, back):
            E.assume(phi)
        ob('round trip: point2index(index2point(i)) == i', conj([I(b) == I(i) for b, i in zip(back, idx)]))
        # (2) every point of the (closed) region gets an in-range cell that contains it; cells are disjoint
        E.pc = save[:len(assume)]
        p = tuple(inp(E, f'p{j}', 'float') for j in range(d))
        rg = reg.attrs
        for j in range(d):
            E.assume(z3.And(R(rg['_pmin'].elems[j]) <= R(p[j]), R(p[j]) <= R(rg['_pmax'].elems[j])))
        st3 = p2i.bind(E, m, [p], {})
        ob('every point of the closed region is accepted', z3.Not(disj([c for _, c in p2i.raises(E, st3)])))
        k1 = p2i.fresh_result(E, st3)
        for _, phi in p2i.post(E, st3, k1):
            E.assume(phi)
        # uniqueness: any other in-range index whose half-open cell contains p equals k1 (cells tile: exactly once)
        other = tuple(inp(E, f'o{j}', 'int') for j in range(d))
        hyp = []
        for j in range(d):
            pm, px = R(rg['_pmin'].elems[j]), R(rg['_pmax'].elems[j])
            e, x, o = px - pm, R(n[j]) * (R(p[j]) - pm), R(other[j])
            hyp.append(z3.And(I(other[j]) >= 0, I(other[j]) < I(n[j]), o * e <= x,
                              z3.Or(x < (o + 1) * e, z3.And(I(other[j]) == I(n[j]) - 1, x <= (o + 1) * e))))
        ob('cells cover the region exactly once (the containing cell is unique)',
           z3.Implies(conj(hyp), conj([I(a) == I(b) for a, b in zip(k1, other)])))
        # (3) the point lies within half a cell of the centre of its cell (centre formula and cell agree)
        st4 = i2p.bind(E, m, [k1], {})
        c1 = i2p.fresh_result(E, st4)
        for _, phi in i2p.post(E, st4, c1):
            E.assume(phi)
        dist = []
        for j in range(d):
            pm, px = R(rg['_pmin'].elems[j]), R(rg['_pmax'].elems[j])
            e = px - pm
            dist.append(z3.And(2 * R(n[j]) * (R(p[j]) - R(c1.elems[j])) <= e, 2 * R(n[j]) * (R(c1.elems[j]) - R(p[j])) <= e))
        ob('a point is within half a cell of the centre of the cell it maps to', conj(dist))
        return obs


CONTRACTS = [RegionInit(), RegionContains(), MeshInit(), Index2Point(), Point2Index(),
             MeshLen(), MeshIndices(), MeshIter(), MeshCells(), MeshVertices(), Lemmas()]
_BY_NAME = {c.name: c for c in CONTRACTS}


def contract(name):
    return _BY_NAME[name]


def contracts_for_use():
    # inside C01 everything is inlined except the constructors (never inlined into callers, DESIGN §2.2 e)
    return [_BY_NAME['Region.__init__'], _BY_NAME['Mesh.__init__']]


INLINED = ['Region.pmin', 'Region.pmax', 'Region.ndim', 'Region.edges', 'Region.center', 'Region.dims/units/tolerance_factor (+setters)',
           'Mesh.n', 'Mesh.cell', 'Mesh.region', 'Region.__contains__ (inlined at its call sites in Mesh)']
TRUSTED = ['[A] numpy element-wise arithmetic/comparison/minimum/maximum/floor/clip/remainder/round/isclose on 1-d arrays (pyvc/interp.py np model)',
           '[A] itertools.product: lexicographic order, last factor fastest', '[A] np.linspace(a,b,m)[k] = a + k*(b-a)/(m-1)']
ASSUMPTIONS = ['Mesh-level contracts require 0 <= tolerance_factor <= 1e-3 (library default 1e-12)']

MUTANTS = {
    'half_cell_shift': {'module': 'mesh', 'contract': 'Mesh.index2point', 'config': {'ndim': 2},
                        'old': 'point = self.region.pmin + np.add(index, 0.5) * self.cell', 'new': 'point = self.region.pmin + np.add(index, 1.0) * self.cell'},
    'clip_to_n': {'module': 'mesh', 'contract': 'Mesh.point2index', 'config': {'ndim': 2},
                  'old': 'index = np.clip(index, 0, self.n - 1)', 'new': 'index = np.clip(index, 0, self.n)'},
    'index_upper_bound': {'module': 'mesh', 'contract': 'Mesh.index2point', 'config': {'ndim': 2},
                          'old': 'np.greater_equal(index, self.n)', 'new': 'np.greater(index, self.n)'},
    'indices_not_reversed': {'module': 'mesh', 'contract': 'Mesh.indices', 'config': {'ndim': 2},
                             'old': 'yield tuple(reversed(index))', 'new': 'yield tuple(index)'},
    'vertices_count': {'module': 'mesh', 'contract': 'Mesh.vertices', 'config': {'ndim': 2},
                       'old': 'np.linspace(pmin, pmax, n + 1)', 'new': 'np.linspace(pmin, pmax, n)'},
    'region_min_only': {'module': 'region', 'contract': 'Region.__init__', 'config': {'ndim': 2, 'form': 'p1p2'},
                        'old': 'self._pmax = np.maximum(p1, p2)', 'new': 'self._pmax = np.asarray(p2)'},
}
