"""C02 - a field holds exactly the value its specification assigns to every cell (deductive part).

Under contract: Field.__init__ (constant / per-cell array / function of position; scalar, vector, (*n,), (*n, nvdim)
shapes and every refusal), Field.update_field_values and the array setter from ANY state (a rejected specification
leaves the field unchanged), Field.__call__ (sampling = stored value of the cell that point2index names), component
access, Field.__iter__ (mesh order) and Mesh.line (equidistant points from p1 to p2 inclusive).  Dict and source-field
specifications and the pandas side of Field.line are covered by the bounded tier."""
import z3
from . import fieldc, c03
from .fieldc import FieldInit, Component, sym_field, user_callable, cell_index, inv_field
from .c15 import UpdateValues
from .c01 import unravel, prod_terms
from .shared import RegionInit, MeshInit, Point2Index, Index2Point, cell_of, contains_point
from pyvc.core import *
from pyvc.contracts import Contract, State, conj, disj
from pyvc.states import inp, sym_mesh, _eq, same_value, DIMS
from pyvc.ndarr import NDArr

ND = {'quick': (1, 2, 3), 'thorough': (1, 2, 3, 4)}
NV = {'quick': (1, 3), 'thorough': (1, 2, 3, 4)}


class FieldInitC02(FieldInit):
    """the constructor contract with the configurations that matter for C02 added: constant vectors on 1-d meshes (where a
    vector of length nvdim has the shape of mesh.n when n == nvdim), per-cell arrays of shape n for vector fields (refused)"""
    name = 'Field.__init__'

    def configs(s, tier):
        out = FieldInit.configs(s, tier)
        for d in ND[tier]:
            out += [{'ndim': d, 'nvdim': 3, 'value': 'vector', 'valid': 'true'}, {'ndim': d, 'nvdim': 2, 'value': 'vector', 'valid': 'array'}]
        out += [{'ndim': 1, 'nvdim': 3, 'value': 'array_n_vector', 'valid': 'true'}, {'ndim': 2, 'nvdim': 3, 'value': 'array_n_vector', 'valid': 'true'}]
        return out

    def pre_state(s, E, cfg):
        if cfg['value'] != 'array_n_vector':
            return FieldInit.pre_state(s, E, cfg)
        # an array of shape mesh.n (one number per cell, no component axis) for a VECTOR field: wrong shape -> refused
        d, nv = cfg['ndim'], cfg['nvdim']
        mesh, assume = sym_mesh(E, d, tf=1e-12)
        n = [E.pyscalar(x) for x in mesh.attrs['_n'].elems]
        # a last axis of length nvdim is the per-component reading ((n,) == (nvdim,) is a constant vector; (.., nvdim)
        # broadcasts as components): excluded here - what is left has the wrong shape under every reading
        assume.append(I(n[-1]) != nv)
        value = E.sym_array('val_A', n, 'float')
        st = s.bind(E, Obj('Field'), [mesh], {'nvdim': nv, 'value': value, 'valid': True, 'unit': 'T'})
        st.assume = assume
        return st


class ArraySetter(UpdateValues):
    name = 'Field.array.setter'
    qual = ('Field', 'array.setter')
    func = 'Field.array.setter'


class FieldCall(Contract):
    """field(point): the stored value of the cell that contains the point (Mesh.point2index, contract proved under C01)"""
    name = 'Field.__call__'
    qual = ('Field', '__call__')
    func = 'Field.__call__'

    def configs(s, tier):
        return [{'ndim': d, 'nvdim': nv} for d in ND[tier] for nv in NV[tier]] + [{'ndim': 2, 'nvdim': 3, 'outside': True}]

    def pre_state(s, E, cfg):
        d, nv = cfg['ndim'], cfg['nvdim']
        m, assume = sym_mesh(E, d, prefix='fm')
        f, assume = sym_field(E, d, nv, mesh=m, assume=assume, unit='T')
        p = tuple(inp(E, f'p{j}', 'float') for j in range(d))
        inside = contains_point(E, m.attrs['_region'], list(p))
        assume.append(z3.Not(inside) if cfg.get('outside') else inside)
        st = State(f, [p], {})
        st.assume, st.outside = assume, bool(cfg.get('outside'))
        return st

    def frame(s, E, st):
        return [('self', st.self)]

    def raises(s, E, st):
        return [('ValueError', True)] if st.outside else []

    def post(s, E, st, result):
        f = st.self
        nv = f.attrs['_nvdim']
        k = [Sym(t, 'int') for t in cell_of(E, f.attrs['_mesh'], list(st.args[0]))]
        c = E.skolem([nv], 'c')[0]
        if isinstance(result, NDArr):
            if len(result.shape) != 1:
                return [('sampling returns one value per component', False)]
            got = result.at(E, [c])
            out = [('one value per component', result.shape[0] == nv)]
        elif isinstance(result, Vec):
            got = E.select_list(list(result.elems), c)
            out = [('one value per component', len(result.elems) == nv)]
        else:
            return [('sampling returns an array of component values', False)]
        out.append(('sampled value == stored value of the cell point2index(point), component by component',
                    R(got) == R(f.attrs['_array'].at(E, k + [c]))))
        return out


class FieldIter(Contract):
    """iteration yields the cell values in mesh order (first dimension fastest)"""
    name = 'Field.__iter__'
    qual = ('Field', '__iter__')
    func = 'Field.__iter__'

    def configs(s, tier):
        return [{'ndim': d, 'nvdim': nv} for d in ND[tier] for nv in ((3,) if tier == 'quick' else (1, 3))]

    def pre_state(s, E, cfg):
        d, nv = cfg['ndim'], cfg['nvdim']
        m, assume = sym_mesh(E, d, prefix='fm', tf=1e-12, cellcond=True)
        f, assume = sym_field(E, d, nv, mesh=m, assume=assume, unit='T')
        st = State(f, [], {})
        st.assume = assume
        return st

    def frame(s, E, st):
        return [('self', st.self)]

    def post(s, E, st, result):
        f = st.self
        n = f.attrs['_mesh'].attrs['_n'].elems
        nv = f.attrs['_nvdim']
        if not isinstance(result, SymSeq):
            return [('iteration is a sequence', False)]
        k = E.fresh('pos', 'int')
        E.assume(z3.And(k.t >= 0, k.t < prod_terms(n)))
        el = result.elem(k)
        out = [('length = number of cells', I(result.length) == prod_terms(n))]
        idx = [Sym(u, 'int') for u in unravel(k.t, n)]
        c = E.skolem([nv], 'c')[0]
        if isinstance(el, NDArr) and len(el.shape) == 1:
            got = el.at(E, [c])
        elif isinstance(el, Vec):
            got = E.select_list(list(el.elems), c)
        else:
            return out + [('elements are arrays of component values', False)]
        out.append(('k-th yielded value == stored value of the k-th cell in mesh order (first dimension fastest)',
                    R(got) == R(f.attrs['_array'].at(E, idx + [c]))))
        return out


class MeshLine(Contract):
    """mesh.line(p1=, p2=, n=): n equidistant points, the k-th is p1 + k (p2 - p1)/(n - 1): first = p1, last = p2"""
    name = 'Mesh.line'
    qual = ('Mesh', 'line')
    func = 'Mesh.line'

    def configs(s, tier):
        return [{'ndim': d} for d in ND[tier]] + [{'ndim': 2, 'outside': 'p1'}, {'ndim': 2, 'outside': 'p2'}]

    def pre_state(s, E, cfg):
        d = cfg['ndim']
        m, assume = sym_mesh(E, d)
        p1 = tuple(inp(E, f'a{j}', 'float') for j in range(d))
        p2 = tuple(inp(E, f'b{j}', 'float') for j in range(d))
        n = inp(E, 'npts', 'int')
        assume.append(I(n) >= 2)
        reg = m.attrs['_region']
        o = cfg.get('outside')
        assume.append(contains_point(E, reg, list(p1)) if o != 'p1' else z3.Not(contains_point(E, reg, list(p1))))
        assume.append(contains_point(E, reg, list(p2)) if o != 'p2' else z3.Not(contains_point(E, reg, list(p2))))
        st = State(m, [], {'p1': p1, 'p2': p2, 'n': n})
        st.assume, st.outside = assume, o
        return st

    def frame(s, E, st):
        return [('self', st.self)]

    def raises(s, E, st):
        return [('ValueError', True)] if st.outside else []

    def post(s, E, st, result):
        p1, p2, n = st.kw['p1'], st.kw['p2'], st.kw['n']
        if not isinstance(result, SymSeq):
            return [('line is a sequence of points', False)]
        k = E.fresh('pos', 'int')
        E.assume(z3.And(k.t >= 0, k.t < I(n)))
        el = result.elem(k)
        out = [('exactly the requested number of points', I(result.length) == I(n))]
        if len(p1) == 1 and isinstance(el, (Sym, int, float)) or type(el).__name__ == 'Fraction':
            el = [el]           # util.array2tuple: a one-dimensional point is a bare number
        el = list(el.elems) if isinstance(el, Vec) else (list(el) if isinstance(el, (tuple, list)) else None)
        if el is None or len(el) != len(p1):
            return out + [('points have ndim coordinates', False)]
        for j in range(len(p1)):
            out.append((f'k-th point, axis {j}: (n-1) * x == (n-1) * p1 + k * (p2 - p1)   (equidistant, first = p1, last = p2)',
                        (R(n) - 1) * R(el[j]) == (R(n) - 1) * R(p1[j]) + z3.ToReal(k.t) * (R(p2[j]) - R(p1[j]))))
        return out


CONTRACTS = [FieldInitC02(), UpdateValues(), ArraySetter(), FieldCall(), Component(), FieldIter(), MeshLine()]
_BY_NAME = {c.name: c for c in CONTRACTS}
setup_engine = c03.setup_engine


def contract(name):
    return _BY_NAME[name]


def contracts_for_use():
    return [RegionInit(), MeshInit(), Point2Index(), FieldInit()]


INLINED = c03.INLINED + ['Mesh.indices / __iter__ / index2point (map-loop and sequence rules)', 'util.array2tuple']
TRUSTED = c03.TRUSTED + ['contract of Mesh.point2index (proved under C01); at use sites a pure function of (corners, n, tolerance, point)']
ASSUMPTIONS = c03.ASSUMPTIONS + ['dict and source-field specifications, Field.line (pandas) are decided by the bounded tier only']
MUTANTS = {
    'array_of_mesh_shape_for_vector_fields': {'module': 'field', 'contract': 'Field.__init__', 'config': {'ndim': 1, 'nvdim': 3, 'value': 'vector', 'valid': 'true'},
                                              'old': 'if nvdim == 1 and np.array_equal(np.shape(val), mesh.n):', 'new': 'if np.array_equal(np.shape(val), mesh.n):'},
    'call_uses_wrong_axis_order': {'module': 'field', 'contract': 'Field.__call__', 'config': {'ndim': 2, 'nvdim': 3},
                                   'old': 'return self.array[self.mesh.point2index(point)]', 'new': 'return self.array[self.mesh.point2index(point)[::-1]]'},
    'line_excludes_endpoint': {'module': 'mesh', 'contract': 'Mesh.line', 'config': {'ndim': 2},
                               'old': 'dl = np.subtract(p2, p1) / (n - 1)', 'new': 'dl = np.subtract(p2, p1) / n'},
    'update_keeps_partial_state': {'module': 'field', 'contract': 'Field.array.setter', 'config': {'ndim': 2, 'nvdim': 3, 'value': 'array_wrong'},
                                   'old': '        self._array = self._as_array(val, self.mesh, self.nvdim, dtype=self.dtype)',
                                   'new': '        self._array = None\n        self._array = self._as_array(val, self.mesh, self.nvdim, dtype=self.dtype)'},
}
