"""C03 - field algebra (deductive part)."""
from . import fieldc
from .fieldc import FieldInit, UnaryOp, BinaryOp, UNARY, BINARY, TwoFieldOp, ComplexPart
from .shared import RegionInit, MeshInit

CONTRACTS = [FieldInit()] + [UnaryOp(m) for m in UNARY] + [BinaryOp(m) for m in BINARY] + \
    [TwoFieldOp(m) for m in ('dot', 'cross', '__lshift__')] + [ComplexPart(m) for m in ('real', 'imag', 'conjugate')]
_BY_NAME = {c.name: c for c in CONTRACTS}


def setup_engine(E):
    E2 = fieldc.setup_engine(E)
    c = E2.classes['Field']
    fieldc.FIELD_ATTRS.update(set(c['props']) | set(c['methods']) | set(c['classmethods']) | set(c['consts']))
    return E2


def contract(name):
    return _BY_NAME[name]


def contracts_for_use():
    return [RegionInit(), MeshInit(), _BY_NAME['Field.__init__']]


INLINED = ['Field.mesh/nvdim/array/valid/vdims/vdim_mapping/unit accessors', 'Field._apply_operator, _check_same_mesh_and_field_dim, is_same_vectorspace (inlined into every operator)', 'Mesh.allclose / Region.allclose', 'Field.update_field_values, array/valid/vdims/vdim_mapping/unit setters, _as_array[Complex|Iterable] (inlined into the constructor proof)']
TRUSTED = ['[A] numpy ufuncs (add, subtract, multiply, negative, abs, logical_and) act element-wise under numpy broadcasting and allocate a fresh result; np.full broadcasts its fill value into a fresh array; np.expand_dims and basic indexing return views; np.array(..., dtype=) copies', '[A] np.power and array division by a possibly-zero divisor are total uninterpreted cell-wise functions (the proof is about WHICH cells and components are combined)', 'contracts of Region.__init__/Mesh.__init__ (discharged under C01)']
ASSUMPTIONS = ['field values are real numbers (float dtype); int/complex/bool dtypes are covered by the bounded tier (A9)', 'vdims/dims are concrete distinct labels per configuration (A5)']
MUTANTS = {
    'lshift_updates_operand_mapping': {'module': 'field', 'contract': 'Field.__lshift__', 'config': {'ndim': 3, 'nvdim': 2, 'other': 'field_mapped'},
                                       'old': 'vdim_mapping = self.vdim_mapping.copy()', 'new': 'vdim_mapping = self.vdim_mapping'},
    'and_to_or': {'module': 'field', 'contract': 'Field.__add__', 'config': {'ndim': 2, 'nvdim': 3, 'other': 'field'},
                  'old': """            self._check_same_mesh_and_field_dim(other, ignore_scalar=True)
            valid = np.logical_and(valid, other.valid)""", 'new': """            self._check_same_mesh_and_field_dim(other, ignore_scalar=True)
            valid = np.logical_or(valid, other.valid)"""},
    'neg_identity': {'module': 'field', 'contract': 'Field.__neg__', 'config': {'ndim': 2, 'nvdim': 3},
                     'old': 'value=-self.array,', 'new': 'value=self.array,'},
    'pos_returns_self': {'module': 'field', 'contract': 'Field.__pos__', 'config': {'ndim': 2, 'nvdim': 3},
                         'old': """        return self.__class__(
            self.mesh,
            nvdim=self.nvdim,
            value=self.array,
            vdims=self.vdims,
            unit=self.unit,""", 'new': """        return self
        return self.__class__(
            self.mesh,
            nvdim=self.nvdim,
            value=self.array,
            vdims=self.vdims,
            unit=self.unit,"""},
    'valid_setter_view': {'module': 'field', 'contract': 'Field.__init__', 'config': {'ndim': 2, 'nvdim': 3, 'value': 'array', 'valid': 'array'},
                          'old': """        self._valid = np.array(
            self._as_array(valid, self.mesh, nvdim=1, dtype=bool)[..., 0], dtype=bool
        )""", 'new': """        self._valid = self._as_array(valid, self.mesh, nvdim=1, dtype=bool)[..., 0]"""},
    'rsub_sign': {'module': 'field', 'contract': 'Field.__rsub__', 'config': {'ndim': 2, 'nvdim': 3, 'other': 'number'},
                  'old': 'return -self + other', 'new': 'return self - other'},
    'abs_drops_mapping': {'module': 'field', 'contract': 'Field.__abs__', 'config': {'ndim': 3, 'nvdim': 3, 'vdims': 'custom', 'mapping': 'permuted'},
                          'old': """            value=np.abs(self.array),
            vdims=self.vdims,
            unit=self.unit,
            valid=self.valid,
            vdim_mapping=self.vdim_mapping,""", 'new': """            value=np.abs(self.array),
            vdims=self.vdims,
            unit=self.unit,
            valid=self.valid,"""},
    'mul_inplace_operand': {'module': 'field', 'contract': 'Field.__mul__', 'config': {'ndim': 2, 'nvdim': 3, 'other': 'number'},
                            'old': 'return self._apply_operator(other, np.multiply, "*")', 'new': 'self.array[...] = np.multiply(self.array, other)\n        return self._apply_operator(1, np.multiply, "*")'},
}
