"""C04 - derivatives: exact on low-degree polynomials, linear, blind across gaps (deductive part).

[P] operators._1d_diff for SYMBOLIC run length m and position k (explicit stencils), exactness / linearity lemmas over
    those stencils, and Field.diff (which lines, which component, which spacing, which validity, periodic wrap / crop,
    metadata) with the per-line operator _split_diff_combine as an abstract function SDC(line values, line validity,
    length, order, dx) of its arguments.
[B] the segmentation at invalid cells inside _split_diff_combine (np.where / boolean-mask stores): exhaustive over all
    2^L masks for L <= 10 (14) in the bounded tier via exact unit-vector response matrices (complete per (L, mask), since
    the operator is linear in the values)."""
import z3
from . import fieldc, c03
from .fieldc import FieldInit, sym_field, cell_index, inv_field, same_meta
from .shared import RegionInit, MeshInit, Point2Index
from .c07 import MeshSel, MeshPad, FieldPad, Region2Slices, mesh_geometry, field_base, pad_source
from pyvc.core import *
from pyvc.contracts import Contract, State, conj, disj
from pyvc.states import inp, sym_mesh, _eq, DIMS
from pyvc.ndarr import NDArr

ND = {'quick': (1, 2, 3), 'thorough': (1, 2, 3, 4)}


# ------------------------------------------------------------------ the stencils (spec function shared by contract and lemmas)
def stencil(order, m, k, a, dx):
    """dx^order-free form: returns (lhs_factor, rhs) such that  derivative[k] * lhs_factor == rhs
    for a run of length m (z3 Int term), position k (Int term), values a(j) (python function Int term -> Real term)"""
    dx = R(dx)
    a_ = a
    a = lambda j: a_(j if z3.is_expr(j) else z3.IntVal(j))
    if order == 1:
        two = z3.If(m == 2, dx, 2 * dx)
        first = z3.If(m == 2, a(1) - a(0), -3 * a(0) + 4 * a(1) - a(2))
        last = z3.If(m == 2, a(1) - a(0), 3 * a(m - 1) - 4 * a(m - 2) + a(m - 3))
        inner = a(k + 1) - a(k - 1)
        return two, z3.If(k == 0, first, z3.If(k == m - 1, last, inner))
    first = z3.If(m == 3, a(0) - 2 * a(1) + a(2), 2 * a(0) - 5 * a(1) + 4 * a(2) - a(3))
    last = z3.If(m == 3, a(m - 1) - 2 * a(m - 2) + a(m - 3), 2 * a(m - 1) - 5 * a(m - 2) + 4 * a(m - 3) - a(m - 4))
    inner = a(k - 1) - 2 * a(k) + a(k + 1)
    return dx * dx, z3.If(k == 0, first, z3.If(k == m - 1, last, inner))


class Diff1d(Contract):
    """operators._1d_diff(order, array, dx): zeros for runs not longer than the order, otherwise the explicit stencil"""
    name = 'operators._1d_diff'
    qual = ('operators', '_1d_diff')
    func = 'operators:_1d_diff'

    def configs(s, tier):
        return [{'order': 1}, {'order': 2}]

    def pre_state(s, E, cfg):
        m = inp(E, 'm', 'int')
        dx = inp(E, 'dx', 'float')
        arr = E.sym_array('a', [m], 'float')
        st = State(None, [cfg['order'], arr, dx], {})
        st.assume = [I(m) >= 1, R(dx) > 0]
        st.m = m
        return st

    def frame(s, E, st):
        return [('array', st.args[1])]

    def post(s, E, st, result):
        order, arr, dx = st.args
        m = st.m
        if isinstance(result, Vec):
            result = E.to_ndarr(result)          # replay: 1-d arrays of the real code are lifted as plain vectors
        if not isinstance(result, NDArr) or len(result.shape) != 1:
            return [('result is a 1-d array', False)]
        k = E.skolem([m], 'k')[0]
        out = [('same length as the run', I(result.shape[0]) == I(m) if not isinstance(result.shape[0], int) else I(m) == result.shape[0]),
               ('fresh array (the run itself is not overwritten)', result.buf.id != arr.buf.id)]
        r = R(result.at(E, [k]))
        def a(j):
            j = z3.simplify(j)
            if getattr(E, 'valuation', None) is not None and z3.is_int_value(j) and not (0 <= j.as_long() < int(m)):
                return z3.RealVal(0)      # replay: branches of the stencil that are not selected may name cells outside the run
            return R(arr.at(E, [Sym(j, 'int')]))
        fac, rhs = stencil(order, I(m), I(k), a, dx)
        out.append((f'run not longer than the order ({order}): zero', z3.Implies(I(m) <= order, r == 0)))
        out.append((f'run longer than the order: derivative[k] * {"2dx (dx for two cells)" if order == 1 else "dx^2"} == stencil at k', z3.Implies(I(m) > order, r * fac == rhs)))
        return out


class StencilLemmas(Contract):
    """exactness on polynomials and linearity of the stencils of the _1d_diff contract (pure algebra over the contract)"""
    name = 'stencil-lemmas'
    func = None

    def configs(s, tier):
        return [{'order': 1}, {'order': 2}]

    def lemmas(s, E, cfg, prop):
        order = cfg['order']
        obs = []
        E.pc, E.inputs = [], {}
        m, k = inp(E, 'm', 'int'), inp(E, 'k', 'int')
        x0, dx = inp(E, 'x0', 'float'), inp(E, 'dx', 'float')
        al, be, ga, de = (inp(E, nm, 'float') for nm in ('alpha', 'beta', 'gamma', 'delta'))
        E.assume(z3.And(I(m) >= order + 1, I(k) >= 0, I(k) < I(m), R(dx) > 0))
        x = lambda j: R(x0) + z3.ToReal(j) * R(dx)
        cfgs = f'order={order}'

        def ob(label, hyp, goal):
            key = f"{prop}/lemma/{label}"
            obs.append({'key': key, 'id': f"{key}[{cfgs}]", 'config': cfgs, 'kind': 'lemma', 'text': label,
                        'pc': list(E.pc) + [hyp], 'goal': goal, 'inputs': dict(E.inputs), 'path': 0, 'outcome': 'lemma'})
        kk, mm = I(k), I(m)
        if order == 1:
            p2 = lambda j: R(al) + R(be) * x(j) + R(ga) * x(j) * x(j)
            p1 = lambda j: R(al) + R(be) * x(j)
            fac, rhs = stencil(1, mm, kk, p2, dx)
            ob('first derivative exact for polynomials of degree <= 2 on runs of >= 3 cells', mm >= 3, rhs == fac * (R(be) + 2 * R(ga) * x(kk)))
            fac, rhs = stencil(1, mm, kk, p1, dx)
            ob('first derivative exact for polynomials of degree <= 1 on two-cell runs', mm == 2, rhs == fac * R(be))
        else:
            p3 = lambda j: R(al) + R(be) * x(j) + R(ga) * x(j) * x(j) + R(de) * x(j) * x(j) * x(j)
            p2 = lambda j: R(al) + R(be) * x(j) + R(ga) * x(j) * x(j)
            fac, rhs = stencil(2, mm, kk, p3, dx)
            ob('second derivative exact for polynomials of degree <= 3 on runs of >= 4 cells', mm >= 4, rhs == fac * (2 * R(ga) + 6 * R(de) * x(kk)))
            fac, rhs = stencil(2, mm, kk, p2, dx)
            ob('second derivative exact for polynomials of degree <= 2 on three-cell runs', mm == 3, rhs == fac * (2 * R(ga)))
        # linearity: stencil(lam*a + mu*b) == lam*stencil(a) + mu*stencil(b) for arbitrary value functions a, b
        fa = z3.Function('fa', z3.IntSort(), z3.RealSort())
        fb = z3.Function('fb', z3.IntSort(), z3.RealSort())
        lam, mu = R(inp(E, 'lam', 'float')), R(inp(E, 'mu', 'float'))
        _, ra = stencil(order, mm, kk, lambda j: fa(j), dx)
        _, rb = stencil(order, mm, kk, lambda j: fb(j), dx)
        _, rc = stencil(order, mm, kk, lambda j: lam * fa(j) + mu * fb(j), dx)
        ob('the stencil is linear in the values', z3.BoolVal(True), rc == lam * ra + mu * rb)
        # locality: the stencil at k reads only cells of its own run (indices within [0, m)) - by construction of the
        # contract formula every index used is one of 0..3, m-4..m-1, k-1..k+1; checked in range here
        idxs_ok = z3.And(kk - 1 >= 0, kk + 1 <= mm - 1)
        ob('interior stencil reads only cells of the run', z3.And(kk > 0, kk < mm - 1), idxs_ok)
        return obs


class SplitDiffCombine(Contract):
    """operators._split_diff_combine(array, valid, order, dx) for a CONCRETE validity mask (every mask of every line length up
    to the bound) and SYMBOLIC real values and spacing: every maximal run of valid cells is differentiated on its own with
    the stencils of _1d_diff (zero for invalid cells and for runs not longer than the order; no value outside the run enters).
    Bounded in the line length, exhaustive over masks, unbounded in the values: a proof per (length, mask)."""
    name = 'operators._split_diff_combine'
    qual = ('operators', '_split_diff_combine')
    func = 'operators:_split_diff_combine'
    no_crosscheck = False
    LMAX = {'quick': 6, 'thorough': 9}

    def configs(s, tier):
        out = []
        for L in range(1, s.LMAX[tier] + 1):
            for bits in range(2 ** L):
                for order in (1, 2):
                    out.append({'L': L, 'mask': format(bits, f'0{L}b'), 'order': order})
        # integer-typed lines (Field(..., dtype=int)): the difference quotients are real numbers, not truncated ones
        for mask in ('111', '1111', '1011', '11011', '110111'):
            for order in (1, 2):
                out.append({'L': len(mask), 'mask': mask, 'order': order, 'adtype': 'int'})
        return out

    def pre_state(s, E, cfg):
        import numpy as np
        L, mask = cfg['L'], [c == '1' for c in cfg['mask']]
        dx = inp(E, 'dx', 'float')
        arr = E.sym_array('a', [L], cfg.get('adtype', 'float'))
        valid = E.data_array(np.array(mask, dtype=bool), 'bool', 'valid')
        st = State(None, [arr, valid, cfg['order'], dx], {})
        st.assume = [R(dx) > 0]
        st.mask = mask
        return st

    def use_contracts(s):
        return []          # everything inlined: _split_array_on_idx and _1d_diff are executed, not assumed

    def frame(s, E, st):
        return [('array', st.args[0]), ('valid', st.args[1])]

    def post(s, E, st, result):
        arr, valid, order, dx = st.args
        mask = st.mask
        L = len(mask)
        if isinstance(result, Vec):
            result = E.to_ndarr(result)
        if not isinstance(result, NDArr) or len(result.shape) != 1:
            return [('result is a 1-d array', False)]
        out = [('one value per cell of the line', result.shape[0] == L)]
        # maximal runs of valid cells
        runs, j = [], 0
        while j < L:
            if mask[j]:
                e = j
                while e < L and mask[e]:
                    e += 1
                runs.append((j, e))
                j = e
            else:
                j += 1
        run_of = {}
        for (b, e) in runs:
            for t in range(b, e):
                run_of[t] = (b, e)
        a = lambda t: R(arr.at(E, [t]))
        for t in range(L):
            r = R(result.at(E, [t]))
            if t not in run_of:
                out.append((f'cell {t}: invalid => zero', r == 0))
                continue
            b, e = run_of[t]
            m = e - b
            if m <= order:
                out.append((f'cell {t}: run of {m} cell(s), not longer than the order => zero', r == 0))
                continue
            fac, rhs = stencil(order, z3.IntVal(m), z3.IntVal(t - b), lambda q_: a(b + z3.simplify(q_).as_long()), dx)
            out.append((f'cell {t}: stencil of its own run [{b},{e}) only (position {t - b} of {m})', r * z3.simplify(fac) == z3.simplify(rhs)))
        return out


# ------------------------------------------------------------------ the per-line operator as an abstract function
_SDC = z3.Function('SDC', z3.ArraySort(z3.IntSort(), z3.RealSort()), z3.ArraySort(z3.IntSort(), z3.BoolSort()),
                   z3.IntSort(), z3.IntSort(), z3.RealSort(), z3.IntSort(), z3.RealSort())


def sdc_at(line_values, line_valid, length, order, dx, k):
    """SDC(values of the line, validity of the line, length, order, dx)[k] - lines are z3 array values (lambdas)"""
    return _SDC(line_values, line_valid, I(length), I(order), R(dx), I(k))


def sdc_concrete(values, valid, order, dx, k):
    """replay on concrete data: the per-line operator is the real operators._split_diff_combine"""
    import numpy as np, fractions
    from discretisedfield.operators import _split_diff_combine
    r = _split_diff_combine(np.array(values, dtype=float), np.array(valid, dtype=bool), int(order), float(dx))
    return z3.RealVal(str(fractions.Fraction(float(r[int(k)]))))


class SplitDiffCombineUse(Contract):
    """operators._split_diff_combine(array, valid, order, dx) AT USE SITES: a pure function of its four arguments that
    returns one value per cell of the line (assumed; what it computes is the business of the bounded tier + _1d_diff)"""
    name = 'operators._split_diff_combine'
    qual = ('operators', '_split_diff_combine')
    func = None

    def requires(s, E, st):
        a, v = st.args[0], st.args[1]
        return [isinstance(a, NDArr) and len(a.shape) == 1, isinstance(v, NDArr) and len(v.shape) == 1 and v.dtype == 'bool']

    def fresh_result(s, E, st):
        a, v, order, dx = st.args
        la, lv = E.line_lambda(a), E.line_lambda(v, 'bool')
        L = a.shape[0]
        return E.fresh_buf([L], lambda idx: Sym(sdc_at(la, lv, L, order, dx, idx[0]), 'float', True), 'float', 'SDC')


def diff_spec(E, f, ax, order, restrict2valid, periodic):
    """spec function of Field.diff: (idx, c) -> the SDC term the contract demands for result.array[idx, c]"""
    m = f.attrs['_mesh']
    n = [E.pyscalar(x) for x in m.attrs['_n'].elems]
    cell = m.ghost['cell']
    A, V = f.attrs['_array'].frozen(), f.attrs['_valid'].frozen()

    def at(idx, c):
        if getattr(E, 'valuation', None) is not None:
            from pyvc.states import tofloat
            nn = int(tofloat(n[ax]))
            pos = [((t - 1) % nn if periodic else t) for t in range(nn + 2 if periodic else nn)]
            line = lambda t: [x if a_ != ax else t for a_, x in enumerate(idx)]
            vals = [tofloat(A.at(E, line(t) + [c])) for t in pos]
            vld = [bool(tofloat(V.at(E, line(t)))) if restrict2valid else True for t in pos]
            return sdc_concrete(vals, vld, order, tofloat(cell[ax]), int(tofloat(idx[ax])) + (1 if periodic else 0))
        j = z3.Int('j!line')
        jj = Sym(j, 'int')
        if periodic:
            src = E.arith('%', E.arith('-', jj, 1), n[ax])     # np.pad(mode='wrap') by one cell on either side
            L, k = E.arith('+', n[ax], 2), E.arith('+', idx[ax], 1)
        else:
            src, L, k = jj, n[ax], idx[ax]
        line_idx = list(idx)
        line_idx[ax] = src
        la = z3.Lambda([j], R(A.at(E, line_idx + [c])))
        lv = z3.Lambda([j], B(V.at(E, line_idx)) if restrict2valid else z3.BoolVal(True))
        return sdc_at(la, lv, L, order, cell[ax], k)
    return at


class FieldDiff(Contract):
    """f.diff(direction, order, restrict2valid): every grid line along `direction` and every component is handed to the
    per-line operator on its own, with the line's own validity (or all-true), the spacing of that direction, and - in a
    periodic direction - as a ring (one wrapped cell of data AND validity on either side, cropped afterwards)"""
    name = 'Field.diff'
    qual = ('Field', 'diff')
    func = 'Field.diff'

    def configs(s, tier):
        out = []
        for d in ND[tier]:
            for ax in range(d):
                if tier == 'quick' and d == 3 and ax == 1:
                    continue
                for order in (1, 2):
                    for per in (False, True):
                        for r2v in (True, False):
                            if tier == 'quick' and (order == 2) and (per != r2v):
                                continue
                            out.append({'ndim': d, 'nvdim': 3 if d == 3 else (1 if d == 1 else 2), 'axis': ax, 'order': order, 'periodic': per, 'restrict2valid': r2v})
        # integer-typed value arrays: the derivative is a floating field holding the untruncated quotients
        out += [{'ndim': 1, 'nvdim': 1, 'axis': 0, 'order': 1, 'periodic': False, 'restrict2valid': True, 'adtype': 'int'},
                {'ndim': 2, 'nvdim': 2, 'axis': 1, 'order': 2, 'periodic': True, 'restrict2valid': True, 'adtype': 'int'}]
        out += [{'ndim': 2, 'nvdim': 2, 'axis': 0, 'order': 3, 'periodic': False, 'restrict2valid': True},
                {'ndim': 2, 'nvdim': 2, 'axis': 'nodim', 'order': 1, 'periodic': False, 'restrict2valid': True}]
        return out

    def pre_state(s, E, cfg):
        d, nv, ax = cfg['ndim'], cfg['nvdim'], cfg['axis']
        dims = DIMS[:d]
        bc = ''
        if cfg['periodic']:
            bc = dims[ax] + (dims[(ax + 1) % d] if d > 1 else '')      # periodic in the differentiated direction (and one more)
        elif d > 1:
            bc = dims[(ax + 1) % d] if isinstance(ax, int) else ''    # periodic in ANOTHER direction only: must not matter
        m, assume = sym_mesh(E, d, prefix='fm', tf=1e-12, cellcond=True, bc=bc)
        vd = ['p', 'q', 'r'][:nv] if nv > 1 else None
        f, assume = sym_field(E, d, nv, mesh=m, assume=assume, unit='T', vdims=vd, mapping=(dict(zip(vd, reversed(dims))) if (vd and nv == d) else {}),
                              adtype=cfg.get('adtype', 'float'))
        direction = dims[ax] if isinstance(ax, int) else ax
        st = State(f, [direction], {'order': cfg['order'], 'restrict2valid': cfg['restrict2valid']})
        st.assume, st.cfg = assume, cfg
        return st

    def bind(s, E, selfobj, args, kw):
        st = State(selfobj, args, kw)
        a = dict(zip(['direction', 'order', 'restrict2valid'], args))
        a.update(kw)
        m = selfobj.attrs['_mesh']
        dims = m.attrs['_region'].attrs['_dims']
        if a['direction'] not in dims:
            raise Unsupported('Field.diff use site: unknown direction')
        ax = dims.index(a['direction'])
        st.cfg = {'axis': ax, 'order': a.get('order', 1), 'restrict2valid': a.get('restrict2valid', True), 'periodic': a['direction'] in m.attrs['_bc'],
                  'ndim': len(dims), 'nvdim': selfobj.attrs['_nvdim']}
        return st

    def requires(s, E, st):
        return [st.cfg['order'] in (1, 2), isinstance(st.cfg['restrict2valid'], bool), not st.self.attrs['_mesh'].attrs['_subregions']]

    def frame(s, E, st):
        return [('self', st.self)]

    def raises(s, E, st):
        if st.cfg['order'] not in (1, 2):
            return [('NotImplementedError', True)]
        if not isinstance(st.cfg['axis'], int):
            return [('ValueError', True)]
        return []

    def post(s, E, st, result):
        f, cfg = st.self, st.cfg
        out, ok = field_base(E, result, [f])
        if not ok:
            return out
        out.append(('the derivative lives on the very mesh of the field', result.attrs['_mesh'] is f.attrs['_mesh']))
        nv = f.attrs['_nvdim']
        out.append(('number of components kept', result.attrs['_nvdim'] == nv))
        out += same_meta(E, result, f, unit=True)
        idx = cell_index(E, f)
        c = E.skolem([nv], 'c')[0]
        out.append(("validity of the result == the operand's validity (also when restrict2valid is off)", B(result.attrs['_valid'].at(E, idx)) == B(f.attrs['_valid'].at(E, idx))))
        spec = diff_spec(E, f, cfg['axis'], cfg['order'], cfg['restrict2valid'], cfg['periodic'])
        what = ('own line, own component, own validity / all-true, spacing of that direction' + (', ring with one wrapped cell per side' if cfg['periodic'] else ''))
        for cc in range(nv):
            got = result.attrs['_array'].at(E, list(idx) + [cc])
            want = spec(idx, cc)
            t = z3.simplify(R(got)) if isinstance(got, Sym) else None
            if t is not None and z3.is_app(t) and t.decl().eq(_SDC) and getattr(E, 'valuation', None) is None:
                # the code's value IS an application of the per-line operator: compare argument by argument (lines at a generic
                # position j). By congruence + extensionality these clauses imply result == SDC(spec arguments); unlike that
                # equality they are refutable with concrete counter-models.
                j = E.fresh('jline', 'int')
                E.assume(j.t >= 0)
                sel = lambda arr: z3.simplify(z3.Select(arr, j.t))
                names = ['values of the line handed to the per-line operator (at a generic position j of the line)', 'validity of that line (at j)',
                         'length of the line', 'order', 'spacing handed over == cell length of the direction', 'position of the cell within the line']
                for a_i in range(6):
                    x, y = t.arg(a_i), want.arg(a_i)
                    if a_i < 2:
                        inside = j.t < t.arg(2)
                        out.append((f'component {cc}: {names[a_i]}', z3.Implies(inside, sel(x) == sel(y))))
                    else:
                        out.append((f'component {cc}: {names[a_i]}', x == y))
            else:
                out.append((f'component {cc}: result[idx] == per-line operator applied to the grid line through idx ({what})', R(got) == want))
        return out

    def fresh_result(s, E, st):
        f, cfg = st.self, st.cfg
        m = f.attrs['_mesh']
        n = [E.pyscalar(x) for x in m.attrs['_n'].elems]
        nv = f.attrs['_nvdim']
        spec = diff_spec(E, f, cfg['axis'], cfg['order'], cfg['restrict2valid'], cfg['periodic'])
        V = f.attrs['_valid'].frozen()
        arr = E.fresh_buf(n + [nv], lambda idx: Sym(spec(list(idx[:-1]), idx[-1]), 'float', True), 'float', 'diff')
        val = E.fresh_buf(n, lambda idx: E.asbool(V.at(E, idx)), 'bool', 'diff.valid')
        res = Obj('Field', {'_mesh': m, '_nvdim': nv, 'dtype': f.attrs.get('dtype'), '_unit': f.attrs.get('_unit'), '_valid': val, '_array': arr,
                            '_vdims': list(f.attrs['_vdims']) if f.attrs['_vdims'] is not None else None, '_vdim_mapping': dict(f.attrs['_vdim_mapping'])})
        res.modelled_state = True
        return res


CONTRACTS = [Diff1d(), StencilLemmas(), FieldDiff(), SplitDiffCombine()]
_BY_NAME = {c.name: c for c in CONTRACTS}
setup_engine = c03.setup_engine


def contract(name):
    return _BY_NAME[name]


def contracts_for_use():
    return [RegionInit(), MeshInit(), Point2Index(), FieldInit(), MeshSel(), MeshPad(), FieldPad(), Region2Slices(), SplitDiffCombineUse()]


INLINED = ['Mesh.cell / n / region / bc, Region._dim2index', 'Mesh.indices (map-loop rule)']
TRUSTED = ['[A] np.gradient (uniform spacing, edge_order 1 / 2) and np.convolve(a, [1,-2,1], "same") on 1-d arrays (conformance-probed each run)',
           'contracts of the constructors, point2index, Mesh.sel, Mesh.pad (C01, C03, C07)']
ASSUMPTIONS = ['field values are real numbers',
               'inside Field.diff, operators._split_diff_combine is used as a pure function of (line values, line validity, order, dx) returning one value per cell of the line; WHAT it computes is proved from its body for every mask of every line length up to the bound (contract operators._split_diff_combine) and checked exhaustively on doubles beyond it']
BOUNDED_IN = ['segmentation of a line at invalid cells (operators._split_array_on_idx / _split_diff_combine): PROVED for symbolic values and spacing per (line length, mask) for every mask of every length L <= 6 (quick) / 9 (thorough); beyond that (L <= 10 / 14, all 2^L masks) exhaustively on doubles in the bounded tier; unbounded L is not proved']
MUTANTS = {
    'split_includes_the_invalid_cell': {'module': 'operators', 'contract': 'operators._split_diff_combine', 'config': {'L': 5, 'mask': '11011', 'order': 1},
                                        'old': 'array[loc[i] + 1 : loc[i + 1]]', 'new': 'array[max(loc[i], 0) : loc[i + 1]]'},
    'diff_wrong_spacing': {'module': 'field', 'contract': 'Field.diff', 'config': {'ndim': 2, 'nvdim': 2, 'axis': 1, 'order': 1, 'periodic': False, 'restrict2valid': True}, 'expect': 'component 0',
                           'old': '                    order,\n                    field.mesh.cell[direction_idx],', 'new': '                    order,\n                    field.mesh.cell[0],'},
    'diff_ignores_validity': {'module': 'field', 'contract': 'Field.diff', 'config': {'ndim': 2, 'nvdim': 2, 'axis': 0, 'order': 1, 'periodic': False, 'restrict2valid': True}, 'expect': 'component 0',
                              'old': '            valid_arr = valid[tuple(idx)]', 'new': '            valid_arr = np.ones_like(valid[tuple(idx)])'},
    'diff_periodic_edge_instead_of_wrap': {'module': 'field', 'contract': 'Field.diff', 'config': {'ndim': 2, 'nvdim': 2, 'axis': 0, 'order': 1, 'periodic': True, 'restrict2valid': True}, 'expect': 'component 0',
                                           'old': 'field = self.pad({direction: (1, 1)}, mode="wrap")', 'new': 'field = self.pad({direction: (1, 1)}, mode="edge")'},
    'diff_periodic_one_sided_halo': {'module': 'field', 'contract': 'Field.diff', 'config': {'ndim': 1, 'nvdim': 1, 'axis': 0, 'order': 1, 'periodic': True, 'restrict2valid': True}, 'expect': 'component 0',
                                     'old': 'field = self.pad({direction: (1, 1)}, mode="wrap")', 'new': 'field = self.pad({direction: (2, 0)}, mode="wrap")'},
    'diff_result_validity_dropped': {'module': 'field', 'contract': 'Field.diff', 'config': {'ndim': 2, 'nvdim': 2, 'axis': 0, 'order': 1, 'periodic': False, 'restrict2valid': False}, 'expect': 'validity of the result',
                                     'old': '            unit=self.unit,\n            valid=self.valid,\n            vdim_mapping=self.vdim_mapping,\n        )\n\n    @property\n    def grad(self):',
                                     'new': '            unit=self.unit,\n            vdim_mapping=self.vdim_mapping,\n        )\n\n    @property\n    def grad(self):'},
    'order2_four_cell_run_uses_short_stencil': {'module': 'operators', 'contract': 'operators._1d_diff', 'config': {'order': 2},
                                                'old': 'if len(array) >= 4:', 'new': 'if len(array) > 4:'},
    'order1_edge_order': {'module': 'operators', 'contract': 'operators._1d_diff', 'config': {'order': 1},
                          'old': 'derivative_array = np.gradient(array, dx, edge_order=2)', 'new': 'derivative_array = np.gradient(array, dx, edge_order=1)'},
    'order2_missing_dx_square': {'module': 'operators', 'contract': 'operators._1d_diff', 'config': {'order': 2},
                                 'old': 'derivative_array = derivative_array / dx**2', 'new': 'derivative_array = derivative_array / dx'},
}
