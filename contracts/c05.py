"""C05 - grad, div, curl and Laplacian are the textbook combinations of the derivatives (deductive part).

Field.diff enters through its contract (C04): its result is the per-line operator SDC applied to the grid line through
each cell.  Proved from the real source: which component is differentiated along which axis (through the
component-to-axis mapping, for every permutation and every presentation of the mapping), with which order, how the
pieces are combined (sum / difference / stacking), which labels and mapping the result carries, and every refusal.
Exactness on polynomials then follows from the stencil lemmas of C04; curl grad = 0 / div curl = 0 and the commutation
with quarter turns are decided by the bounded tier (they need the commutation of the per-line operators of different
directions, which the abstract operator does not provide)."""
import itertools
import z3
from . import fieldc, c03
from .fieldc import FieldInit, sym_field, cell_index, inv_field, same_meta
from .shared import RegionInit, MeshInit, Point2Index
from .c07 import mesh_geometry, field_base
from .c04 import FieldDiff, sdc_at, sdc_concrete
from pyvc.core import *
from pyvc.contracts import Contract, State, conj, disj
from pyvc.states import inp, sym_mesh, _eq, DIMS
from pyvc.ndarr import NDArr


def comp_diff(E, f, v, ax, order):
    """spec: (idx) -> d^order/d(dims[ax])^order of component v of f at cell idx  =  the per-line operator applied to the
    grid line of component v along axis ax through idx, with the field's validity on that line (ring if periodic)"""
    m = f.attrs['_mesh']
    n = [E.pyscalar(x) for x in m.attrs['_n'].elems]
    cell = m.ghost['cell']
    dims = m.attrs['_region'].attrs['_dims']
    periodic = dims[ax] in m.attrs['_bc']
    A, V = f.attrs['_array'].frozen(), f.attrs['_valid'].frozen()

    def at(idx):
        if getattr(E, 'valuation', None) is not None:
            from pyvc.states import tofloat
            nn = int(tofloat(n[ax]))
            pos = [((t - 1) % nn if periodic else t) for t in range(nn + 2 if periodic else nn)]
            line = lambda t: [x if a_ != ax else t for a_, x in enumerate(idx)]
            vals = [tofloat(A.at(E, line(t) + [v])) for t in pos]
            vld = [bool(tofloat(V.at(E, line(t)))) for t in pos]
            return sdc_concrete(vals, vld, order, tofloat(cell[ax]), int(tofloat(idx[ax])) + (1 if periodic else 0))
        j = z3.Int('j!line')
        jj = Sym(j, 'int')
        if periodic:
            src, L, k = E.arith('%', E.arith('-', jj, 1), n[ax]), E.arith('+', n[ax], 2), E.arith('+', idx[ax], 1)
        else:
            src, L, k = jj, n[ax], idx[ax]
        line_idx = list(idx)
        line_idx[ax] = src
        return sdc_at(z3.Lambda([j], R(A.at(E, line_idx + [v]))), z3.Lambda([j], B(V.at(E, line_idx))), L, order, cell[ax], k)
    return at


MAPPINGS3 = list(itertools.permutations(range(3)))


class VecOp(Contract):
    """common part of grad / div / curl / laplace"""
    prop = None

    def __init__(s):
        s.name = f'Field.{s.prop}'
        s.qual = ('Field', s.prop)
        s.func = f'Field.{s.prop}'

    def make(s, E, d, nv, mapping, bc='', shuffled=False, dims=None):
        m, assume = sym_mesh(E, d, prefix='fm', tf=1e-12, cellcond=True, bc=bc, dims=dims)
        dims = m.attrs['_region'].attrs['_dims']
        vd = ['p', 'q', 'r', 's'][:nv] if nv > 1 else None
        mp = {}
        if mapping is not None and vd:
            pairs = [(vd[i], (dims[a] if isinstance(a, int) else a)) for i, a in enumerate(mapping)]
            if shuffled:
                pairs = pairs[1:] + pairs[:1]          # the dict lists its keys in another order than vdims
            mp = dict(pairs)
        f, assume = sym_field(E, d, nv, mesh=m, assume=assume, unit='T', vdims=vd, mapping=mp)
        return f, assume

    def pre_state(s, E, cfg):
        f, assume = s.make(E, cfg['ndim'], cfg['nvdim'], cfg.get('mapping'), cfg.get('bc', ''), cfg.get('shuffled', False), cfg.get('dims'))
        st = State(f, [], {})
        st.assume, st.cfg = assume, cfg
        return st

    def frame(s, E, st):
        return [('self', st.self)]

    def axis_of(s, f, v):
        """axis index that component v is mapped to, or None"""
        dims = f.attrs['_mesh'].attrs['_region'].attrs['_dims']
        ax = f.attrs['_vdim_mapping'].get(f.attrs['_vdims'][v]) if f.attrs['_vdims'] else None
        return dims.index(ax) if ax in dims else None

    def unmapped(s, f):
        nv = f.attrs['_nvdim']
        return f.attrs['_vdims'] is None or any(s.axis_of(f, v) is None for v in range(nv))

    def base(s, E, st, result, nv_out):
        f = st.self
        out, ok = field_base(E, result, [f])
        if not ok:
            return out, False
        out.append(('the result lives on the very mesh of the field', result.attrs['_mesh'] is f.attrs['_mesh']))
        out.append(('number of components', result.attrs['_nvdim'] == nv_out))
        idx = cell_index(E, f)
        out.append(("validity of the result == the field's validity", B(result.attrs['_valid'].at(E, idx)) == B(f.attrs['_valid'].at(E, idx))))
        st.idx = idx
        return out, True


class Grad(VecOp):
    prop = 'grad'

    def configs(s, tier):
        out = [{'ndim': d, 'nvdim': 1} for d in ((1, 2, 3) if tier == 'quick' else (1, 2, 3, 4))]
        out += [{'ndim': 2, 'nvdim': 1, 'bc': 'a'}, {'ndim': 2, 'nvdim': 2, 'mapping': (0, 1)}]
        # axes named like the default component labels, in another order: the gradient's component j belongs to axis j
        out += [{'ndim': 3, 'nvdim': 1, 'dims': ('z', 'x', 'y')}, {'ndim': 2, 'nvdim': 1, 'dims': ('y', 'x')}]
        return out

    def raises(s, E, st):
        return [('ValueError', True)] if st.self.attrs['_nvdim'] != 1 else []

    def post(s, E, st, result):
        f = st.self
        d = len(f.attrs['_mesh'].attrs['_n'].elems)
        out, ok = s.base(E, st, result, d)
        if not ok:
            return out
        dims = f.attrs['_mesh'].attrs['_region'].attrs['_dims']
        for j in range(d):
            out.append((f'component {j} == first derivative of the field along axis {j}', R(result.attrs['_array'].at(E, list(st.idx) + [j])) == comp_diff(E, f, 0, j, 1)(st.idx)))
        if d > 1:
            vd, mp = result.attrs.get('_vdims'), result.attrs.get('_vdim_mapping')
            out.append(('component j of the gradient is mapped to spatial axis j', isinstance(vd, list) and len(vd) == d and mp == dict(zip(vd, dims))))
        return out


class Div(VecOp):
    prop = 'div'

    def configs(s, tier):
        out = [{'ndim': 3, 'nvdim': 3, 'mapping': p} for p in (MAPPINGS3 if tier == 'thorough' else [(0, 1, 2), (2, 0, 1), (1, 0, 2)])]
        out += [{'ndim': 2, 'nvdim': 2, 'mapping': p} for p in ((0, 1), (1, 0))] + [{'ndim': 1, 'nvdim': 1, 'mapping': None}]
        out += [{'ndim': 3, 'nvdim': 3, 'mapping': (1, 2, 0), 'shuffled': True}, {'ndim': 3, 'nvdim': 3, 'mapping': (0, 1, 2), 'bc': 'ac'},
                {'ndim': 3, 'nvdim': 2, 'mapping': (0, 1)}, {'ndim': 2, 'nvdim': 2, 'mapping': None}, {'ndim': 2, 'nvdim': 2, 'mapping': (0, 'nodim')}]
        return out

    def raises(s, E, st):
        f = st.self
        d = len(f.attrs['_mesh'].attrs['_n'].elems)
        if f.attrs['_nvdim'] != d:
            return [('ValueError', True)]
        if f.attrs['_vdims'] is None:
            return [('TypeError', True), ('ValueError', True)]
        return [('ValueError', True)] if s.unmapped(f) else []

    def post(s, E, st, result):
        f = st.self
        nv = f.attrs['_nvdim']
        out, ok = s.base(E, st, result, 1)
        if not ok:
            return out
        want = z3.RealVal(0)
        for v in range(nv):
            want = want + comp_diff(E, f, v, s.axis_of(f, v), 1)(st.idx)
        out.append(('divergence == sum over components of d(component)/d(axis the component is mapped to)', R(result.attrs['_array'].at(E, list(st.idx) + [0])) == want))
        return out


class Curl(VecOp):
    prop = 'curl'

    def configs(s, tier):
        out = [{'ndim': 3, 'nvdim': 3, 'mapping': p} for p in MAPPINGS3]
        out += [{'ndim': 3, 'nvdim': 3, 'mapping': (1, 2, 0), 'shuffled': True}, {'ndim': 3, 'nvdim': 3, 'mapping': (0, 2, 1), 'bc': 'b'},
                {'ndim': 2, 'nvdim': 3, 'mapping': None}, {'ndim': 3, 'nvdim': 2, 'mapping': (0, 1)}, {'ndim': 3, 'nvdim': 3, 'mapping': None},
                {'ndim': 3, 'nvdim': 3, 'mapping': (0, 1, 'nodim')},
                {'ndim': 3, 'nvdim': 3, 'mapping': (1, 2, 0), 'dims': ('y', 'z', 'x')}]
        return out

    def raises(s, E, st):
        f = st.self
        d = len(f.attrs['_mesh'].attrs['_n'].elems)
        if f.attrs['_nvdim'] != 3 or d != 3:
            return [('ValueError', True)]
        return [('ValueError', True)] if s.unmapped(f) else []

    def post(s, E, st, result):
        f = st.self
        out, ok = s.base(E, st, result, 3)
        if not ok:
            return out
        comp_on = {s.axis_of(f, v): v for v in range(3)}          # axis -> component mapped to it
        D = lambda axis_of_comp, along: comp_diff(E, f, comp_on[axis_of_comp], along, 1)(st.idx)
        for j in range(3):
            a, b = (j + 1) % 3, (j + 2) % 3
            out.append((f'curl component {j} == d(component on axis {b})/d(axis {a}) - d(component on axis {a})/d(axis {b})   (components found through the mapping)',
                        R(result.attrs['_array'].at(E, list(st.idx) + [j])) == D(b, a) - D(a, b)))
        dims = f.attrs['_mesh'].attrs['_region'].attrs['_dims']
        vd, mp = result.attrs.get('_vdims'), result.attrs.get('_vdim_mapping')
        out.append(('component j of the curl is mapped to spatial axis j', isinstance(vd, list) and len(vd) == 3 and mp == dict(zip(vd, dims))))
        return out


class Laplace(VecOp):
    prop = 'laplace'

    def configs(s, tier):
        out = [{'ndim': d, 'nvdim': 1} for d in (1, 2, 3)]
        out += [{'ndim': 2, 'nvdim': 2, 'mapping': (1, 0)}, {'ndim': 3, 'nvdim': 3, 'mapping': (2, 0, 1)}, {'ndim': 2, 'nvdim': 3, 'mapping': None},
                {'ndim': 2, 'nvdim': 1, 'bc': 'b'}]
        return out

    def post(s, E, st, result):
        f = st.self
        nv = f.attrs['_nvdim']
        d = len(f.attrs['_mesh'].attrs['_n'].elems)
        out, ok = s.base(E, st, result, nv)
        if not ok:
            return out
        for v in range(nv):
            want = z3.RealVal(0)
            for j in range(d):
                want = want + comp_diff(E, f, v, j, 2)(st.idx)
            out.append((f'component {v} == sum over all axes of the second derivative of component {v}', R(result.attrs['_array'].at(E, list(st.idx) + [v])) == want))
        if nv > 1:
            out += same_meta(E, result, f)
        return out


class FieldInitLabels(FieldInit):
    """the part of the constructor contract that the four operators rely on for their results: default component labels
    and the default component-to-axis mapping pair component j with axis j BY POSITION (also when the axes carry the
    names of the default labels in another order); given labels / mappings are stored as given"""
    name = 'Field.__init__[labels and mapping]'

    def configs(s, tier):
        return [{'ndim': 3, 'nvdim': 3, 'value': 'array', 'valid': 'array', 'dims': ('z', 'x', 'y')},
                {'ndim': 2, 'nvdim': 2, 'value': 'array', 'valid': 'array', 'dims': ('y', 'x')},
                {'ndim': 3, 'nvdim': 3, 'value': 'array', 'valid': 'array'},
                {'ndim': 2, 'nvdim': 2, 'value': 'array', 'valid': 'array', 'vdims': 'custom', 'mapping': 'permuted'},
                {'ndim': 2, 'nvdim': 3, 'value': 'array', 'valid': 'array'}]


CONTRACTS = [Grad(), Div(), Curl(), Laplace(), FieldInitLabels()]
_BY_NAME = {c.name: c for c in CONTRACTS}
setup_engine = c03.setup_engine


def contract(name):
    return _BY_NAME[name]


def contracts_for_use():
    return [RegionInit(), MeshInit(), Point2Index(), FieldInit(), FieldDiff()]


INLINED = ['Field.__getattr__ (component access), __sub__, __radd__/__add__ (builtin sum), __lshift__, vdims / vdim_mapping setters, _r_dim_mapping (all through the Field.__init__ contract)']
TRUSTED = ['contract of Field.diff (proved under C04): result = per-line operator applied to every grid line of every component', 'contracts of the constructors (C01, C03)']
ASSUMPTIONS = ['field values are real numbers', 'curl grad = 0, div curl = 0 and commutation with quarter turns are decided by the bounded tier only']
MUTANTS = {
    'curl_components_by_position': {'module': 'field', 'contract': 'Field.curl', 'config': {'ndim': 3, 'nvdim': 3, 'mapping': (2, 0, 1)},
                                    'old': '        x, y, z = self.mesh.region.dims\n        curl_x = getattr(self, self._r_dim_mapping[z]).diff(y)',
                                    'new': '        x, y, z = self.mesh.region.dims\n        curl_x = getattr(self, self.vdims[2]).diff(y)'},
    'div_axis_by_position': {'module': 'field', 'contract': 'Field.div', 'config': {'ndim': 3, 'nvdim': 3, 'mapping': (2, 0, 1)},
                             'old': 'getattr(self, vdim).diff(self.vdim_mapping[vdim]) for vdim in self.vdims', 'new': 'getattr(self, vdim).diff(dim) for vdim, dim in zip(self.vdims, self.mesh.region.dims)'},
    'laplace_first_order': {'module': 'field', 'contract': 'Field.laplace', 'config': {'ndim': 2, 'nvdim': 1},
                            'old': 'sum(self.diff(dim, order=2) for dim in self.mesh.region.dims)', 'new': 'sum(self.diff(dim, order=1) for dim in self.mesh.region.dims)'},
    'grad_reversed_axes': {'module': 'field', 'contract': 'Field.grad', 'config': {'ndim': 2, 'nvdim': 1},
                           'old': 'derivatives = [self.diff(dim) for dim in self.mesh.region.dims]', 'new': 'derivatives = [self.diff(dim) for dim in reversed(self.mesh.region.dims)]'},
}
