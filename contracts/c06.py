"""C06 - integrals and means are cell sums times cell measure, consistent across axes (deductive part).

The finite sums themselves are named by ghost functions ([A] np.sum / np.cumsum / ndarray.mean compute the sum over the
given axes): SUM[array view, axes](remaining index) and the prefix sum P with P(0) = 0, P(k+1) = P(k) + a[k].  What is
PROVED from the real source is which array, which axes, which measure (cell length / volume), which result mesh, which
labels - for all meshes, all values, all directions."""
import z3
from . import fieldc, c03
from .fieldc import FieldInit, sym_field, cell_index, inv_field, same_meta
from .shared import RegionInit, MeshInit, Point2Index
from .c07 import MeshSel, mesh_geometry, field_base
from pyvc.core import *
from pyvc.contracts import Contract, State, conj, disj
from pyvc.states import inp, sym_mesh, _eq, DIMS
from pyvc.ndarr import NDArr

ND = {'quick': (1, 2, 3), 'thorough': (1, 2, 3, 4)}
NV = {'quick': (1, 3), 'thorough': (1, 2, 3)}


def make_field(E, cfg):
    d, nv = cfg['ndim'], cfg['nvdim']
    m, assume = sym_mesh(E, d, prefix='fm', tf=1e-12, cellcond=True)
    vd = ['p', 'q', 'r'][:nv] if nv > 1 else None
    kw = {}
    if cfg.get('adtype'):
        # a field declared with dtype=int holding integers: integrals and means are real numbers all the same
        kw = {'adtype': cfg['adtype'], 'dtype': TypeTag(cfg['adtype'])}
    f, assume = sym_field(E, d, nv, mesh=m, assume=assume, unit='T', vdims=vd, mapping=(dict(zip(vd, reversed(DIMS[:d]))) if (vd and nv == d) else {}), **kw)
    return f, assume


def ghost_sum_at(E, arr, axes, rest_idx):
    """the ghost sum of `arr` over `axes` at the remaining index (the same function symbol the code's np.sum gets)"""
    G = E.ghost_sum(arr, tuple(sorted(axes)))
    return G(*[I(i) for i in rest_idx]) if rest_idx else G()


class Integrate(Contract):
    name = 'Field.integrate'
    qual = ('Field', 'integrate')
    func = 'Field.integrate'

    def configs(s, tier):
        out = []
        for d in ND[tier]:
            for nv in NV[tier]:
                out.append({'ndim': d, 'nvdim': nv, 'kind': 'total'})
                for ax in range(d):
                    if tier == 'quick' and d == 3 and ax == 1:
                        continue
                    out.append({'ndim': d, 'nvdim': nv, 'kind': 'direction', 'axis': ax})
                    out.append({'ndim': d, 'nvdim': nv, 'kind': 'cumulative', 'axis': ax})
        out += [{'ndim': 2, 'nvdim': 3, 'kind': 'cumulative_total'}, {'ndim': 2, 'nvdim': 3, 'kind': 'bad_type'}, {'ndim': 2, 'nvdim': 3, 'kind': 'unknown_dim'}]
        out += [{'ndim': 2, 'nvdim': 1, 'kind': 'total', 'adtype': 'int'}, {'ndim': 2, 'nvdim': 3, 'kind': 'direction', 'axis': 1, 'adtype': 'int'},
                {'ndim': 1, 'nvdim': 1, 'kind': 'direction', 'axis': 0, 'adtype': 'int'}, {'ndim': 2, 'nvdim': 1, 'kind': 'cumulative', 'axis': 0, 'adtype': 'int'}]
        return out

    def pre_state(s, E, cfg):
        f, assume = make_field(E, cfg)
        dims = f.attrs['_mesh'].attrs['_region'].attrs['_dims']
        k = cfg['kind']
        kw = {}
        if k in ('direction', 'cumulative'):
            kw['direction'] = dims[cfg['axis']]
        if k in ('cumulative', 'cumulative_total'):
            kw['cumulative'] = True
        if k == 'bad_type':
            kw['direction'] = 3
        if k == 'unknown_dim':
            kw['direction'] = 'nodim'
        st = State(f, [], kw)
        st.assume, st.kind, st.axis = assume, k, cfg.get('axis')
        return st

    def frame(s, E, st):
        return [('self', st.self)]

    def raises(s, E, st):
        return {'cumulative_total': [('ValueError', True)], 'bad_type': [('TypeError', True)], 'unknown_dim': [('ValueError', True)]}.get(st.kind, [])

    def post(s, E, st, result):
        f = st.self
        m = f.attrs['_mesh']
        arr = f.attrs['_array']
        nv = f.attrs['_nvdim']
        pmin, pmax, n = mesh_geometry(m)
        cell = m.ghost['cell']
        d = len(n)
        c = E.skolem([nv], 'c')[0]
        if st.kind == 'total':
            vol = z3.RealVal(1)
            for cj in cell:
                vol = vol * R(cj)
            if not isinstance(result, NDArr) or len(result.shape) != 1:
                return [('the integral over all directions is an array with one entry per component', False)]
            return [('one entry per component', result.shape[0] == nv),
                    ('integral over all directions == (sum of all cell values) * cell volume, per component',
                     R(result.at(E, [c])) == ghost_sum_at(E, arr, list(range(d)), [c]) * vol)]
        ax = st.axis
        if st.kind == 'direction':
            if d == 1:
                if not isinstance(result, NDArr):
                    return [('1-d: the directional integral is the bare array of component values', False)]
                return [('1-d: directional integral == (sum along the axis) * cell length', R(result.at(E, [c])) == ghost_sum_at(E, arr, [0], [c]) * R(cell[0]))]
            out, ok = field_base(E, result, [f])
            if not ok:
                return out
            ms = MeshSel()
            mst = State(m, [st.kw['direction']], {})
            mst.kind, mst.axis = 'centre', ax
            out += [('mesh (that axis removed): ' + l, cc) for l, cc in ms.post(E, mst, result.attrs['_mesh'])]
            rn = [E.pyscalar(x) for x in result.attrs['_mesh'].attrs['_n'].elems]
            ridx = E.skolem(rn, 'j')
            out.append(('directional integral == (sum along that axis) * cell length, at every remaining cell and component',
                        R(result.attrs['_array'].at(E, list(ridx) + [c])) == ghost_sum_at(E, arr, [ax], list(ridx) + [c]) * R(cell[ax])))
        else:
            out, ok = field_base(E, result, [f])
            if not ok:
                return out
            out.append(('the cumulative integral lives on the very mesh of the field', result.attrs['_mesh'] is m))
            idx = cell_index(E, f)
            cs = E.np_cumsum([arr], {'axis': ax})
            P = cs.ghost_prefix[0]
            full = list(idx) + [c]
            pre = P(*[I(i) for i in full])          # P(.., k, ..) = sum of the cells before k along the axis
            if getattr(E, 'valuation', None) is not None and all(isinstance(i, int) for i in full):
                # concrete data (replay of a counter-model on the real code): the sum of the preceding cells itself
                import fractions
                tot = fractions.Fraction(0)
                for t in range(full[ax]):
                    ii = list(full)
                    ii[ax] = t
                    x = arr.at(E, ii)
                    tot += x if isinstance(x, fractions.Fraction) else fractions.Fraction(float(tofloat(x)))
                pre = z3.RealVal(str(tot))
            out.append(('cumulative integral at cell k == cell length * (sum of the preceding cells + half the own value)',
                        R(result.attrs['_array'].at(E, full)) == R(cell[ax]) * (pre + R(arr.at(E, full)) / 2)))
        out.append(('number of components kept', result.attrs['_nvdim'] == nv))
        out += same_meta(E, result, f)
        return out


class Mean(Contract):
    name = 'Field.mean'
    qual = ('Field', 'mean')
    func = 'Field.mean'

    def configs(s, tier):
        out = []
        for d in ND[tier]:
            for nv in NV[tier]:
                out += [{'ndim': d, 'nvdim': nv, 'dirs': None}, {'ndim': d, 'nvdim': nv, 'dirs': tuple(range(d))[::-1]}]
                for ax in range(d):
                    if tier == 'quick' and d == 3 and ax == 1:
                        continue
                    out.append({'ndim': d, 'nvdim': nv, 'dirs': ax})
                    if d >= 2:
                        out.append({'ndim': d, 'nvdim': nv, 'dirs': (ax,)})
                if d == 3:
                    out += [{'ndim': 3, 'nvdim': nv, 'dirs': (2, 0)}, {'ndim': 3, 'nvdim': nv, 'dirs': (0, 1)}]
        out += [{'ndim': 2, 'nvdim': 3, 'dirs': (0, 0)}, {'ndim': 2, 'nvdim': 3, 'dirs': 'bad_type'}, {'ndim': 2, 'nvdim': 3, 'dirs': 'unknown_dim'}]
        out += [{'ndim': 2, 'nvdim': 1, 'dirs': None, 'adtype': 'int'}, {'ndim': 2, 'nvdim': 3, 'dirs': 1, 'adtype': 'int'}, {'ndim': 1, 'nvdim': 1, 'dirs': 0, 'adtype': 'int'}]
        return out

    def pre_state(s, E, cfg):
        f, assume = make_field(E, cfg)
        dims = f.attrs['_mesh'].attrs['_region'].attrs['_dims']
        ds = cfg['dirs']
        if ds is None:
            args = []
        elif ds == 'bad_type':
            args = [3]
        elif ds == 'unknown_dim':
            args = ['nodim']
        elif isinstance(ds, int):
            args = [dims[ds]]
        else:
            args = [[dims[j] for j in ds]]
        st = State(f, args, {})
        st.assume, st.dirs = assume, ds
        return st

    def frame(s, E, st):
        return [('self', st.self)]

    def raises(s, E, st):
        ds = st.dirs
        if ds in ('bad_type', 'unknown_dim'):
            return [('ValueError', True)]
        if isinstance(ds, tuple) and len(set(ds)) != len(ds):
            return [('ValueError', True)]
        return []

    def post(s, E, st, result):
        f = st.self
        m = f.attrs['_mesh']
        arr = f.attrs['_array']
        nv = f.attrs['_nvdim']
        pmin, pmax, n = mesh_geometry(m)
        d = len(n)
        c = E.skolem([nv], 'c')[0]
        ds = st.dirs
        axes = list(range(d)) if ds is None else ([ds] if isinstance(ds, int) else sorted(ds))
        cnt = z3.RealVal(1)
        for j in axes:
            cnt = cnt * R(n[j])
        if len(axes) == d:
            if not isinstance(result, NDArr) or len(result.shape) != 1:
                return [('the mean over all directions is an array with one entry per component', False)]
            return [('one entry per component', result.shape[0] == nv),
                    ('mean over all directions * number of cells == sum of all cell values, per component',
                     R(result.at(E, [c])) * cnt == ghost_sum_at(E, arr, axes, [c]))]
        out, ok = field_base(E, result, [f])
        if not ok:
            return out
        rm = result.attrs['_mesh']
        rpmin, rpmax, rn = mesh_geometry(rm)
        keep = [j for j in range(d) if j not in axes]
        reg, rreg = m.attrs['_region'].attrs, rm.attrs['_region'].attrs
        if len(rn) != len(keep):
            return out + [('exactly the averaged axes are removed from the mesh', False)]
        out.append(('dims: the averaged axes are removed, the others keep names and order', _eq(E, rreg['_dims'], tuple(reg['_dims'][j] for j in keep))))
        out.append(('units of the remaining axes kept', _eq(E, rreg['_units'], tuple(reg['_units'][j] for j in keep))))
        for i, j in enumerate(keep):
            out.append((f'remaining axis {j}: pmin, pmax, cell count kept', z3.And(R(rpmin[i]) == R(pmin[j]), R(rpmax[i]) == R(pmax[j]), I(rn[i]) == I(n[j]))))
        ridx = E.skolem([E.pyscalar(x) for x in rn], 'j')
        out.append(('mean * number of averaged cells == sum over the averaged axes, at every remaining cell and component',
                    R(result.attrs['_array'].at(E, list(ridx) + [c])) * cnt == ghost_sum_at(E, arr, axes, list(ridx) + [c])))
        out.append(('number of components kept', result.attrs['_nvdim'] == nv))
        out += same_meta(E, result, f, unit=True)
        return out


class MeshdV(Contract):
    name = 'Mesh.dV'
    qual = ('Mesh', 'dV')
    func = 'Mesh.dV'

    def configs(s, tier):
        return [{'ndim': d} for d in ND[tier]]

    def pre_state(s, E, cfg):
        m, assume = sym_mesh(E, cfg['ndim'], tf=1e-12)
        st = State(m, [], {})
        st.assume = assume
        return st

    def frame(s, E, st):
        return [('self', st.self)]

    def post(s, E, st, result):
        vol = z3.RealVal(1)
        for cj in st.self.ghost['cell']:
            vol = vol * R(cj)
        return [('dV == product of the cell lengths (edges/n per axis)', R(result) == vol)]


class SumLemmas(Contract):
    """consequences of the contracts above under the algebra of finite sums ([A]: Fubini, linearity, P(n) = total):
    stated and checked as implications over the ghost symbols, so that the property-level statements
    'last cumulative entry + half the last cell == directional integral' and 'mean == integral / extent' are
    discharged rather than asserted"""
    name = 'sum-lemmas'
    func = None

    def configs(s, tier):
        return [{'n': 'symbolic'}]

    def lemmas(s, E, cfg, prop):
        E.pc, E.inputs = [], {}
        obs = []
        n = inp(E, 'n', 'int')
        c = inp(E, 'cell', 'float')
        E.assume(z3.And(I(n) >= 1, R(c) > 0))
        a = z3.Function('a', z3.IntSort(), z3.RealSort())
        P = z3.Function('P', z3.IntSort(), z3.RealSort())
        S = z3.Real('S')
        # contract of the cumulative integral at the last cell, and of the directional integral
        last = R(c) * (P(I(n) - 1) + a(I(n) - 1) / 2)
        direc = S * R(c)
        # [A] prefix-sum algebra at the instance used: P(n) = P(n-1) + a[n-1] and P(n) = S (the sum along the axis)
        E.assume(P(I(n)) == P(I(n) - 1) + a(I(n) - 1))
        E.assume(P(I(n)) == S)

        def ob(label, goal):
            key = f"{prop}/lemma/{label}"
            obs.append({'key': key, 'id': f"{key}[n=symbolic]", 'config': 'n=symbolic', 'kind': 'lemma', 'text': label,
                        'pc': list(E.pc), 'goal': goal, 'inputs': dict(E.inputs), 'path': 0, 'outcome': 'lemma'})
        ob('last cumulative entry + cell * half the last value == directional integral', last + R(c) * a(I(n) - 1) / 2 == direc)
        mean = z3.Real('mean')
        E.assume(mean * R(n) == S)
        ob('mean == directional integral / integrated extent (extent = n * cell)', mean * (R(n) * R(c)) == direc)
        return obs


CONTRACTS = [Integrate(), Mean(), MeshdV(), SumLemmas()]
_BY_NAME = {c.name: c for c in CONTRACTS}
setup_engine = c03.setup_engine


def contract(name):
    return _BY_NAME[name]


def contracts_for_use():
    return [RegionInit(), MeshInit(), Point2Index(), FieldInit(), MeshSel()]


INLINED = ['Mesh.cell / n / region, Region.edges / _dim2index', 'util.assemble_index', 'Mesh._sel_convert_input is behind the Mesh.sel contract']
TRUSTED = ['contracts of Region.__init__, Mesh.__init__, Mesh.point2index (C01), Field.__init__ (C03), Mesh.sel (C07)',
           '[A] np.sum(a, axis) / ndarray.mean(axis) / np.cumsum(a, axis) compute the finite sums they name (ghost functions SUM and P)',
           '[A] algebra of finite sums used by the lemmas (P(n) = P(n-1) + a[n-1], P(n) = total)']
ASSUMPTIONS = ['field values are real numbers', 'meshes without subregions (Mesh.sel contract precondition at use sites)']
MUTANTS = {
    'total_uses_one_cell_length': {'module': 'field', 'contract': 'Field.integrate', 'config': {'ndim': 2, 'nvdim': 3, 'kind': 'total'},
                                   'old': 'return sum_ * self.mesh.dV', 'new': 'return sum_ * self.mesh.cell[0]'},
    'directional_wrong_cell': {'module': 'field', 'contract': 'Field.integrate', 'config': {'ndim': 2, 'nvdim': 3, 'kind': 'direction', 'axis': 1},
                               'old': 'res_array = np.sum(self.array, axis=axis) * self.mesh.cell[axis]', 'new': 'res_array = np.sum(self.array, axis=axis) * self.mesh.cell[0]'},
    'cumulative_full_cell': {'module': 'field', 'contract': 'Field.integrate', 'config': {'ndim': 2, 'nvdim': 3, 'kind': 'cumulative', 'axis': 0},
                             'old': 'tmp_array = self.array / 2', 'new': 'tmp_array = self.array * 1'},
    'cumulative_shift': {'module': 'field', 'contract': 'Field.integrate', 'config': {'ndim': 1, 'nvdim': 1, 'kind': 'cumulative', 'axis': 0},
                         'old': 'left_cells = dfu.assemble_index(slice(None), ndim, {axis: slice(None, -1)})', 'new': 'left_cells = dfu.assemble_index(slice(None), ndim, {axis: slice(1, None)})'},
    'mean_wrong_axis': {'module': 'field', 'contract': 'Field.mean', 'config': {'ndim': 3, 'nvdim': 3, 'dirs': (2, 0)},
                        'old': 'axis[i] = self.mesh.region._dim2index(d)', 'new': 'axis[i] = i'},
    'mean_drops_mapping': {'module': 'field', 'contract': 'Field.mean', 'config': {'ndim': 3, 'nvdim': 3, 'dirs': 0}, 'expect': 'mapping',
                           'old': '                vdims=self.vdims,\n                unit=self.unit,\n                vdim_mapping=self.vdim_mapping,\n            )\n        else:',
                           'new': '                vdims=self.vdims,\n                unit=self.unit,\n            )\n        else:'},
}
