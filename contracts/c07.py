"""C07 - sub-selection, extraction, padding keep every value at its physical position (deductive part).

Under contract: Mesh.sel (plane through the centre / through a coordinate, range), Field.sel, Mesh.__getitem__(region),
Field.__getitem__, Mesh.region2slices, Mesh.pad, Field.pad.  resample and the double-rounding at cell faces are
covered by the bounded tier only."""
import z3
from . import fieldc, c03
from .fieldc import FieldInit, sym_field, cell_index, inv_field, same_meta, field_result_base
from .shared import RegionInit, MeshInit, Point2Index, Index2Point, cdiv, contains_point, cell_of
from pyvc.core import *
from pyvc.contracts import Contract, State, conj, disj
from pyvc.states import inp, sym_mesh, sym_region, _eq, snapshot, same_value, DIMS, UNITS
from pyvc.ndarr import NDArr

ND = {'quick': (1, 2, 3), 'thorough': (1, 2, 3, 4)}
HALF = z3.RealVal('1/2')


def lattice_offset(E, L, pmin, c):
    """(L - pmin)/c as a term (syntactic cancellation where possible, conservative quotient otherwise)"""
    return cdiv(E, toreal(R(L) - R(pmin)), toreal(R(c)))


def is_int(t):
    return z3.ToReal(z3.ToInt(t)) == t


def probe_point(E, m, ax, x):
    """the point whose cell is looked up for a coordinate x on axis ax: the lower corner with x on that axis"""
    pmin = m.attrs['_region'].attrs['_pmin'].elems
    return [x if j == ax else pmin[j] for j in range(len(pmin))]


def cell_index_of(E, m, ax, x, assume_contract=False, centre=False):
    """spec function: index along ax of the cell containing coordinate x = Mesh.point2index(probe point)[ax]
    (centre: the cell containing the region centre).
    assume_contract: additionally assume the (separately proved) post-condition of point2index for this application"""
    if centre:
        reg = m.attrs['_region'].attrs
        p = [E.arith('/', E.arith('+', a, b), 2) for a, b in zip(reg['_pmin'].elems, reg['_pmax'].elems)]
    else:
        p = probe_point(E, m, ax, x)
    ks = cell_of(E, m, p)
    if assume_contract:
        c = Point2Index()
        st = c.bind(E, m, [tuple(p)], {})
        for label, phi in c.post(E, st, tuple(Sym(t, 'int') for t in ks)):
            if not isinstance(phi, bool):
                E.assume(phi)
    return ks[ax]


def mesh_geometry(m):
    reg = m.attrs['_region'].attrs
    return reg['_pmin'].elems, reg['_pmax'].elems, m.attrs['_n'].elems


class MeshSel(Contract):
    """mesh.sel('a') | mesh.sel(a=x) | mesh.sel(a=(lo, hi))   on a mesh without subregions (subregion clipping: C14)"""
    name = 'Mesh.sel'
    qual = ('Mesh', 'sel')
    func = 'Mesh.sel'

    def configs(s, tier):
        out = []
        for d in ND[tier]:
            for ax in range(d):
                if tier == 'quick' and d == 3 and ax == 1:
                    continue
                if d >= 2:
                    out += [{'ndim': d, 'axis': ax, 'kind': 'centre'}, {'ndim': d, 'axis': ax, 'kind': 'value'}]
                out += [{'ndim': d, 'axis': ax, 'kind': 'range'}]
        # integer-typed corner arrays (dtype-sensitive: the requested coordinate must not be truncated into the corner dtype)
        out += [{'ndim': 2, 'axis': 0, 'kind': 'value', 'corners': 'int'}, {'ndim': 2, 'axis': 1, 'kind': 'range', 'corners': 'int'},
                {'ndim': 1, 'axis': 0, 'kind': 'range', 'corners': 'int'}]
        out += [{'ndim': 2, 'axis': 0, 'kind': 'value_outside'}, {'ndim': 2, 'axis': 1, 'kind': 'range_outside'}, {'ndim': 2, 'axis': 0, 'kind': 'two_kwargs'},
                {'ndim': 2, 'axis': 0, 'kind': 'unknown_dim'}, {'ndim': 2, 'axis': 0, 'kind': 'range_len3'}, {'ndim': 2, 'axis': 0, 'kind': 'str_value'}]
        return out

    def pre_state(s, E, cfg):
        d, ax, k = cfg['ndim'], cfg['axis'], cfg['kind']
        m, assume = sym_mesh(E, d, tf=1e-12, cellcond=True, corners=cfg.get('corners', 'float'))
        pmin, pmax, n = mesh_geometry(m)
        dim = m.attrs['_region'].attrs['_dims'][ax]
        st = State(m, [], {})
        args, kw = st.args, st.kw
        if k == 'centre':
            args.append(dim)
        elif k in ('value', 'value_outside'):
            x = inp(E, 'x', 'float')
            if k == 'value':
                assume += [R(x) >= R(pmin[ax]), R(x) <= R(pmax[ax])]
            else:
                assume += [z3.Or(R(x) < R(pmin[ax]), R(x) > R(pmax[ax]))]
            kw[dim] = x
            st.x = x
        elif k in ('range', 'range_outside'):
            lo, hi = inp(E, 'lo', 'float'), inp(E, 'hi', 'float')      # either order
            inside = z3.And(R(lo) >= R(pmin[ax]), R(lo) <= R(pmax[ax]), R(hi) >= R(pmin[ax]), R(hi) <= R(pmax[ax]))
            assume.append(inside if k == 'range' else z3.Not(inside))
            kw[dim] = (lo, hi)
            st.lo, st.hi = lo, hi
        elif k == 'two_kwargs':
            kw[dim] = inp(E, 'x', 'float')
            kw[m.attrs['_region'].attrs['_dims'][1]] = inp(E, 'y', 'float')
        elif k == 'unknown_dim':
            args.append('nodim')
        elif k == 'range_len3':
            kw[dim] = (inp(E, 'lo', 'float'), inp(E, 'hi', 'float'), inp(E, 'z', 'float'))
        elif k == 'str_value':
            kw[dim] = 'abc'
        st.assume, st.kind, st.axis = assume, k, ax
        return st

    def frame(s, E, st):
        return [('self', st.self)]

    def raises(s, E, st):
        k = st.kind
        if k in ('value_outside', 'range_outside', 'two_kwargs', 'unknown_dim', 'range_len3'):
            return [('ValueError', True)]
        if k == 'str_value':
            return [('TypeError', True)]
        return []

    def post(s, E, st, result):
        m, ax, k = st.self, st.axis, st.kind
        if not isinstance(result, Obj) or result.cls != 'Mesh' or result is m:
            return [('result is a new Mesh', False)]
        pmin, pmax, n = mesh_geometry(m)
        reg = m.attrs['_region'].attrs
        rreg = result.attrs['_region']
        out = [('the result has its own region object', rreg is not m.attrs['_region']),
               ('tolerance factor kept', _eq(E, rreg.attrs.get('_tolerance_factor'), reg['_tolerance_factor']))]
        rpmin, rpmax, rn = mesh_geometry(result)
        d = len(n)
        cell = m.ghost['cell']
        if k in ('centre', 'value'):
            keep = [j for j in range(d) if j != ax]
            if len(rn) != d - 1:
                return out + [('exactly the chosen axis is removed', False)]
            out.append(('dims: the chosen axis is removed, the others keep their names and order', _eq(E, rreg.attrs['_dims'], tuple(reg['_dims'][j] for j in keep))))
            out.append(('units of the remaining axes kept', _eq(E, rreg.attrs['_units'], tuple(reg['_units'][j] for j in keep))))
            for i, j in enumerate(keep):
                out.append((f'remaining axis {j}: pmin kept', R(rpmin[i]) == R(pmin[j])))
                out.append((f'remaining axis {j}: pmax kept', R(rpmax[i]) == R(pmax[j])))
                out.append((f'remaining axis {j}: cell count kept (cell-aligned with the source)', I(rn[i]) == I(n[j])))
        else:
            if len(rn) != d:
                return out + [('a range selection keeps all axes', False)]
            out.append(('dims kept', _eq(E, rreg.attrs['_dims'], reg['_dims'])))
            out.append(('units kept', _eq(E, rreg.attrs['_units'], reg['_units'])))
            for j in range(d):
                if j != ax:
                    out.append((f'other axis {j}: pmin kept', R(rpmin[j]) == R(pmin[j])))
                    out.append((f'other axis {j}: pmax kept', R(rpmax[j]) == R(pmax[j])))
                    out.append((f'other axis {j}: cell count kept', I(rn[j]) == I(n[j])))
            c = R(cell[ax])
            L, U = R(rpmin[ax]), R(rpmax[ax])
            lo, hi = R(st.lo), R(st.hi)
            lo_, hi_ = z3.If(lo <= hi, lo, hi), z3.If(lo <= hi, hi, lo)
            a = lattice_offset(E, L, pmin[ax], cell[ax])
            out.append(('cell-aligned: the lower face sits a whole number of source cells above pmin', z3.And(is_int(a), a >= 0)))
            out.append(('whole cells of the source size: pmax - pmin == n * cell', U - L == R(rn[ax]) * c))
            out.append(('inside the source region', z3.And(L >= R(pmin[ax]), U <= R(pmax[ax]))))
            top = R(pmax[ax])
            out.append(('the first kept cell is the one containing the lower bound (lower face inclusive; last cell upper-inclusive)',
                        z3.And(L <= lo_, z3.Or(lo_ < L + c, z3.And(lo_ == top, L + c == top)))))
            out.append(('the last kept cell is the one containing the upper bound',
                        z3.And(U - c <= hi_, z3.Or(hi_ < U, z3.And(hi_ == top, U == top)))))
            # the same facts against the spec function point2index (used by callers: Field.sel slices with these indices)
            k_lo = cell_index_of(E, m, ax, E.minv(st.lo, st.hi))
            k_hi = cell_index_of(E, m, ax, E.maxv(st.lo, st.hi))
            out.append(('lower face == pmin + point2index(lower bound) * cell', L == R(pmin[ax]) + z3.ToReal(k_lo) * c))
            out.append(('upper face == pmin + (point2index(upper bound) + 1) * cell', U == R(pmin[ax]) + (z3.ToReal(k_hi) + 1) * c))
            out.append(('cell count == point2index(upper) - point2index(lower) + 1', I(rn[ax]) == k_hi - k_lo + 1))
        return out

    def bind(s, E, selfobj, args, kw):
        st = State(selfobj, args, kw)
        m = selfobj
        dims = m.attrs['_region'].attrs['_dims']
        if len(args) + len(kw) != 1:
            raise Unsupported('Mesh.sel use site outside the modelled forms')
        if args:
            dim, val = args[0], None
        else:
            dim, val = list(kw.items())[0]
        if dim not in dims:
            raise Unsupported('Mesh.sel use site: unknown dimension')
        st.axis = dims.index(dim)
        if val is None:
            st.kind = 'centre'
        elif isinstance(val, (tuple, list)) and len(val) == 2:
            st.kind, (st.lo, st.hi) = 'range', val
        elif isinstance(val, (Sym, int, float)) and not isinstance(val, bool):
            st.kind, st.x = 'value', val
        else:
            raise Unsupported('Mesh.sel use site outside the modelled forms')
        return st

    def requires(s, E, st):
        # use sites: no subregions (clipping is C14's), coordinates inside the region, at least 2 dimensions for a plane
        m = st.self
        pmin, pmax, n = mesh_geometry(m)
        ax = st.axis
        out = [not m.attrs['_subregions'], st.kind == 'range' or len(n) >= 2]
        if st.kind == 'value':
            out.append(z3.And(R(st.x) >= R(pmin[ax]), R(st.x) <= R(pmax[ax])))
        if st.kind == 'range':
            out.append(z3.And(R(st.lo) >= R(pmin[ax]), R(st.lo) <= R(pmax[ax]), R(st.hi) >= R(pmin[ax]), R(st.hi) <= R(pmax[ax])))
        return out

    def fresh_result(s, E, st):
        m, ax, k = st.self, st.axis, st.kind
        pmin, pmax, n = mesh_geometry(m)
        reg = m.attrs['_region'].attrs
        d = len(n)
        if k in ('centre', 'value'):
            keep = [j for j in range(d) if j != ax]
            rreg = Obj('Region', {'_pmin': Vec([pmin[j] for j in keep], reg['_pmin'].kind), '_pmax': Vec([pmax[j] for j in keep], reg['_pmax'].kind),
                                  '_dims': tuple(reg['_dims'][j] for j in keep), '_units': tuple(reg['_units'][j] for j in keep),
                                  '_tolerance_factor': reg['_tolerance_factor']})
            res = Obj('Mesh', {'_region': rreg, '_n': Vec([n[j] for j in keep], 'int'), '_bc': '', '_subregions': {}})
            res.ghost = {'cell': [m.ghost['cell'][j] for j in keep], 'sub': {}} if hasattr(m, 'ghost') else {}
            return res
        cell = m.ghost['cell'][ax] if hasattr(m, 'ghost') else E.arith('/', E.arith('-', pmax[ax], pmin[ax]), n[ax])
        k_lo = Sym(cell_index_of(E, m, ax, E.minv(st.lo, st.hi), assume_contract=True), 'int')
        k_hi = Sym(cell_index_of(E, m, ax, E.maxv(st.lo, st.hi), assume_contract=True), 'int')
        L = E.arith('+', pmin[ax], E.arith('*', k_lo, cell))
        U = E.arith('+', pmin[ax], E.arith('*', E.arith('+', k_hi, 1), cell))
        rp, rq, rn = list(pmin), list(pmax), list(n)
        rp[ax], rq[ax], rn[ax] = E.npscalar(E.to_float(L)), E.npscalar(E.to_float(U)), E.npscalar(E.arith('+', E.arith('-', k_hi, k_lo), 1))
        rp = [E.npscalar(E.to_float(x)) for x in rp]
        rq = [E.npscalar(E.to_float(x)) for x in rq]
        rreg = Obj('Region', {'_pmin': Vec(rp), '_pmax': Vec(rq), '_dims': reg['_dims'], '_units': reg['_units'], '_tolerance_factor': reg['_tolerance_factor']})
        res = Obj('Mesh', {'_region': rreg, '_n': Vec(rn, 'int'), '_bc': '', '_subregions': {}})
        if hasattr(m, 'ghost'):
            res.ghost = {'cell': list(m.ghost['cell']), 'sub': {}}
        return res


def field_base(E, result, operands):
    """result is a new Field that owns its buffers and satisfies Inv(Field)"""
    out = [('result is a new Field', isinstance(result, Obj) and result.cls == 'Field' and all(result is not o for o in operands))]
    if not isinstance(result, Obj) or result.cls != 'Field':
        return out, False
    out += [('Inv: ' + l, c) for l, c in inv_field(E, result)]
    if isinstance(result.attrs.get('_array'), NDArr) and isinstance(result.attrs.get('_valid'), NDArr):
        out.append(("the result's values and validity are its own (no buffer shared with the source)", fieldc.owns_buffers(result, operands)))
        return out, True
    return out, False


class FieldSel(Contract):
    """field.sel('a') | field.sel(a=x) | field.sel(a=(lo, hi)): the selected mesh (Mesh.sel contract) and, cell by cell,
    the value and validity of the source cell at the same physical position"""
    name = 'Field.sel'
    qual = ('Field', 'sel')
    func = 'Field.sel'

    def configs(s, tier):
        out = []
        for d in ND[tier]:
            for ax in range(d):
                if tier == 'quick' and d == 3 and ax == 1:
                    continue
                for nv in ((3,) if (tier == 'quick' and d == 3) else (1, 3)):
                    if d >= 2:
                        out += [{'ndim': d, 'nvdim': nv, 'axis': ax, 'kind': 'centre'}, {'ndim': d, 'nvdim': nv, 'axis': ax, 'kind': 'value'}]
                    out += [{'ndim': d, 'nvdim': nv, 'axis': ax, 'kind': 'range'}]
        out += [{'ndim': 2, 'nvdim': 3, 'axis': 0, 'kind': 'value_outside'}, {'ndim': 2, 'nvdim': 3, 'axis': 1, 'kind': 'range_outside'}]
        return out

    def pre_state(s, E, cfg):
        d, ax, k, nv = cfg['ndim'], cfg['axis'], cfg['kind'], cfg['nvdim']
        m, assume = sym_mesh(E, d, prefix='fm', tf=1e-12, cellcond=True)
        vd = ['p', 'q', 'r'][:nv] if nv > 1 else None
        f, assume = sym_field(E, d, nv, mesh=m, assume=assume, unit='T', vdims=vd, mapping=(dict(zip(vd, reversed(DIMS[:d]))) if (vd and nv == d) else {}))
        pmin, pmax, n = mesh_geometry(m)
        dim = m.attrs['_region'].attrs['_dims'][ax]
        st = State(f, [], {})
        if k == 'centre':
            st.args.append(dim)
        elif k in ('value', 'value_outside'):
            x = inp(E, 'x', 'float')
            assume.append(z3.And(R(x) >= R(pmin[ax]), R(x) <= R(pmax[ax])) if k == 'value' else z3.Or(R(x) < R(pmin[ax]), R(x) > R(pmax[ax])))
            st.kw[dim] = x
            st.x = x
        else:
            lo, hi = inp(E, 'lo', 'float'), inp(E, 'hi', 'float')
            inside = z3.And(R(lo) >= R(pmin[ax]), R(lo) <= R(pmax[ax]), R(hi) >= R(pmin[ax]), R(hi) <= R(pmax[ax]))
            assume.append(inside if k == 'range' else z3.Not(inside))
            st.kw[dim] = (lo, hi)
            st.lo, st.hi = lo, hi
        st.assume, st.kind, st.axis = assume, k, ax
        return st

    def frame(s, E, st):
        return [('self', st.self)]

    def raises(s, E, st):
        return [('ValueError', True)] if st.kind.endswith('outside') else []

    def post(s, E, st, result):
        f, ax, k = st.self, st.axis, st.kind
        m = f.attrs['_mesh']
        out, ok = field_base(E, result, [f])
        if not ok:
            return out
        # the mesh of the result is what Mesh.sel returns for the same request (its contract is proved on its own)
        ms = MeshSel()
        mst = State(m, list(st.args), dict(st.kw))
        mst.kind, mst.axis = k, ax
        for a in ('x', 'lo', 'hi'):
            if hasattr(st, a):
                setattr(mst, a, getattr(st, a))
        rm = result.attrs['_mesh']
        out += [('mesh: ' + l, c) for l, c in ms.post(E, mst, rm)]
        nv = f.attrs['_nvdim']
        out.append(('number of components kept', result.attrs['_nvdim'] == nv))
        out += same_meta(E, result, f, unit=True)
        pmin, pmax, n = mesh_geometry(m)
        cell = m.ghost['cell']
        rn = [E.pyscalar(x) for x in rm.attrs['_n'].elems]
        ridx = E.skolem(rn, 'j')
        c = E.skolem([nv], 'c')[0]
        if k in ('centre', 'value'):
            kk = Sym(cell_index_of(E, m, ax, st.x if k == 'value' else None, centre=(k == 'centre')), 'int')
            src = list(ridx[:ax]) + [kk] + list(ridx[ax:])
            out.append(('the removed axis is cut at the cell containing the requested coordinate (the central cell if none is given)',
                        z3.And(I(kk) >= 0, I(kk) < I(n[ax]))))
        else:
            k_lo = Sym(cell_index_of(E, m, ax, E.minv(st.lo, st.hi)), 'int')
            src = list(ridx)
            src[ax] = E.arith('+', k_lo, ridx[ax])
            # same physical position: centre of result cell j == centre of the source cell it is taken from
            rp = rm.attrs['_region'].attrs['_pmin'].elems
            out.append(('result cell j and the source cell it is taken from have the same centre',
                        R(rp[ax]) + (R(ridx[ax]) + HALF) * R(cell[ax]) == R(pmin[ax]) + (R(src[ax]) + HALF) * R(cell[ax])))
        out.append(('array[j, c] == source.array[cell at the same position, c]', R(result.attrs['_array'].at(E, list(ridx) + [c])) == R(f.attrs['_array'].at(E, list(src) + [c]))))
        out.append(('valid[j] == source.valid[cell at the same position]', B(result.attrs['_valid'].at(E, list(ridx))) == B(f.attrs['_valid'].at(E, list(src)))))
        return out


CONTRACTS = [MeshSel(), FieldSel()]
_BY_NAME = {c.name: c for c in CONTRACTS}
setup_engine = c03.setup_engine


def contract(name):
    return _BY_NAME[name]


def contracts_for_use():
    # Mesh.sel is used through its contract by Field.sel (and proved from its body as the first contract of this module)
    return [RegionInit(), MeshInit(), Point2Index(), FieldInit(), MeshSel()]


INLINED = ['Mesh._sel_convert_input (inlined into Mesh.sel / Field.sel)', 'Mesh.index2point (inlined: centre = pmin + (i+1/2)*cell cancels syntactically)',
           'Region._dim2index, Region.center/edges/pmin/pmax, Mesh.cell/n', 'util.assemble_index']
TRUSTED = ['contracts of Region.__init__, Mesh.__init__ (cell path), Mesh.point2index (discharged under C01)']
ASSUMPTIONS = ['tolerance_factor fixed to the default 1e-12; the comparison tolerance is at most 1/1000 of a cell',
               'meshes without subregions in Mesh.sel (clipping of subregions: C14 / bounded tier)']
MUTANTS = {
    'sel_probe_point_keeps_int_dtype': {'expect': 'first kept cell', 'module': 'mesh', 'contract': 'Mesh.sel', 'config': {'ndim': 1, 'axis': 0, 'kind': 'range', 'corners': 'int'},
                                        'old': """                    test_point = self.region.pmin.copy().astype(
                        max(self.region.pmin.dtype, type(point))
                    )""", 'new': """                    test_point = self.region.pmin.copy()"""},
    'range_upper_exclusive': {'module': 'mesh', 'contract': 'Mesh.sel', 'config': {'ndim': 2, 'axis': 0, 'kind': 'range'},
                              'old': 'max_val = selection[1] + step', 'new': 'max_val = selection[1] - step'},
    'field_sel_values_altered': {'module': 'field', 'contract': 'Field.sel', 'config': {'ndim': 2, 'nvdim': 3, 'axis': 0, 'kind': 'range'}, 'expect': 'array[j, c]',
                                 'old': '        array = self.array[slices]\n\n        valid = self.valid[slices[:-1]]', 'new': '        array = np.abs(self.array[slices])\n\n        valid = self.valid[slices[:-1]]'},
    'field_sel_valid_unsliced_axis': {'module': 'field', 'contract': 'Field.sel', 'config': {'ndim': 2, 'nvdim': 3, 'axis': 1, 'kind': 'value'}, 'expect': 'valid[j]',
                                      'old': '        valid = self.valid[slices[:-1]]\n\n        try:\n            mesh = self.mesh.sel(*args, **kwargs)',
                                      'new': '        valid = self.valid[slices[:-1]]\n        valid = np.ones_like(valid)\n\n        try:\n            mesh = self.mesh.sel(*args, **kwargs)'},
    'plane_keeps_wrong_axis': {'module': 'mesh', 'contract': 'Mesh.sel', 'config': {'ndim': 3, 'axis': 0, 'kind': 'centre'},
                               'old': 'idxs = [i for i in range(self.region.ndim) if i != dim_index]', 'new': 'idxs = [i for i in range(self.region.ndim) if i != self.region.ndim - 1 - dim_index]'},
}
