"""C07 - sub-selection, extraction, padding keep every value at its physical position (deductive part).

Under contract: Mesh.sel (plane through the centre / through a coordinate, range), Field.sel, Mesh.__getitem__(region),
Field.__getitem__, Mesh.region2slices, Mesh.pad, Field.pad.  resample and the double-rounding at cell faces are
covered by the bounded tier only."""
import z3
from . import fieldc, c03
from .fieldc import FieldInit, sym_field, cell_index, inv_field, same_meta, field_result_base
from .shared import RegionInit, MeshInit, Point2Index, Index2Point, cdiv, contains_point
from pyvc.core import *
from pyvc.contracts import Contract, State, conj, disj
from pyvc.states import inp, sym_mesh, sym_region, _eq, snapshot, same_value, DIMS, UNITS
from pyvc.ndarr import NDArr

ND = {'quick': (1, 2, 3), 'thorough': (1, 2, 3, 4)}
HALF = z3.RealVal('1/2')


def lattice_offset(E, L, pmin, c):
    """(L - pmin)/c as a term (syntactic cancellation where possible, conservative quotient otherwise)"""
    return cdiv(E, toreal(R(L) - R(pmin)), toreal(R(c)))


def is_int(t):
    return z3.ToReal(z3.ToInt(t)) == t


def mesh_geometry(m):
    reg = m.attrs['_region'].attrs
    return reg['_pmin'].elems, reg['_pmax'].elems, m.attrs['_n'].elems


class MeshSel(Contract):
    """mesh.sel('a') | mesh.sel(a=x) | mesh.sel(a=(lo, hi))   on a mesh without subregions (subregion clipping: C14)"""
    name = 'Mesh.sel'
    qual = ('Mesh', 'sel')
    func = 'Mesh.sel'

    def configs(s, tier):
        out = []
        for d in ND[tier]:
            for ax in range(d):
                if tier == 'quick' and d == 3 and ax == 1:
                    continue
                if d >= 2:
                    out += [{'ndim': d, 'axis': ax, 'kind': 'centre'}, {'ndim': d, 'axis': ax, 'kind': 'value'}]
                out += [{'ndim': d, 'axis': ax, 'kind': 'range'}]
        # integer-typed corner arrays (dtype-sensitive: the requested coordinate must not be truncated into the corner dtype)
        out += [{'ndim': 2, 'axis': 0, 'kind': 'value', 'corners': 'int'}, {'ndim': 2, 'axis': 1, 'kind': 'range', 'corners': 'int'},
                {'ndim': 1, 'axis': 0, 'kind': 'range', 'corners': 'int'}]
        out += [{'ndim': 2, 'axis': 0, 'kind': 'value_outside'}, {'ndim': 2, 'axis': 1, 'kind': 'range_outside'}, {'ndim': 2, 'axis': 0, 'kind': 'two_kwargs'},
                {'ndim': 2, 'axis': 0, 'kind': 'unknown_dim'}, {'ndim': 2, 'axis': 0, 'kind': 'range_len3'}, {'ndim': 2, 'axis': 0, 'kind': 'str_value'}]
        return out

    def pre_state(s, E, cfg):
        d, ax, k = cfg['ndim'], cfg['axis'], cfg['kind']
        m, assume = sym_mesh(E, d, tf=1e-12, cellcond=True, corners=cfg.get('corners', 'float'))
        pmin, pmax, n = mesh_geometry(m)
        dim = m.attrs['_region'].attrs['_dims'][ax]
        st = State(m, [], {})
        args, kw = st.args, st.kw
        if k == 'centre':
            args.append(dim)
        elif k in ('value', 'value_outside'):
            x = inp(E, 'x', 'float')
            if k == 'value':
                assume += [R(x) >= R(pmin[ax]), R(x) <= R(pmax[ax])]
            else:
                assume += [z3.Or(R(x) < R(pmin[ax]), R(x) > R(pmax[ax]))]
            kw[dim] = x
            st.x = x
        elif k in ('range', 'range_outside'):
            lo, hi = inp(E, 'lo', 'float'), inp(E, 'hi', 'float')      # either order
            inside = z3.And(R(lo) >= R(pmin[ax]), R(lo) <= R(pmax[ax]), R(hi) >= R(pmin[ax]), R(hi) <= R(pmax[ax]))
            assume.append(inside if k == 'range' else z3.Not(inside))
            kw[dim] = (lo, hi)
            st.lo, st.hi = lo, hi
        elif k == 'two_kwargs':
            kw[dim] = inp(E, 'x', 'float')
            kw[m.attrs['_region'].attrs['_dims'][1]] = inp(E, 'y', 'float')
        elif k == 'unknown_dim':
            args.append('nodim')
        elif k == 'range_len3':
            kw[dim] = (inp(E, 'lo', 'float'), inp(E, 'hi', 'float'), inp(E, 'z', 'float'))
        elif k == 'str_value':
            kw[dim] = 'abc'
        st.assume, st.kind, st.axis = assume, k, ax
        return st

    def frame(s, E, st):
        return [('self', st.self)]

    def raises(s, E, st):
        k = st.kind
        if k in ('value_outside', 'range_outside', 'two_kwargs', 'unknown_dim', 'range_len3'):
            return [('ValueError', True)]
        if k == 'str_value':
            return [('TypeError', True)]
        return []

    def post(s, E, st, result):
        m, ax, k = st.self, st.axis, st.kind
        if not isinstance(result, Obj) or result.cls != 'Mesh' or result is m:
            return [('result is a new Mesh', False)]
        pmin, pmax, n = mesh_geometry(m)
        reg = m.attrs['_region'].attrs
        rreg = result.attrs['_region']
        out = [('the result has its own region object', rreg is not m.attrs['_region']),
               ('tolerance factor kept', _eq(E, rreg.attrs.get('_tolerance_factor'), reg['_tolerance_factor']))]
        rpmin, rpmax, rn = mesh_geometry(result)
        d = len(n)
        cell = m.ghost['cell']
        if k in ('centre', 'value'):
            keep = [j for j in range(d) if j != ax]
            if len(rn) != d - 1:
                return out + [('exactly the chosen axis is removed', False)]
            out.append(('dims: the chosen axis is removed, the others keep their names and order', _eq(E, rreg.attrs['_dims'], tuple(reg['_dims'][j] for j in keep))))
            out.append(('units of the remaining axes kept', _eq(E, rreg.attrs['_units'], tuple(reg['_units'][j] for j in keep))))
            for i, j in enumerate(keep):
                out.append((f'remaining axis {j}: pmin kept', R(rpmin[i]) == R(pmin[j])))
                out.append((f'remaining axis {j}: pmax kept', R(rpmax[i]) == R(pmax[j])))
                out.append((f'remaining axis {j}: cell count kept (cell-aligned with the source)', I(rn[i]) == I(n[j])))
        else:
            if len(rn) != d:
                return out + [('a range selection keeps all axes', False)]
            out.append(('dims kept', _eq(E, rreg.attrs['_dims'], reg['_dims'])))
            out.append(('units kept', _eq(E, rreg.attrs['_units'], reg['_units'])))
            for j in range(d):
                if j != ax:
                    out.append((f'other axis {j}: pmin kept', R(rpmin[j]) == R(pmin[j])))
                    out.append((f'other axis {j}: pmax kept', R(rpmax[j]) == R(pmax[j])))
                    out.append((f'other axis {j}: cell count kept', I(rn[j]) == I(n[j])))
            c = R(cell[ax])
            L, U = R(rpmin[ax]), R(rpmax[ax])
            lo, hi = R(st.lo), R(st.hi)
            lo_, hi_ = z3.If(lo <= hi, lo, hi), z3.If(lo <= hi, hi, lo)
            a = lattice_offset(E, L, pmin[ax], cell[ax])
            out.append(('cell-aligned: the lower face sits a whole number of source cells above pmin', z3.And(is_int(a), a >= 0)))
            out.append(('whole cells of the source size: pmax - pmin == n * cell', U - L == R(rn[ax]) * c))
            out.append(('inside the source region', z3.And(L >= R(pmin[ax]), U <= R(pmax[ax]))))
            top = R(pmax[ax])
            out.append(('the first kept cell is the one containing the lower bound (lower face inclusive; last cell upper-inclusive)',
                        z3.And(L <= lo_, z3.Or(lo_ < L + c, z3.And(lo_ == top, L + c == top)))))
            out.append(('the last kept cell is the one containing the upper bound',
                        z3.And(U - c <= hi_, z3.Or(hi_ < U, z3.And(hi_ == top, U == top)))))
        return out

    def fresh_result(s, E, st):
        raise Unsupported('Mesh.sel modular use: see MeshSelUse')


CONTRACTS = [MeshSel()]
_BY_NAME = {c.name: c for c in CONTRACTS}
setup_engine = c03.setup_engine


def contract(name):
    return _BY_NAME[name]


def contracts_for_use():
    return [RegionInit(), MeshInit(), Point2Index(), FieldInit()]


INLINED = ['Mesh._sel_convert_input (inlined into Mesh.sel / Field.sel)', 'Mesh.index2point (inlined: centre = pmin + (i+1/2)*cell cancels syntactically)',
           'Region._dim2index, Region.center/edges/pmin/pmax, Mesh.cell/n', 'util.assemble_index']
TRUSTED = ['contracts of Region.__init__, Mesh.__init__ (cell path), Mesh.point2index (discharged under C01)']
ASSUMPTIONS = ['tolerance_factor fixed to the default 1e-12; the comparison tolerance is at most 1/1000 of a cell',
               'meshes without subregions in Mesh.sel (clipping of subregions: C14 / bounded tier)']
MUTANTS = {
    'sel_probe_point_keeps_int_dtype': {'expect': 'first kept cell', 'module': 'mesh', 'contract': 'Mesh.sel', 'config': {'ndim': 1, 'axis': 0, 'kind': 'range', 'corners': 'int'},
                                        'old': """                    test_point = self.region.pmin.copy().astype(
                        max(self.region.pmin.dtype, type(point))
                    )""", 'new': """                    test_point = self.region.pmin.copy()"""},
    'range_upper_exclusive': {'module': 'mesh', 'contract': 'Mesh.sel', 'config': {'ndim': 2, 'axis': 0, 'kind': 'range'},
                              'old': 'max_val = selection[1] + step', 'new': 'max_val = selection[1] - step'},
    'plane_keeps_wrong_axis': {'module': 'mesh', 'contract': 'Mesh.sel', 'config': {'ndim': 3, 'axis': 0, 'kind': 'centre'},
                               'old': 'idxs = [i for i in range(self.region.ndim) if i != dim_index]', 'new': 'idxs = [i for i in range(self.region.ndim) if i != self.region.ndim - 1 - dim_index]'},
}
