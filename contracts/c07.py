"""C07 - sub-selection, extraction, padding keep every value at its physical position (deductive part).

Under contract: Mesh.sel (plane through the centre / through a coordinate, range), Field.sel, Mesh.__getitem__(region),
Field.__getitem__, Mesh.region2slices, Mesh.pad, Field.pad.  resample and the double-rounding at cell faces are
covered by the bounded tier only."""
import z3
from . import fieldc, c03
from .fieldc import FieldInit, sym_field, cell_index, inv_field, same_meta, field_result_base
from .shared import RegionInit, MeshInit, Point2Index, Index2Point, cdiv, contains_point, cell_of
from pyvc.core import *
from pyvc.contracts import Contract, State, conj, disj
from pyvc.states import inp, sym_mesh, sym_region, _eq, snapshot, same_value, DIMS, UNITS
from pyvc.ndarr import NDArr

ND = {'quick': (1, 2, 3), 'thorough': (1, 2, 3, 4)}
HALF = z3.RealVal('1/2')


def lattice_offset(E, L, pmin, c):
    """(L - pmin)/c as a term (syntactic cancellation where possible, conservative quotient otherwise)"""
    return cdiv(E, toreal(R(L) - R(pmin)), toreal(R(c)))


def is_int(t):
    return z3.ToReal(z3.ToInt(t)) == t


def probe_point(E, m, ax, x):
    """the point whose cell is looked up for a coordinate x on axis ax: the lower corner with x on that axis"""
    pmin = m.attrs['_region'].attrs['_pmin'].elems
    return [x if j == ax else pmin[j] for j in range(len(pmin))]


def cell_index_of(E, m, ax, x, assume_contract=False, centre=False):
    """spec function: index along ax of the cell containing coordinate x = Mesh.point2index(probe point)[ax]
    (centre: the cell containing the region centre).
    assume_contract: additionally assume the (separately proved) post-condition of point2index for this application"""
    if centre:
        reg = m.attrs['_region'].attrs
        p = [E.arith('/', E.arith('+', a, b), 2) for a, b in zip(reg['_pmin'].elems, reg['_pmax'].elems)]
    else:
        p = probe_point(E, m, ax, x)
    ks = cell_of(E, m, p)
    if assume_contract:
        c = Point2Index()
        st = c.bind(E, m, [tuple(p)], {})
        for label, phi in c.post(E, st, tuple(Sym(t, 'int') for t in ks)):
            if not isinstance(phi, bool):
                E.assume(phi)
    return ks[ax]


def mesh_geometry(m):
    reg = m.attrs['_region'].attrs
    return reg['_pmin'].elems, reg['_pmax'].elems, m.attrs['_n'].elems


class MeshSel(Contract):
    """mesh.sel('a') | mesh.sel(a=x) | mesh.sel(a=(lo, hi))   on a mesh without subregions (subregion clipping: C14)"""
    name = 'Mesh.sel'
    qual = ('Mesh', 'sel')
    func = 'Mesh.sel'

    def configs(s, tier):
        out = []
        for d in ND[tier]:
            for ax in range(d):
                if tier == 'quick' and d == 3 and ax == 1:
                    continue
                if d >= 2:
                    out += [{'ndim': d, 'axis': ax, 'kind': 'centre'}, {'ndim': d, 'axis': ax, 'kind': 'value'}]
                out += [{'ndim': d, 'axis': ax, 'kind': 'range'}]
        # integer-typed corner arrays (dtype-sensitive: the requested coordinate must not be truncated into the corner dtype)
        out += [{'ndim': 2, 'axis': 0, 'kind': 'value', 'corners': 'int'}, {'ndim': 2, 'axis': 1, 'kind': 'range', 'corners': 'int'},
                {'ndim': 1, 'axis': 0, 'kind': 'range', 'corners': 'int'}]
        out += [{'ndim': 2, 'axis': 0, 'kind': 'value_outside'}, {'ndim': 2, 'axis': 1, 'kind': 'range_outside'}, {'ndim': 2, 'axis': 0, 'kind': 'two_kwargs'},
                {'ndim': 2, 'axis': 0, 'kind': 'unknown_dim'}, {'ndim': 2, 'axis': 0, 'kind': 'range_len3'}, {'ndim': 2, 'axis': 0, 'kind': 'str_value'}]
        return out

    def pre_state(s, E, cfg):
        d, ax, k = cfg['ndim'], cfg['axis'], cfg['kind']
        m, assume = sym_mesh(E, d, tf=1e-12, cellcond=True, corners=cfg.get('corners', 'float'))
        pmin, pmax, n = mesh_geometry(m)
        dim = m.attrs['_region'].attrs['_dims'][ax]
        st = State(m, [], {})
        args, kw = st.args, st.kw
        if k == 'centre':
            args.append(dim)
        elif k in ('value', 'value_outside'):
            x = inp(E, 'x', 'float')
            if k == 'value':
                assume += [R(x) >= R(pmin[ax]), R(x) <= R(pmax[ax])]
            else:
                assume += [z3.Or(R(x) < R(pmin[ax]), R(x) > R(pmax[ax]))]
            kw[dim] = x
            st.x = x
        elif k in ('range', 'range_outside'):
            lo, hi = inp(E, 'lo', 'float'), inp(E, 'hi', 'float')      # either order
            inside = z3.And(R(lo) >= R(pmin[ax]), R(lo) <= R(pmax[ax]), R(hi) >= R(pmin[ax]), R(hi) <= R(pmax[ax]))
            assume.append(inside if k == 'range' else z3.Not(inside))
            kw[dim] = (lo, hi)
            st.lo, st.hi = lo, hi
        elif k == 'two_kwargs':
            kw[dim] = inp(E, 'x', 'float')
            kw[m.attrs['_region'].attrs['_dims'][1]] = inp(E, 'y', 'float')
        elif k == 'unknown_dim':
            args.append('nodim')
        elif k == 'range_len3':
            kw[dim] = (inp(E, 'lo', 'float'), inp(E, 'hi', 'float'), inp(E, 'z', 'float'))
        elif k == 'str_value':
            kw[dim] = 'abc'
        st.assume, st.kind, st.axis = assume, k, ax
        return st

    def frame(s, E, st):
        return [('self', st.self)]

    def raises(s, E, st):
        k = st.kind
        if k in ('value_outside', 'range_outside', 'two_kwargs', 'unknown_dim', 'range_len3'):
            return [('ValueError', True)]
        if k == 'str_value':
            return [('TypeError', True)]
        return []

    def post(s, E, st, result):
        m, ax, k = st.self, st.axis, st.kind
        if not isinstance(result, Obj) or result.cls != 'Mesh' or result is m:
            return [('result is a new Mesh', False)]
        pmin, pmax, n = mesh_geometry(m)
        reg = m.attrs['_region'].attrs
        rreg = result.attrs['_region']
        out = [('the result has its own region object', rreg is not m.attrs['_region']),
               ('tolerance factor kept', _eq(E, rreg.attrs.get('_tolerance_factor'), reg['_tolerance_factor']))]
        rpmin, rpmax, rn = mesh_geometry(result)
        d = len(n)
        cell = m.ghost['cell']
        if k in ('centre', 'value'):
            keep = [j for j in range(d) if j != ax]
            if len(rn) != d - 1:
                return out + [('exactly the chosen axis is removed', False)]
            out.append(('dims: the chosen axis is removed, the others keep their names and order', _eq(E, rreg.attrs['_dims'], tuple(reg['_dims'][j] for j in keep))))
            out.append(('units of the remaining axes kept', _eq(E, rreg.attrs['_units'], tuple(reg['_units'][j] for j in keep))))
            for i, j in enumerate(keep):
                out.append((f'remaining axis {j}: pmin kept', R(rpmin[i]) == R(pmin[j])))
                out.append((f'remaining axis {j}: pmax kept', R(rpmax[i]) == R(pmax[j])))
                out.append((f'remaining axis {j}: cell count kept (cell-aligned with the source)', I(rn[i]) == I(n[j])))
        else:
            if len(rn) != d:
                return out + [('a range selection keeps all axes', False)]
            out.append(('dims kept', _eq(E, rreg.attrs['_dims'], reg['_dims'])))
            out.append(('units kept', _eq(E, rreg.attrs['_units'], reg['_units'])))
            for j in range(d):
                if j != ax:
                    out.append((f'other axis {j}: pmin kept', R(rpmin[j]) == R(pmin[j])))
                    out.append((f'other axis {j}: pmax kept', R(rpmax[j]) == R(pmax[j])))
                    out.append((f'other axis {j}: cell count kept', I(rn[j]) == I(n[j])))
            c = R(cell[ax])
            L, U = R(rpmin[ax]), R(rpmax[ax])
            lo, hi = R(st.lo), R(st.hi)
            lo_, hi_ = z3.If(lo <= hi, lo, hi), z3.If(lo <= hi, hi, lo)
            a = lattice_offset(E, L, pmin[ax], cell[ax])
            out.append(('cell-aligned: the lower face sits a whole number of source cells above pmin', z3.And(is_int(a), a >= 0)))
            out.append(('whole cells of the source size: pmax - pmin == n * cell', U - L == R(rn[ax]) * c))
            out.append(('inside the source region', z3.And(L >= R(pmin[ax]), U <= R(pmax[ax]))))
            top = R(pmax[ax])
            out.append(('the first kept cell is the one containing the lower bound (lower face inclusive; last cell upper-inclusive)',
                        z3.And(L <= lo_, z3.Or(lo_ < L + c, z3.And(lo_ == top, L + c == top)))))
            out.append(('the last kept cell is the one containing the upper bound',
                        z3.And(U - c <= hi_, z3.Or(hi_ < U, z3.And(hi_ == top, U == top)))))
            # the same facts against the spec function point2index (used by callers: Field.sel slices with these indices)
            k_lo = cell_index_of(E, m, ax, E.minv(st.lo, st.hi))
            k_hi = cell_index_of(E, m, ax, E.maxv(st.lo, st.hi))
            out.append(('lower face == pmin + point2index(lower bound) * cell', L == R(pmin[ax]) + z3.ToReal(k_lo) * c))
            out.append(('upper face == pmin + (point2index(upper bound) + 1) * cell', U == R(pmin[ax]) + (z3.ToReal(k_hi) + 1) * c))
            out.append(('cell count == point2index(upper) - point2index(lower) + 1', I(rn[ax]) == k_hi - k_lo + 1))
        return out

    def bind(s, E, selfobj, args, kw):
        st = State(selfobj, args, kw)
        m = selfobj
        dims = m.attrs['_region'].attrs['_dims']
        if len(args) + len(kw) != 1:
            raise Unsupported('Mesh.sel use site outside the modelled forms')
        if args:
            dim, val = args[0], None
        else:
            dim, val = list(kw.items())[0]
        if dim not in dims:
            raise Unsupported('Mesh.sel use site: unknown dimension')
        st.axis = dims.index(dim)
        if val is None:
            st.kind = 'centre'
        elif isinstance(val, (tuple, list)) and len(val) == 2:
            st.kind, (st.lo, st.hi) = 'range', val
        elif isinstance(val, (Sym, int, float)) and not isinstance(val, bool):
            st.kind, st.x = 'value', val
        else:
            raise Unsupported('Mesh.sel use site outside the modelled forms')
        return st

    def requires(s, E, st):
        # use sites: no subregions (clipping is C14's), coordinates inside the region, at least 2 dimensions for a plane
        m = st.self
        pmin, pmax, n = mesh_geometry(m)
        ax = st.axis
        out = [not m.attrs['_subregions'], st.kind == 'range' or len(n) >= 2]
        if st.kind == 'value':
            out.append(z3.And(R(st.x) >= R(pmin[ax]), R(st.x) <= R(pmax[ax])))
        if st.kind == 'range':
            out.append(z3.And(R(st.lo) >= R(pmin[ax]), R(st.lo) <= R(pmax[ax]), R(st.hi) >= R(pmin[ax]), R(st.hi) <= R(pmax[ax])))
        return out

    def fresh_result(s, E, st):
        m, ax, k = st.self, st.axis, st.kind
        pmin, pmax, n = mesh_geometry(m)
        reg = m.attrs['_region'].attrs
        d = len(n)
        if k in ('centre', 'value'):
            keep = [j for j in range(d) if j != ax]
            rreg = Obj('Region', {'_pmin': Vec([pmin[j] for j in keep], reg['_pmin'].kind), '_pmax': Vec([pmax[j] for j in keep], reg['_pmax'].kind),
                                  '_dims': tuple(reg['_dims'][j] for j in keep), '_units': tuple(reg['_units'][j] for j in keep),
                                  '_tolerance_factor': reg['_tolerance_factor']})
            res = Obj('Mesh', {'_region': rreg, '_n': Vec([n[j] for j in keep], 'int'), '_bc': '', '_subregions': {}})
            res.ghost = {'cell': [m.ghost['cell'][j] for j in keep], 'sub': {}} if hasattr(m, 'ghost') else {}
            return res
        cell = m.ghost['cell'][ax] if hasattr(m, 'ghost') else E.arith('/', E.arith('-', pmax[ax], pmin[ax]), n[ax])
        k_lo = Sym(cell_index_of(E, m, ax, E.minv(st.lo, st.hi), assume_contract=True), 'int')
        k_hi = Sym(cell_index_of(E, m, ax, E.maxv(st.lo, st.hi), assume_contract=True), 'int')
        L = E.arith('+', pmin[ax], E.arith('*', k_lo, cell))
        U = E.arith('+', pmin[ax], E.arith('*', E.arith('+', k_hi, 1), cell))
        rp, rq, rn = list(pmin), list(pmax), list(n)
        rp[ax], rq[ax], rn[ax] = E.npscalar(E.to_float(L)), E.npscalar(E.to_float(U)), E.npscalar(E.arith('+', E.arith('-', k_hi, k_lo), 1))
        rp = [E.npscalar(E.to_float(x)) for x in rp]
        rq = [E.npscalar(E.to_float(x)) for x in rq]
        rreg = Obj('Region', {'_pmin': Vec(rp), '_pmax': Vec(rq), '_dims': reg['_dims'], '_units': reg['_units'], '_tolerance_factor': reg['_tolerance_factor']})
        res = Obj('Mesh', {'_region': rreg, '_n': Vec(rn, 'int'), '_bc': '', '_subregions': {}})
        if hasattr(m, 'ghost'):
            res.ghost = {'cell': list(m.ghost['cell']), 'sub': {}}
        return res


def field_base(E, result, operands):
    """result is a new Field that owns its buffers and satisfies Inv(Field)"""
    out = [('result is a new Field', isinstance(result, Obj) and result.cls == 'Field' and all(result is not o for o in operands))]
    if not isinstance(result, Obj) or result.cls != 'Field':
        return out, False
    out += [('Inv: ' + l, c) for l, c in inv_field(E, result)]
    if isinstance(result.attrs.get('_array'), NDArr) and isinstance(result.attrs.get('_valid'), NDArr):
        out.append(("the result's values and validity are its own (no buffer shared with the source)", fieldc.owns_buffers(result, operands)))
        return out, True
    return out, False


class FieldSel(Contract):
    """field.sel('a') | field.sel(a=x) | field.sel(a=(lo, hi)): the selected mesh (Mesh.sel contract) and, cell by cell,
    the value and validity of the source cell at the same physical position"""
    name = 'Field.sel'
    qual = ('Field', 'sel')
    func = 'Field.sel'

    def configs(s, tier):
        out = []
        for d in ND[tier]:
            for ax in range(d):
                if tier == 'quick' and d == 3 and ax == 1:
                    continue
                for nv in ((3,) if (tier == 'quick' and d == 3) else (1, 3)):
                    if d >= 2:
                        out += [{'ndim': d, 'nvdim': nv, 'axis': ax, 'kind': 'centre'}, {'ndim': d, 'nvdim': nv, 'axis': ax, 'kind': 'value'}]
                    out += [{'ndim': d, 'nvdim': nv, 'axis': ax, 'kind': 'range'}]
        out += [{'ndim': 2, 'nvdim': 3, 'axis': 0, 'kind': 'value_outside'}, {'ndim': 2, 'nvdim': 3, 'axis': 1, 'kind': 'range_outside'}]
        return out

    def pre_state(s, E, cfg):
        d, ax, k, nv = cfg['ndim'], cfg['axis'], cfg['kind'], cfg['nvdim']
        m, assume = sym_mesh(E, d, prefix='fm', tf=1e-12, cellcond=True)
        vd = ['p', 'q', 'r'][:nv] if nv > 1 else None
        f, assume = sym_field(E, d, nv, mesh=m, assume=assume, unit='T', vdims=vd, mapping=(dict(zip(vd, reversed(DIMS[:d]))) if (vd and nv == d) else {}))
        pmin, pmax, n = mesh_geometry(m)
        dim = m.attrs['_region'].attrs['_dims'][ax]
        st = State(f, [], {})
        if k == 'centre':
            st.args.append(dim)
        elif k in ('value', 'value_outside'):
            x = inp(E, 'x', 'float')
            assume.append(z3.And(R(x) >= R(pmin[ax]), R(x) <= R(pmax[ax])) if k == 'value' else z3.Or(R(x) < R(pmin[ax]), R(x) > R(pmax[ax])))
            st.kw[dim] = x
            st.x = x
        else:
            lo, hi = inp(E, 'lo', 'float'), inp(E, 'hi', 'float')
            inside = z3.And(R(lo) >= R(pmin[ax]), R(lo) <= R(pmax[ax]), R(hi) >= R(pmin[ax]), R(hi) <= R(pmax[ax]))
            assume.append(inside if k == 'range' else z3.Not(inside))
            st.kw[dim] = (lo, hi)
            st.lo, st.hi = lo, hi
        st.assume, st.kind, st.axis = assume, k, ax
        return st

    def frame(s, E, st):
        return [('self', st.self)]

    def raises(s, E, st):
        return [('ValueError', True)] if st.kind.endswith('outside') else []

    def post(s, E, st, result):
        f, ax, k = st.self, st.axis, st.kind
        m = f.attrs['_mesh']
        out, ok = field_base(E, result, [f])
        if not ok:
            return out
        # the mesh of the result is what Mesh.sel returns for the same request (its contract is proved on its own)
        ms = MeshSel()
        mst = State(m, list(st.args), dict(st.kw))
        mst.kind, mst.axis = k, ax
        for a in ('x', 'lo', 'hi'):
            if hasattr(st, a):
                setattr(mst, a, getattr(st, a))
        rm = result.attrs['_mesh']
        out += [('mesh: ' + l, c) for l, c in ms.post(E, mst, rm)]
        nv = f.attrs['_nvdim']
        out.append(('number of components kept', result.attrs['_nvdim'] == nv))
        out += same_meta(E, result, f, unit=True)
        pmin, pmax, n = mesh_geometry(m)
        cell = m.ghost['cell']
        rn = [E.pyscalar(x) for x in rm.attrs['_n'].elems]
        ridx = E.skolem(rn, 'j')
        c = E.skolem([nv], 'c')[0]
        if k in ('centre', 'value'):
            kk = Sym(cell_index_of(E, m, ax, st.x if k == 'value' else None, centre=(k == 'centre')), 'int')
            src = list(ridx[:ax]) + [kk] + list(ridx[ax:])
            out.append(('the removed axis is cut at the cell containing the requested coordinate (the central cell if none is given)',
                        z3.And(I(kk) >= 0, I(kk) < I(n[ax]))))
        else:
            k_lo = Sym(cell_index_of(E, m, ax, E.minv(st.lo, st.hi)), 'int')
            src = list(ridx)
            src[ax] = E.arith('+', k_lo, ridx[ax])
            # same physical position: centre of result cell j == centre of the source cell it is taken from
            rp = rm.attrs['_region'].attrs['_pmin'].elems
            out.append(('result cell j and the source cell it is taken from have the same centre',
                        R(rp[ax]) + (R(ridx[ax]) + HALF) * R(cell[ax]) == R(pmin[ax]) + (R(src[ax]) + HALF) * R(cell[ax])))
        out.append(('array[j, c] == source.array[cell at the same position, c]', R(result.attrs['_array'].at(E, list(ridx) + [c])) == R(f.attrs['_array'].at(E, list(src) + [c]))))
        out.append(('valid[j] == source.valid[cell at the same position]', B(result.attrs['_valid'].at(E, list(ridx))) == B(f.attrs['_valid'].at(E, list(src)))))
        return out


def sub_box(E, m, name, assume, aligned=True):
    """a region inside mesh m: aligned=True -> whole cells a_j..b_j (integers); False -> arbitrary real corners inside"""
    pmin, pmax, n = mesh_geometry(m)
    cell = m.ghost['cell']
    reg = m.attrs['_region'].attrs
    d = len(n)
    if aligned:
        a = [inp(E, f'{name}_a{j}', 'int') for j in range(d)]
        b = [inp(E, f'{name}_b{j}', 'int') for j in range(d)]
        for aj, bj, k in zip(a, b, n):
            assume += [I(aj) >= 0, I(aj) < I(bj), I(bj) <= I(k)]
        lo = [E.arith('+', p, E.arith('*', aj, c)) for p, aj, c in zip(pmin, a, cell)]
        hi = [E.arith('+', p, E.arith('*', bj, c)) for p, bj, c in zip(pmin, b, cell)]
        ghost = (a, b)
    else:
        lo = [inp(E, f'{name}_lo{j}', 'float') for j in range(d)]
        hi = [inp(E, f'{name}_hi{j}', 'float') for j in range(d)]
        for l, h, p, q_ in zip(lo, hi, pmin, pmax):
            assume += [R(l) >= R(p), R(l) < R(h), R(h) <= R(q_)]
        ghost = None
    box = Obj('Region', {'_pmin': Vec([E.npscalar(x) for x in lo]), '_pmax': Vec([E.npscalar(x) for x in hi]),
                         '_dims': reg['_dims'], '_units': reg['_units'], '_tolerance_factor': 1e-12})
    return box, ghost


class Region2Slices(Contract):
    """mesh.region2slices(region) for a region made of whole cells a_j..b_j: exactly slice(a_j, b_j) per axis"""
    name = 'Mesh.region2slices'
    qual = ('Mesh', 'region2slices')
    func = 'Mesh.region2slices'

    def configs(s, tier):
        return [{'ndim': d} for d in ND[tier]]

    def pre_state(s, E, cfg):
        m, assume = sym_mesh(E, cfg['ndim'], tf=1e-12, cellcond=True)
        box, ghost = sub_box(E, m, 'r', assume)
        st = State(m, [box], {})
        st.assume, st.ghost = assume, ghost
        return st

    def bind(s, E, selfobj, args, kw):
        """use sites: the lattice coordinates of the region are read off syntactically ((corner - pmin)/cell must cancel to
        an integer term), otherwise the contract is not applicable there"""
        from pyvc.core import cancel, int_of
        st = State(selfobj, args, kw)
        pmin, pmax, n = mesh_geometry(selfobj)
        cell = selfobj.ghost['cell'] if hasattr(selfobj, 'ghost') and selfobj.ghost.get('cell') else None
        box = args[0].attrs
        a, b = [], []
        for j in range(len(n)):
            c = R(cell[j]) if cell else None
            if c is None:
                raise Unsupported('Mesh.region2slices use site: cell size of the mesh not known syntactically')
            def quot(num):
                num = z3.simplify(toreal(num), som=True)
                if z3.is_rational_value(num) and num.as_fraction() == 0:
                    return z3.RealVal(0)
                return cancel(num, toreal(c))
            qa = quot(R(box['_pmin'].elems[j]) - R(pmin[j]))
            qb = quot(R(box['_pmax'].elems[j]) - R(pmin[j]))
            ia = int_of(z3.simplify(qa)) if qa is not None else None
            ib = int_of(z3.simplify(qb)) if qb is not None else None
            if ia is None or ib is None:
                raise Unsupported('Mesh.region2slices use site: region not syntactically on the cell lattice')
            a.append(Sym(z3.simplify(ia), 'int'))
            b.append(Sym(z3.simplify(ib), 'int'))
        st.ghost = (a, b)
        return st

    def requires(s, E, st):
        a, b = st.ghost
        n = st.self.attrs['_n'].elems
        return [z3.And(I(x) >= 0, I(x) < I(y), I(y) <= I(k)) for x, y, k in zip(a, b, n)]

    def fresh_result(s, E, st):
        a, b = st.ghost
        return tuple(slice(E.pyscalar(x), E.pyscalar(y)) for x, y in zip(a, b))

    def frame(s, E, st):
        return [('self', st.self), ('region', st.args[0])]

    def post(s, E, st, result):
        a, b = st.ghost
        if not isinstance(result, tuple) or len(result) != len(a) or not all(isinstance(x, slice) for x in result):
            return [('one slice per axis', False)]
        out = []
        for j, sl in enumerate(result):
            out.append((f'axis {j}: slice starts at the first cell of the region', I(sl.start) == I(a[j])))
            out.append((f'axis {j}: slice stops after the last cell of the region', I(sl.stop) == I(b[j])))
            out.append((f'axis {j}: unit step', sl.step is None or sl.step == 1))
        return out


class MeshGetitemRegion(Contract):
    """mesh[region]: the smallest block of whole cells of the mesh that contains the region"""
    name = 'Mesh.__getitem__[region]'
    qual = ('Mesh', '__getitem__')
    func = 'Mesh.__getitem__'

    def configs(s, tier):
        out = [{'ndim': d, 'box': 'any'} for d in ND[tier]] + [{'ndim': d, 'box': 'aligned'} for d in ND[tier]]
        return out + [{'ndim': 2, 'box': 'outside'}]

    def pre_state(s, E, cfg):
        m, assume = sym_mesh(E, cfg['ndim'], tf=1e-12, cellcond=True)
        if cfg['box'] == 'outside':
            box, ghost = sub_box(E, m, 'r', assume, aligned=False)
            # sticks out above pmax on axis 0 by at least 1% of a cell
            x = inp(E, 'r_x', 'float')
            assume.append(R(x) >= R(m.ghost['cell'][0]) / 100)
            box.attrs['_pmax'].elems[0] = E.npscalar(E.arith('+', m.attrs['_region'].attrs['_pmax'].elems[0], x))
        else:
            box, ghost = sub_box(E, m, 'r', assume, aligned=(cfg['box'] == 'aligned'))
        st = State(m, [box], {})
        st.assume, st.ghost, st.kind = assume, ghost, cfg['box']
        return st

    def bind(s, E, selfobj, args, kw):
        st = State(selfobj, args, kw)
        if not (isinstance(args[0], Obj) and args[0].cls == 'Region'):
            raise Unsupported('Mesh.__getitem__ use site with a name: C14 contract')
        st.kind, st.ghost = 'any', None
        return st

    def requires(s, E, st):
        pmin, pmax, n = mesh_geometry(st.self)
        b = st.args[0].attrs
        return [not st.self.attrs['_subregions']] + [z3.And(R(l) >= R(p), R(l) < R(h), R(h) <= R(q_)) for l, h, p, q_ in zip(b['_pmin'].elems, b['_pmax'].elems, pmin, pmax)]

    def frame(s, E, st):
        return [('self', st.self), ('region', st.args[0])]

    def raises(s, E, st):
        return [('ValueError', True)] if st.kind == 'outside' else []

    def post(s, E, st, result):
        m = st.self
        if not isinstance(result, Obj) or result.cls != 'Mesh' or result is m:
            return [('result is a new Mesh', False)]
        pmin, pmax, n = mesh_geometry(m)
        rpmin, rpmax, rn = mesh_geometry(result)
        reg, rreg = m.attrs['_region'].attrs, result.attrs['_region'].attrs
        cell = m.ghost['cell'] if hasattr(m, 'ghost') else None
        box = st.args[0].attrs
        out = [('dims kept', _eq(E, rreg['_dims'], reg['_dims'])), ('units kept', _eq(E, rreg['_units'], reg['_units'])),
               ('tolerance factor kept', _eq(E, rreg['_tolerance_factor'], reg['_tolerance_factor']))]
        for j in range(len(n)):
            c = R(cell[j])
            L, U, lo, hi = R(rpmin[j]), R(rpmax[j]), R(box['_pmin'].elems[j]), R(box['_pmax'].elems[j])
            a = lattice_offset(E, rpmin[j], pmin[j], cell[j])
            out.append((f'axis {j}: cell-aligned with the source (lower face a whole number of cells above pmin)', z3.And(is_int(a), a >= 0)))
            out.append((f'axis {j}: whole cells of the source size', U - L == R(rn[j]) * c))
            out.append((f'axis {j}: inside the source region', z3.And(L >= R(pmin[j]), U <= R(pmax[j]))))
            out.append((f'axis {j}: contains the region', z3.And(L <= lo, hi <= U)))
            out.append((f'axis {j}: smallest such block (less than one cell of slack on either side)', z3.And(lo < L + c, U - c < hi)))
            if st.ghost is not None:
                out.append((f'axis {j}: a region made of whole cells is reproduced exactly', z3.And(L == lo, U == hi, I(rn[j]) == I(st.ghost[1][j]) - I(st.ghost[0][j]))))
            # the same against the spec function (used by Field.__getitem__): first cell = point2index(lower corner)
            k0 = cell_of(E, m, box['_pmin'].elems)[j]
            out.append((f'axis {j}: lower face == pmin + point2index(region.pmin) * cell', L == R(pmin[j]) + z3.ToReal(k0) * c))
        return out

    def fresh_result(s, E, st):
        m = st.self
        pmin, pmax, n = mesh_geometry(m)
        reg = m.attrs['_region'].attrs
        d = len(n)
        rp = [E.fresh('gpmin', 'float', True) for _ in range(d)]
        rq = [E.fresh('gpmax', 'float', True) for _ in range(d)]
        rn = [E.fresh('gn', 'int', True) for _ in range(d)]
        for k in rn:
            E.assume(I(k) >= 1)
        # the callee contract of point2index for the spec-function terms used in the post-condition
        c = Point2Index()
        p = list(st.args[0].attrs['_pmin'].elems)
        for label, phi in c.post(E, c.bind(E, m, [tuple(p)], {}), tuple(Sym(t, 'int') for t in cell_of(E, m, p))):
            if not isinstance(phi, bool):
                E.assume(phi)
        rreg = Obj('Region', {'_pmin': Vec(rp), '_pmax': Vec(rq), '_dims': reg['_dims'], '_units': reg['_units'], '_tolerance_factor': reg['_tolerance_factor']})
        res = Obj('Mesh', {'_region': rreg, '_n': Vec(rn, 'int'), '_bc': '', '_subregions': {}})
        if hasattr(m, 'ghost'):
            res.ghost = {'cell': list(m.ghost['cell']), 'sub': {}}
        return res


class FieldGetitemRegion(Contract):
    """field[region]: field on mesh[region]; every cell carries the value and validity of the source cell at the same position"""
    name = 'Field.__getitem__[region]'
    qual = ('Field', '__getitem__')
    func = 'Field.__getitem__'

    def configs(s, tier):
        return [{'ndim': d, 'nvdim': nv} for d in ND[tier] for nv in ((3,) if d == 3 and tier == 'quick' else (1, 3))]

    def pre_state(s, E, cfg):
        d, nv = cfg['ndim'], cfg['nvdim']
        m, assume = sym_mesh(E, d, prefix='fm', tf=1e-12, cellcond=True)
        vd = ['p', 'q', 'r'][:nv] if nv > 1 else None
        f, assume = sym_field(E, d, nv, mesh=m, assume=assume, unit='T', vdims=vd, mapping=(dict(zip(vd, reversed(DIMS[:d]))) if (vd and nv == d) else {}))
        box, _ = sub_box(E, m, 'r', assume, aligned=False)
        st = State(f, [box], {})
        st.assume = assume
        return st

    def frame(s, E, st):
        return [('self', st.self), ('region', st.args[0])]

    def post(s, E, st, result):
        f = st.self
        m = f.attrs['_mesh']
        out, ok = field_base(E, result, [f])
        if not ok:
            return out
        rm = result.attrs['_mesh']
        mg = MeshGetitemRegion()
        mst = State(m, [st.args[0]], {})
        mst.kind, mst.ghost = 'any', None
        out += [('mesh: ' + l, c) for l, c in mg.post(E, mst, rm)]
        nv = f.attrs['_nvdim']
        out.append(('number of components kept', result.attrs['_nvdim'] == nv))
        out += same_meta(E, result, f, unit=True)
        pmin, pmax, n = mesh_geometry(m)
        rpmin, rpmax, rn = mesh_geometry(rm)
        cell = m.ghost['cell']
        ridx = E.skolem([E.pyscalar(x) for x in rn], 'j')
        c = E.skolem([nv], 'c')[0]
        k0 = cell_of(E, m, st.args[0].attrs['_pmin'].elems)
        src = [E.arith('+', Sym(k, 'int'), j) for k, j in zip(k0, ridx)]
        for j in range(len(n)):
            out.append((f'axis {j}: result cell and the source cell it is taken from have the same centre',
                        R(rpmin[j]) + (R(ridx[j]) + HALF) * R(cell[j]) == R(pmin[j]) + (R(src[j]) + HALF) * R(cell[j])))
        out.append(('array[j, c] == source.array[cell at the same position, c]', R(result.attrs['_array'].at(E, list(ridx) + [c])) == R(f.attrs['_array'].at(E, list(src) + [c]))))
        out.append(('valid[j] == source.valid[cell at the same position]', B(result.attrs['_valid'].at(E, list(ridx))) == B(f.attrs['_valid'].at(E, list(src)))))
        return out


class MeshPad(Contract):
    """mesh.pad({dim: (a, b), ...}): a cells added below and b above per named direction, everything else kept"""
    name = 'Mesh.pad'
    qual = ('Mesh', 'pad')
    func = 'Mesh.pad'

    def configs(s, tier):
        out = []
        for d in ND[tier]:
            out.append({'ndim': d, 'axes': (0,)})
            if d >= 2:
                out.append({'ndim': d, 'axes': (d - 1, 0)})
        return out + [{'ndim': 2, 'axes': (0,), 'bc': 'a'}, {'ndim': 2, 'axes': ('nodim',)}]

    def pre_state(s, E, cfg):
        m, assume = sym_mesh(E, cfg['ndim'], tf=1e-12, cellcond=True, bc=cfg.get('bc', ''))
        dims = m.attrs['_region'].attrs['_dims']
        pw = {}
        for ax in cfg['axes']:
            a, b = inp(E, f'pa{ax}', 'int'), inp(E, f'pb{ax}', 'int')
            assume += [I(a) >= 0, I(b) >= 0]
            pw[dims[ax] if isinstance(ax, int) else ax] = (a, b)
        st = s.bind(E, m, [pw], {})
        st.assume = assume
        return st

    def bind(s, E, selfobj, args, kw):
        st = State(selfobj, args, kw)
        pw = args[0] if args else kw.get('pad_width')
        dims = selfobj.attrs['_region'].attrs['_dims']
        st.bad = any(k not in dims for k in pw)
        st.widths = {dims.index(k): v for k, v in pw.items() if k in dims}
        return st

    def requires(s, E, st):
        return [not st.self.attrs['_subregions']] + [z3.And(I(a) >= 0, I(b) >= 0) for a, b in st.widths.values()]

    def frame(s, E, st):
        return [('self', st.self)]

    def raises(s, E, st):
        return [('ValueError', True)] if st.bad else []

    def post(s, E, st, result):
        m = st.self
        if not isinstance(result, Obj) or result.cls != 'Mesh' or result is m:
            return [('result is a new Mesh', False)]
        pmin, pmax, n = mesh_geometry(m)
        rpmin, rpmax, rn = mesh_geometry(result)
        reg, rreg = m.attrs['_region'].attrs, result.attrs['_region'].attrs
        cell = m.ghost['cell']
        out = [('dims kept', _eq(E, rreg['_dims'], reg['_dims'])), ('units kept', _eq(E, rreg['_units'], reg['_units'])),
               ('tolerance factor kept', _eq(E, rreg['_tolerance_factor'], reg['_tolerance_factor'])),
               ('boundary conditions kept', _eq(E, result.attrs.get('_bc'), m.attrs['_bc']))]
        for j in range(len(n)):
            a, b = st.widths.get(j, (0, 0))
            out.append((f'axis {j}: pmin moved down by the requested number of cells', R(rpmin[j]) == R(pmin[j]) - R(a) * R(cell[j])))
            out.append((f'axis {j}: pmax moved up by the requested number of cells', R(rpmax[j]) == R(pmax[j]) + R(b) * R(cell[j])))
            out.append((f'axis {j}: cell count grows by exactly the padding (cell size kept)', I(rn[j]) == I(n[j]) + I(a) + I(b)))
        return out

    def fresh_result(s, E, st):
        m = st.self
        pmin, pmax, n = mesh_geometry(m)
        reg = m.attrs['_region'].attrs
        cell = m.ghost['cell']
        rp, rq, rn = [], [], []
        for j in range(len(n)):
            a, b = st.widths.get(j, (0, 0))
            rp.append(E.npscalar(E.to_float(E.arith('-', pmin[j], E.arith('*', a, cell[j])))))
            rq.append(E.npscalar(E.to_float(E.arith('+', pmax[j], E.arith('*', b, cell[j])))))
            rn.append(E.npscalar(E.arith('+', E.arith('+', n[j], a), b)))
        rreg = Obj('Region', {'_pmin': Vec(rp), '_pmax': Vec(rq), '_dims': reg['_dims'], '_units': reg['_units'], '_tolerance_factor': reg['_tolerance_factor']})
        res = Obj('Mesh', {'_region': rreg, '_n': Vec(rn, 'int'), '_bc': m.attrs['_bc'], '_subregions': {}})
        res.ghost = {'cell': list(cell), 'sub': {}}
        return res


PAD_MODES = ('constant', 'edge', 'wrap', 'symmetric', 'reflect')


def pad_source(E, mode, t, n):
    """source index (and 'is inside' flag) of np.pad along one axis for the shifted index t = i - before"""
    lo_ok, hi_ok = E.cmp('>=', t, 0), E.cmp('<', t, n)
    if mode == 'edge':
        return E.ite(lo_ok, E.ite(hi_ok, t, E.arith('-', n, 1)), 0), True
    if mode == 'wrap':
        return E.arith('%', t, n), True
    if mode == 'symmetric':
        return E.ite(lo_ok, E.ite(hi_ok, t, E.arith('-', E.arith('-', E.arith('*', 2, n), 1), t)), E.arith('-', E.neg(t), 1)), True
    if mode == 'reflect':
        return E.ite(lo_ok, E.ite(hi_ok, t, E.arith('-', E.arith('-', E.arith('*', 2, n), 2), t)), E.neg(t)), True
    return E.ite(E.and_(lo_ok, hi_ok), t, 0), E.and_(lo_ok, hi_ok)


class FieldPad(Contract):
    """field.pad({dim: (a, b)}, mode): the padded mesh (Mesh.pad contract); interior cells keep value and validity at
    their physical position; the halo follows the padding mode (values AND validity)"""
    name = 'Field.pad'
    qual = ('Field', 'pad')
    func = 'Field.pad'

    def configs(s, tier):
        out = []
        for d in ND[tier]:
            for mode in PAD_MODES:
                if tier == 'quick' and d == 3 and mode in ('symmetric', 'reflect'):
                    continue
                out.append({'ndim': d, 'nvdim': 3 if d > 1 else 1, 'axis': d - 1, 'mode': mode})
        out += [{'ndim': 2, 'nvdim': 1, 'axis': 0, 'mode': 'wrap'}, {'ndim': 2, 'nvdim': 3, 'axis': 0, 'mode': 'constant', 'two': True}]
        return out

    def pre_state(s, E, cfg):
        d, nv, ax = cfg['ndim'], cfg['nvdim'], cfg['axis']
        m, assume = sym_mesh(E, d, prefix='fm', tf=1e-12, cellcond=True)
        vd = ['p', 'q', 'r'][:nv] if nv > 1 else None
        f, assume = sym_field(E, d, nv, mesh=m, assume=assume, unit='T', vdims=vd, mapping=(dict(zip(vd, reversed(DIMS[:d]))) if (vd and nv == d) else {}))
        dims = m.attrs['_region'].attrs['_dims']
        n = m.attrs['_n'].elems
        pw = {}
        for j in ([ax] + ([1 - ax] if cfg.get('two') else [])):
            a, b = inp(E, f'pa{j}', 'int'), inp(E, f'pb{j}', 'int')
            assume += [I(a) >= 0, I(b) >= 0]
            if cfg['mode'] in ('symmetric', 'reflect'):
                lim = I(n[j]) if cfg['mode'] == 'symmetric' else I(n[j]) - 1
                assume += [I(a) <= lim, I(b) <= lim]          # one reflection (numpy repeats it for wider halos: not modelled)
            pw[dims[j]] = (a, b)
        st = State(f, [pw, cfg['mode']], {})
        st.assume, st.mode = assume, cfg['mode']
        st.widths = {dims.index(k): v for k, v in pw.items()}
        return st

    def bind(s, E, selfobj, args, kw):
        st = State(selfobj, args, kw)
        a = dict(zip(['pad_width', 'mode'], args))
        a.update(kw)
        if any(k_ not in ('pad_width', 'mode') for k_ in a):
            raise Unsupported('Field.pad use site with extra np.pad keywords')
        dims = selfobj.attrs['_mesh'].attrs['_region'].attrs['_dims']
        st.mode = a['mode']
        st.args = [a['pad_width'], a['mode']]
        st.kw = {}
        st.widths = {dims.index(k_): v for k_, v in a['pad_width'].items() if k_ in dims}
        if len(st.widths) != len(a['pad_width']) or st.mode not in PAD_MODES:
            raise Unsupported('Field.pad use site outside the modelled forms')
        return st

    def requires(s, E, st):
        return [not st.self.attrs['_mesh'].attrs['_subregions']] + [z3.And(I(a) >= 0, I(b) >= 0) for a, b in st.widths.values()]

    def fresh_result(s, E, st):
        """the padded field: mesh as the Mesh.pad contract says, values and validity DEFINED by the padding mode
        (exactly the clauses 'every cell (halo included) follows padding mode ...' of the post-condition)"""
        f = st.self
        m = f.attrs['_mesh']
        mp = MeshPad()
        rm = mp.fresh_result(E, mp.bind(E, m, [st.args[0]], {}))
        d = len(m.attrs['_n'].elems)
        seq_a = tuple(tuple(st.widths.get(j, (0, 0))) for j in range(d)) + ((0, 0),)
        seq_v = tuple(tuple(st.widths.get(j, (0, 0))) for j in range(d))
        arr = E.np_pad([f.attrs['_array'], seq_a], {'mode': st.mode})
        val = E.np_pad([f.attrs['_valid'], seq_v], {'mode': st.mode})
        res = Obj('Field', {'_mesh': rm, '_nvdim': f.attrs['_nvdim'], 'dtype': f.attrs.get('dtype'), '_unit': f.attrs.get('_unit'), '_valid': val, '_array': arr,
                            '_vdims': list(f.attrs['_vdims']) if f.attrs['_vdims'] is not None else None, '_vdim_mapping': dict(f.attrs['_vdim_mapping'])})
        res.modelled_state = True
        return res

    def frame(s, E, st):
        return [('self', st.self)]

    def post(s, E, st, result):
        f = st.self
        m = f.attrs['_mesh']
        out, ok = field_base(E, result, [f])
        if not ok:
            return out
        rm = result.attrs['_mesh']
        mp = MeshPad()
        mst = mp.bind(E, m, [st.args[0]], {})
        out += [('mesh: ' + l, c) for l, c in mp.post(E, mst, rm)]
        nv = f.attrs['_nvdim']
        out.append(('number of components kept', result.attrs['_nvdim'] == nv))
        out += same_meta(E, result, f, unit=True)
        n = [E.pyscalar(x) for x in m.attrs['_n'].elems]
        rn = [E.pyscalar(x) for x in rm.attrs['_n'].elems]
        ridx = E.skolem(rn, 'j')
        c = E.skolem([nv], 'c')[0]
        src, inside = [], True
        for j in range(len(n)):
            a, b = st.widths.get(j, (0, 0))
            t = E.arith('-', ridx[j], a)
            if j in st.widths:
                sj, ins = pad_source(E, st.mode, t, n[j])
                src.append(sj)
                inside = E.and_(inside, ins)
            else:
                src.append(t)
        interior = conj([z3.And(I(ridx[j]) >= I(st.widths[j][0]), I(ridx[j]) < I(st.widths[j][0]) + I(n[j])) for j in st.widths])
        shifted = [E.arith('-', ridx[j], st.widths.get(j, (0, 0))[0]) for j in range(len(n))]
        ra, rv = result.attrs['_array'], result.attrs['_valid']
        out.append(('interior: cell j holds the value of source cell j - before (same physical position)',
                    z3.Implies(interior, R(ra.at(E, list(ridx) + [c])) == R(f.attrs['_array'].at(E, shifted + [c])))))
        out.append(('interior: validity of source cell j - before', z3.Implies(interior, B(rv.at(E, list(ridx))) == B(f.attrs['_valid'].at(E, shifted)))))
        val = f.attrs['_array'].at(E, list(src) + [c])
        vv = f.attrs['_valid'].at(E, list(src))
        if inside is not True:
            val = E.ite(inside, val, 0.0)
            vv = E.ite(inside, vv, False)
        out.append((f'every cell (halo included) follows padding mode {st.mode!r}: value', R(ra.at(E, list(ridx) + [c])) == R(val)))
        out.append((f'every cell (halo included) follows padding mode {st.mode!r}: validity', B(rv.at(E, list(ridx))) == B(vv)))
        return out


CONTRACTS = [MeshSel(), FieldSel(), Region2Slices(), MeshGetitemRegion(), FieldGetitemRegion(), MeshPad(), FieldPad()]
_BY_NAME = {c.name: c for c in CONTRACTS}
setup_engine = c03.setup_engine


def contract(name):
    return _BY_NAME[name]


def contracts_for_use():
    # Mesh.sel is used through its contract by Field.sel (and proved from its body as the first contract of this module)
    return [RegionInit(), MeshInit(), Point2Index(), FieldInit(), MeshSel(), MeshGetitemRegion(), MeshPad()]


INLINED = ['Mesh._sel_convert_input (inlined into Mesh.sel / Field.sel)', 'Mesh.index2point (inlined: centre = pmin + (i+1/2)*cell cancels syntactically)',
           'Region._dim2index, Region.center/edges/pmin/pmax, Mesh.cell/n', 'util.assemble_index']
TRUSTED = ['contracts of Region.__init__, Mesh.__init__ (cell path), Mesh.point2index (discharged under C01)',
           'Mesh.point2index is a pure function: at use sites its result is the application of an uninterpreted function of (corners, n, tolerance, point) constrained by its proved post-condition',
           '[A] np.pad(arr, widths, mode) for modes constant/edge/wrap and single-reflection symmetric/reflect (conformance-tested against numpy on every run: pyvc/npconf.py)',
           '[A] basic slicing returns views; Field.__init__ copies (contract of Field.__init__, discharged under C03)']
BOUNDED_IN = ['np.pad modes symmetric / reflect: halo no wider than the array (numpy repeats the reflection for wider halos: not modelled)']
ASSUMPTIONS = ['tolerance_factor fixed to the default 1e-12; the comparison tolerance is at most 1/1000 of a cell',
               'meshes without subregions in Mesh.sel (clipping of subregions: C14 / bounded tier)']
MUTANTS = {
    'sel_probe_point_keeps_int_dtype': {'tier': 'thorough', 'expect': 'first kept cell', 'module': 'mesh', 'contract': 'Mesh.sel', 'config': {'ndim': 1, 'axis': 0, 'kind': 'range', 'corners': 'int'},
                                        'old': """                    test_point = self.region.pmin.copy().astype(
                        np.result_type(self.region.pmin.dtype, type(point))
                    )""", 'new': """                    test_point = self.region.pmin.copy()"""},
    'range_upper_exclusive': {'module': 'mesh', 'contract': 'Mesh.sel', 'config': {'ndim': 2, 'axis': 0, 'kind': 'range'},
                              'old': 'max_val = selection[1] + step', 'new': 'max_val = selection[1] - step'},
    'field_sel_values_altered': {'module': 'field', 'contract': 'Field.sel', 'config': {'ndim': 2, 'nvdim': 3, 'axis': 0, 'kind': 'range'}, 'expect': 'array[j, c]',
                                 'old': '        array = self.array[slices]\n\n        valid = self.valid[slices[:-1]]', 'new': '        array = np.abs(self.array[slices])\n\n        valid = self.valid[slices[:-1]]'},
    'field_sel_valid_unsliced_axis': {'module': 'field', 'contract': 'Field.sel', 'config': {'ndim': 2, 'nvdim': 3, 'axis': 1, 'kind': 'value'}, 'expect': 'valid[j]',
                                      'old': '        valid = self.valid[slices[:-1]]\n\n        try:\n            mesh = self.mesh.sel(*args, **kwargs)',
                                      'new': '        valid = self.valid[slices[:-1]]\n        valid = np.ones_like(valid)\n\n        try:\n            mesh = self.mesh.sel(*args, **kwargs)'},
    'pad_validity_always_constant': {'module': 'field', 'contract': 'Field.pad', 'config': {'ndim': 2, 'nvdim': 3, 'axis': 1, 'mode': 'wrap'}, 'expect': 'validity',
                                     'old': 'padded_valid = np.pad(self.valid, padding_sequence, mode=mode, **kwargs)', 'new': 'padded_valid = np.pad(self.valid, padding_sequence, mode="constant")'},
    'mesh_pad_sides_swapped': {'module': 'mesh', 'contract': 'Mesh.pad', 'config': {'ndim': 2, 'axes': (0,)},
                               'old': 'pmin[axis] -= pad_width[direction][0] * self.cell[axis]', 'new': 'pmin[axis] -= pad_width[direction][1] * self.cell[axis]'},
    'getitem_upper_index_floor': {'module': 'mesh', 'contract': 'Mesh.__getitem__[region]', 'config': {'ndim': 1, 'box': 'any'},
                                  'old': 'p2_idx = (np.ceil((item.pmax - self.region.pmin) / self.cell) - 1).astype(int)', 'new': 'p2_idx = (np.floor((item.pmax - self.region.pmin) / self.cell)).astype(int)'},
    'field_getitem_uses_region_corner_index': {'module': 'field', 'contract': 'Field.__getitem__[region]', 'config': {'ndim': 2, 'nvdim': 3},
                                               'old': 'index_min = self.mesh.point2index(\n            submesh.index2point((0,) * submesh.region.ndim)\n        )',
                                               'new': 'index_min = self.mesh.point2index(item.pmin + self.mesh.cell)'},
    'region2slices_inclusive_stop': {'module': 'mesh', 'contract': 'Mesh.region2slices', 'config': {'ndim': 2},
                                     'old': 'return tuple(slice(i1[i], i2[i] + 1) for i in range(self.region.ndim))', 'new': 'return tuple(slice(i1[i], i2[i]) for i in range(self.region.ndim))'},
    'plane_keeps_wrong_axis': {'module': 'mesh', 'contract': 'Mesh.sel', 'config': {'ndim': 3, 'axis': 0, 'kind': 'centre'},
                               'old': 'idxs = [i for i in range(self.region.ndim) if i != dim_index]', 'new': 'idxs = [i for i in range(self.region.ndim) if i != self.region.ndim - 1 - dim_index]'},
}
