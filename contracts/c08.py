"""C08 - validity masks follow the data (deductive part: every in-memory operation whose cell set is the
operand's own; selections / padding / rotation / derivatives are covered by C07 / C12 / C04 contracts or the bounded tier)."""
from . import fieldc
from .fieldc import (FieldInit, UnaryOp, BinaryOp, UNARY, BINARY, Component, NormGetter, Orientation, ComplexPart, ValidAsField, TwoFieldOp)
from .shared import RegionInit, MeshInit
from . import c03

CONTRACTS = [FieldInit()] + [UnaryOp(m) for m in UNARY] + [BinaryOp(m) for m in ('__add__', '__mul__', '__truediv__', '__rsub__')] + \
    [Component(), NormGetter(), Orientation(), ValidAsField()] + [ComplexPart(m) for m in ('real', 'imag', 'conjugate', 'abs', 'phase')] + \
    [TwoFieldOp(m) for m in ('dot', 'cross', '__lshift__')]
# operations that MAP cells: the validity clauses of their contracts (proved with the data clauses under C07 / C12 / C04)
from .c07 import FieldPad, FieldSel, MeshSel, MeshPad, Region2Slices, MeshGetitemRegion
from .c12 import FieldRotate90
from .c04 import FieldDiff, SplitDiffCombineUse
from .geom import RegionRotate90
from .shared import Point2Index
CONTRACTS += [FieldPad(), FieldRotate90(), FieldDiff()]
_BY_NAME = {c.name: c for c in CONTRACTS}
setup_engine = c03.setup_engine


def contract(name):
    return _BY_NAME[name]


def contracts_for_use():
    return [RegionInit(), MeshInit(), _BY_NAME['Field.__init__'], Point2Index(), MeshSel(), MeshPad(), FieldPad(), Region2Slices(), SplitDiffCombineUse(), RegionRotate90()]


INLINED = c03.INLINED
TRUSTED = c03.TRUSTED + ['[A] np.linalg.norm(axis=-1): r >= 0 and r^2 = sum of squares; np.einsum("...l,...l->...") = sum of products; np.cross = textbook formula; np.stack(axis=-1) copies; np.divide(out=, where=) writes only the selected cells']
ASSUMPTIONS = c03.ASSUMPTIONS
MUTANTS = {
    'component_drops_valid': {'module': 'field', 'contract': 'Field.__getattr__', 'config': {'ndim': 2, 'nvdim': 3, 'comp': 1},
                              'old': """                value=attr_array,
                unit=self.unit,
                valid=self.valid,""", 'new': """                value=attr_array,
                unit=self.unit,"""},
    'component_wrong_column': {'module': 'field', 'contract': 'Field.__getattr__', 'config': {'ndim': 2, 'nvdim': 3, 'comp': 1},
                               'old': 'attr_array = self.array[..., self.vdims.index(attr), np.newaxis]', 'new': 'attr_array = self.array[..., self.vdims.index(attr) - 1, np.newaxis]'},
    'dot_drops_other_valid': {'module': 'field', 'contract': 'Field.dot', 'config': {'ndim': 2, 'nvdim': 3, 'other': 'field'},
                              'old': """            self._check_same_mesh_and_field_dim(other)
            valid = np.logical_and(valid, other.valid)
            other = other.array
        elif not isinstance(other, (tuple, list, np.ndarray)):
            msg = (
                f"Unsupported operand type(s) for dot""", 'new': """            self._check_same_mesh_and_field_dim(other)
            other = other.array
        elif not isinstance(other, (tuple, list, np.ndarray)):
            msg = (
                f"Unsupported operand type(s) for dot"""},
    'cross_swapped': {'module': 'field', 'contract': 'Field.cross', 'config': {'ndim': 2, 'nvdim': 3, 'other': 'field'},
                      'old': 'value=np.cross(self.array, other),', 'new': 'value=np.cross(other, self.array),'},
    'norm_drops_valid': {'module': 'field', 'contract': 'Field.norm', 'config': {'ndim': 2, 'nvdim': 3},
                         'old': 'self.mesh, nvdim=1, value=res, unit=self.unit, valid=self.valid', 'new': 'self.mesh, nvdim=1, value=res, unit=self.unit'},
    'orientation_no_guard': {'expect': 'zero where the field is within the threshold', 'module': 'field', 'contract': 'Field.orientation', 'config': {'ndim': 2, 'nvdim': 3},
                             'old': 'where=np.invert(np.isclose(self.norm.array, 0)),', 'new': 'where=self.norm.array != 0.0,'},
    'stack_order': {'module': 'field', 'contract': 'Field.__lshift__', 'config': {'ndim': 2, 'nvdim': 3, 'other': 'field'},
                    'old': """        array_list = [self.array[..., i] for i in range(self.nvdim)]
        array_list += [other.array[..., i] for i in range(other.nvdim)]""", 'new': """        array_list = [other.array[..., i] for i in range(other.nvdim)]
        array_list += [self.array[..., i] for i in range(self.nvdim)]"""},
}
