"""C11 - field FFTs are the discrete Fourier transform at the k-mesh's frequencies (deductive part: the k-mesh).

Under contract: Mesh.fftn (complex and real transform) and Mesh.ifftn; lemma: the centre of k-cell j is exactly the
shifted DFT sample frequency (j - n//2)/(n*cell) (j/(n*cell) along the unshifted last axis of the real transform).
The transform VALUES (scipy.fft), the alignment of the data shifts with the mesh and the label renaming are decided by
the bounded tier against a direct O(N^2) DFT."""
import z3
from pyvc.core import *
from pyvc.contracts import Contract, State, conj, disj
from pyvc.states import inp, sym_mesh, _eq, snapshot
from .shared import RegionInit, MeshInit, Index2Point, NDIMS, HALF
from .geom import MeshTranslate, RegionTranslate
from pyvc.states import DIMS
from pyvc.ndarr import NDArr
from . import c03 as _c03

setup_engine = _c03.setup_engine

ND = {'quick': (1, 2, 3), 'thorough': (1, 2, 3, 4)}


def geometry(m):
    reg = m.attrs['_region'].attrs
    return reg['_pmin'].elems, reg['_pmax'].elems, m.attrs['_n'].elems


class MeshFFTN(Contract):
    name = 'Mesh.fftn'
    qual = ('Mesh', 'fftn')
    func = 'Mesh.fftn'

    def configs(s, tier):
        return [{'ndim': d, 'rfft': r} for d in ND[tier] for r in (False, True)]

    def pre_state(s, E, cfg):
        m, assume = sym_mesh(E, cfg['ndim'], tf=1e-12)
        st = State(m, [], {'rfft': cfg['rfft']})
        st.assume = assume
        return st

    def frame(s, E, st):
        return [('self', st.self)]

    def post(s, E, st, result):
        m = st.self
        rfft = st.kw.get('rfft', False)
        if not isinstance(result, Obj) or result.cls != 'Mesh' or result is m:
            return [('result is a new Mesh', False)]
        pmin, pmax, n = geometry(m)
        kmin, kmax, kn = geometry(result)
        cell = m.ghost['cell']
        reg, kreg = m.attrs['_region'].attrs, result.attrs['_region'].attrs
        d = len(n)
        if len(kn) != d:
            return [('the k-mesh has the dimension of the mesh', False)]
        out = [('reciprocal dimension names k_<dim>', _eq(E, kreg['_dims'], tuple('k_' + x for x in reg['_dims']))),
               ('reciprocal units (<unit>)^-1', _eq(E, kreg['_units'], tuple(f'({u})' + '$^{-1}$' for u in reg['_units']))),
               ('tolerance factor kept', _eq(E, kreg['_tolerance_factor'], reg['_tolerance_factor']))]
        for i in range(d):
            nn, c = I(n[i]), R(cell[i])
            nc = z3.ToReal(nn) * c
            lo, hi, nk = R(kmin[i]), R(kmax[i]), I(kn[i])
            single = nn == 1
            half = z3.ToReal(nn / 2)                     # n // 2
            top = z3.ToReal((nn - 1) / 2)                # (n - 1) // 2
            out.append((f'axis {i}, single cell: one k-cell centred at the zero frequency, one reciprocal cell wide',
                        z3.Implies(single, z3.And(nk == 1, lo * 2 * c == -1, hi * 2 * c == 1))))
            if rfft and i == d - 1:
                out.append((f'axis {i} (last axis of the real transform): n//2 + 1 k-cells', z3.Implies(z3.Not(single), nk == nn / 2 + 1)))
                out.append((f'axis {i} (last axis of the real transform): k-cells span [-1/2, n//2 + 1/2] / (n cell): non-negative half, not shifted',
                            z3.Implies(z3.Not(single), z3.And(lo * nc == -HALF, hi * nc == half + HALF))))
            else:
                out.append((f'axis {i}: as many k-cells as cells', z3.Implies(z3.Not(single), nk == nn)))
                out.append((f'axis {i}: k-cells span [-(n//2) - 1/2, (n-1)//2 + 1/2] / (n cell): the shifted sample frequencies',
                            z3.Implies(z3.Not(single), z3.And(lo * nc == -half - HALF, hi * nc == top + HALF))))
        return out


class MeshIFFTN(Contract):
    name = 'Mesh.ifftn'
    qual = ('Mesh', 'ifftn')
    func = 'Mesh.ifftn'

    def configs(s, tier):
        out = []
        for d in ND[tier]:
            out += [{'ndim': d, 'rfft': False, 'shape': None}, {'ndim': d, 'rfft': True, 'shape': None}, {'ndim': d, 'rfft': True, 'shape': 'even'}, {'ndim': d, 'rfft': True, 'shape': 'odd'}]
        out += [{'ndim': 2, 'rfft': True, 'shape': 'bad_last'}, {'ndim': 2, 'rfft': True, 'shape': 'bad_other'}, {'ndim': 2, 'rfft': True, 'shape': 'bad_len'}, {'ndim': 2, 'rfft': True, 'shape': 'bad_type'}]
        return out

    def pre_state(s, E, cfg):
        m, assume = sym_mesh(E, cfg['ndim'], tf=1e-12, dims=tuple('k_' + x for x in 'abce'[:cfg['ndim']]), units=tuple(f'({u})' + '$^{-1}$' for u in ('u0', 'u1', 'u2', 'u3')[:cfg['ndim']]))
        n = m.attrs['_n'].elems
        kw = {'rfft': cfg['rfft']}
        sh = cfg['shape']
        last = E.pyscalar(n[-1])
        if sh in ('even', 'odd'):
            kw['shape'] = tuple(E.pyscalar(x) for x in n[:-1]) + (E.arith('+', E.arith('*', E.arith('-', last, 1), 2), 0 if sh == 'even' else 1),)
        elif sh == 'bad_last':
            kw['shape'] = tuple(E.pyscalar(x) for x in n[:-1]) + (E.arith('+', E.arith('*', last, 2), 3),)
        elif sh == 'bad_other':
            kw['shape'] = (E.arith('+', E.pyscalar(n[0]), 1),) + tuple(E.pyscalar(x) for x in n[1:-1]) + (E.arith('*', E.arith('-', last, 1), 2),)
        elif sh == 'bad_len':
            kw['shape'] = (E.pyscalar(n[0]),)
        elif sh == 'bad_type':
            kw['shape'] = 'abc'
        if sh in ('even', 'odd', 'bad_other'):
            assume.append(I(last) >= 2)
        st = State(m, [], kw)
        st.assume, st.shape_kind = assume, sh
        return st

    def frame(s, E, st):
        return [('self', st.self)]

    def raises(s, E, st):
        k = st.shape_kind
        if k in ('bad_last', 'bad_other', 'bad_len'):
            return [('ValueError', True)]
        if k == 'bad_type':
            return [('TypeError', True)]
        return []

    def post(s, E, st, result):
        m = st.self
        if not isinstance(result, Obj) or result.cls != 'Mesh' or result is m:
            return [('result is a new Mesh', False)]
        kmin, kmax, kn = geometry(m)
        pmin, pmax, n = geometry(result)
        kcell = m.ghost['cell']
        reg, kreg = result.attrs['_region'].attrs, m.attrs['_region'].attrs
        d = len(kn)
        out = [('dimension names: the k_ prefix is removed', _eq(E, reg['_dims'], tuple(x[2:] for x in kreg['_dims']))),
               ('units: the reciprocal wrapper is removed', _eq(E, reg['_units'], tuple(u[1:-8] for u in kreg['_units'])))]
        shape = st.kw.get('shape')
        for i in range(d):
            # arithmetic fact about integer division handed to the solver as a hint (valid for every integer; discharged on
            # its own as lemma 'integer-division hint' below): (m-1)//2 + m//2 + 1 == m for the cell count m of the result
            mm = I(n[i])
            E.assume((mm - 1) / 2 + mm / 2 + 1 == mm)
            want_n = I(kn[i])
            if shape is not None:
                want_n = I(shape[i])
            elif st.kw.get('rfft') and i == d - 1:
                want_n = z3.If(I(kn[i]) == 1, z3.IntVal(1), (I(kn[i]) - 1) * 2)
            out.append((f'axis {i}: cell count = requested shape (default: n, and 2(n-1) on the last axis of a real transform)', I(n[i]) == want_n))
            out.append((f'axis {i}: centred at the origin', R(pmin[i]) == -R(pmax[i])))
            out.append((f'axis {i}: real-space extent is the reciprocal of the k-cell size', (R(pmax[i]) - R(pmin[i])) * R(kcell[i]) == 1))
        return out


class Lemmas(Contract):
    """over the contracts of Mesh.fftn and Mesh.index2point (no code): k-cell centres are the shifted sample frequencies;
    ifftn of an fftn mesh has the original cell size"""
    name = 'kmesh-lemmas'
    func = None

    def configs(s, tier):
        return [{'rfft_axis': False}, {'rfft_axis': True}]

    def lemmas(s, E, cfg, prop):
        E.pc, E.inputs = [], {}
        obs = []
        n, j = inp(E, 'n', 'int'), inp(E, 'j', 'int')
        c = inp(E, 'cell', 'float')
        lo, hi, nk = inp(E, 'kmin', 'float'), inp(E, 'kmax', 'float'), inp(E, 'nk', 'int')
        nn, cc = I(n), R(c)
        E.assume(z3.And(nn >= 2, cc > 0, I(j) >= 0, I(j) < I(nk)))
        nc = z3.ToReal(nn) * cc
        half, top = z3.ToReal(nn / 2), z3.ToReal((nn - 1) / 2)
        E.assume((nn - 1) / 2 + nn / 2 + 1 == nn)       # integer-division hint (valid for every integer; discharged on its own below)
        # contract of Mesh.fftn on this axis
        if cfg['rfft_axis']:
            E.assume(z3.And(I(nk) == nn / 2 + 1, R(lo) * nc == -HALF, R(hi) * nc == half + HALF))
        else:
            E.assume(z3.And(I(nk) == nn, R(lo) * nc == -half - HALF, R(hi) * nc == top + HALF))
        # contract of Mesh.index2point on the k-mesh: centre * nk == kmin * nk + (j + 1/2) * (kmax - kmin)
        ctr = E.fresh('centre', 'float').t
        E.assume(ctr * z3.ToReal(I(nk)) == R(lo) * z3.ToReal(I(nk)) + (z3.ToReal(I(j)) + HALF) * (R(hi) - R(lo)))
        cfgs = f"rfft_axis={cfg['rfft_axis']}"

        def ob(label, goal):
            key = f"{prop}/lemma/{label}"
            obs.append({'key': key, 'id': f"{key}[{cfgs}]", 'config': cfgs, 'kind': 'lemma', 'text': label,
                        'pc': list(E.pc), 'goal': goal, 'inputs': dict(E.inputs), 'path': 0, 'outcome': 'lemma'})
        mfree = z3.Int('m_any')
        obs.append({'key': f"{prop}/lemma/integer-division hint", 'id': f"{prop}/lemma/integer-division hint[{cfgs}]", 'config': cfgs, 'kind': 'lemma',
                    'text': 'integer-division hint: (m-1)//2 + m//2 + 1 == m for every integer m', 'pc': [], 'goal': (mfree - 1) / 2 + mfree / 2 + 1 == mfree,
                    'inputs': {}, 'path': 0, 'outcome': 'lemma'})
        if cfg['rfft_axis']:
            ob('centre of k-cell j along the last axis of the real transform == j / (n cell)  (DFT bin j, not shifted)', ctr * nc == z3.ToReal(I(j)))
        else:
            ob('centre of k-cell j == (j - n//2) / (n cell): exactly the shifted DFT sample frequencies', ctr * nc == z3.ToReal(I(j)) - half)
            # the k-cell size is 1/(n cell); by the Mesh.ifftn contract the real-space extent is 1/kcell = n*cell -> cell size n*cell/n
            kc = E.fresh('kcell', 'float').t
            E.assume(kc * z3.ToReal(nn) == R(hi) - R(lo))
            ob('k-cell size == 1 / (n cell)', kc * nc == 1)
            ext = E.fresh('extent', 'float').t
            E.assume(ext * kc == 1)            # Mesh.ifftn contract: extent * kcell == 1
            ob('the inverse mesh of the k-mesh has the original extent n * cell (hence the original cell size for n cells)', ext == nc)
        return obs


class FieldFFTMeta(Contract):
    """Field._fftn(mesh, array, ifftn) - the one place where fftn / ifftn / rfftn / irfftn build their result: the result is a
    field on the mesh handed in (the k-mesh / real-space mesh of the contracts above) holding the array handed in, with the
    unit kept and components and their axis mapping renamed CONSISTENTLY: component v becomes ft_v (back: the prefix is
    stripped), and whatever axis x component v was mapped to, ft_v is mapped to k_x (back: x) - for every presentation of the
    mapping (dict order independent of the order of the components), mappings naming an axis the mesh does not have (what a
    plane selection leaves behind) and empty mappings."""
    name = 'Field._fftn'
    qual = ('Field', '_fftn')
    func = 'Field._fftn'
    no_crosscheck = True

    # (a mapping must name every component, mesh.py:595; entries with value None - 'mapped to no axis' - are not a documented
    #  form and the library never produces them: fftn turns them into the string 'k_None'; observation only, not part of the contract)
    MAPPINGS = ('none', 'default', 'permuted', 'shuffled_dict', 'foreign_axis', 'empty')

    def configs(s, tier):
        out = []
        for d in ((1, 2, 3) if tier == 'quick' else (1, 2, 3, 4)):
            for inv in (False, True):
                for mp in s.MAPPINGS:
                    if mp in ('permuted', 'shuffled_dict') and d == 1:
                        continue
                    out.append({'ndim': d, 'ifftn': inv, 'mapping': mp})
        return out

    def use_contracts(s):
        from .fieldc import FieldInit
        return [RegionInit(), MeshInit(), FieldInit()]

    def names(s, cfg):
        d, inv, mp = cfg['ndim'], cfg['ifftn'], cfg['mapping']
        real_dims = DIMS[:d]
        kdims = tuple('k_' + x for x in real_dims)
        src_dims, dst_dims = (kdims, real_dims) if inv else (real_dims, kdims)
        if mp == 'none':
            return src_dims, dst_dims, None, {}, None, {}
        comp = ['mp', 'mq', 'mr', 'ms'][:d]
        src_v = ['ft_' + c for c in comp] if inv else comp
        dst_v = comp if inv else ['ft_' + c for c in comp]
        pairing = {'default': list(range(d)), 'empty': [], 'permuted': list(reversed(range(d))), 'shuffled_dict': list(reversed(range(d))),
                   'foreign_axis': list(range(d))}[mp]
        pairs = [(i, pairing[i]) for i in range(len(pairing))]
        if mp == 'foreign_axis':
            # the last component is mapped to an axis name the mesh does not have (left behind by a plane selection)
            src_dims, dst_dims = tuple(src_dims) + (('k_w',) if inv else ('w',)), tuple(dst_dims) + (('w',) if inv else ('k_w',))
            comp = comp + ['mw']
            src_v = ['ft_' + c for c in comp] if inv else comp
            dst_v = comp if inv else ['ft_' + c for c in comp]
            pairs = pairs + [(d, d)]
        if mp == 'shuffled_dict':
            pairs = pairs[1:] + pairs[:1]      # same pairing, dict lists its keys in another order than vdims
        src_map = {src_v[i]: src_dims[j] for i, j in pairs}
        dst_map = {dst_v[i]: dst_dims[j] for i, j in pairs}
        return src_dims[:d], dst_dims[:d], src_v, src_map, dst_v, dst_map

    def pre_state(s, E, cfg):
        from .fieldc import sym_field
        d = cfg['ndim']
        src_dims, dst_dims, src_v, src_map, dst_v, dst_map = s.names(cfg)
        nv = len(src_v) if src_v else 1
        m, assume = sym_mesh(E, d, prefix='fm', tf=1e-12, dims=src_dims)
        f, assume = sym_field(E, d, nv, mesh=m, assume=assume, unit='T', vdims=src_v, mapping=src_map)
        m2, assume = sym_mesh(E, d, prefix='tm', tf=1e-12, dims=dst_dims, assume=assume)
        n2 = [E.pyscalar(x) for x in m2.attrs['_n'].elems]
        arr = E.sym_array('ft', n2 + [nv], 'float')
        st = State(f, [m2, arr], {'ifftn': cfg['ifftn']})
        st.assume, st.cfg = assume, cfg
        return st

    def frame(s, E, st):
        return [('self', st.self), ('mesh', st.args[0]), ('array', st.args[1])]

    def post(s, E, st, result):
        src_dims, dst_dims, src_v, src_map, dst_v, dst_map = s.names(st.cfg)
        if not isinstance(result, Obj) or result.cls != 'Field':
            return [('returns a Field', False)]
        a = result.attrs
        out = [('on the mesh handed in', a.get('_mesh') is st.args[0]),
               ('number of components kept', a.get('_nvdim') == st.self.attrs['_nvdim']),
               ('unit kept', a.get('_unit') == st.self.attrs['_unit'])]
        want_v = dst_v if dst_v is not None else None
        got_v = a.get('_vdims')
        out.append(('components renamed (ft_ prefix added / stripped), order kept', (list(got_v) if got_v is not None else None) == want_v))
        got_m = a.get('_vdim_mapping')
        out.append(('axis mapping renamed consistently: ft_v -> k_x exactly where v -> x (as a set of pairs, for every dict order)',
                    isinstance(got_m, dict) and dict(got_m) == dst_map))
        arr = st.args[1]
        ra = a.get('_array')
        if not isinstance(ra, NDArr):
            out.append(('holds an array', False))
            return out
        idx = E.skolem([E.pyscalar(x) for x in arr.shape], 'fi')
        out.append(('holds the values handed in', R(ra.at(E, idx)) == R(arr.at(E, idx))))
        return out


CONTRACTS = [MeshFFTN(), MeshIFFTN(), Lemmas(), FieldFFTMeta()]
_BY_NAME = {c.name: c for c in CONTRACTS}


def contract(name):
    return _BY_NAME[name]


def contracts_for_use():
    return [RegionInit(), MeshInit(), RegionTranslate()]


INLINED = ['Mesh.cell / n / region, Region.center / edges', 'Mesh.translate (in place, on the fresh mesh)']
TRUSTED = ['[A] scipy.fft.fftfreq / rfftfreq: sample frequencies [0..(n-1)//2, -(n//2)..-1]/(n d) and [0..n//2]/(n d) (checked against scipy in the bounded tier)',
           'contracts of Region.__init__, Mesh.__init__, Mesh.index2point (C01), Region.translate (C13)']
ASSUMPTIONS = ['only the geometry of the transforms is proved; transform values, shift/axis alignment of the data and label renaming are decided by the bounded tier against a direct DFT']
MUTANTS = {
    'fft_mapping_by_position': {'module': 'field', 'contract': 'Field._fftn', 'config': {'ndim': 2, 'ifftn': False, 'mapping': 'shuffled_dict'}, 'expect': 'axis mapping renamed',
                                'old': '                    else:\n                        new_vdim_mapping[new_vdim] = f"k_{self.vdim_mapping[vdim]}"',
                                'new': '                    else:\n                        new_vdim_mapping[new_vdim] = f"k_{list(self.vdim_mapping.values())[len(new_vdim_mapping)]}"'},
    'kmesh_not_shifted_by_half_spacing': {'module': 'mesh', 'contract': 'Mesh.fftn', 'config': {'ndim': 1, 'rfft': False},
                                          'old': 'p1.append(min(freqs) - dfreq)', 'new': 'p1.append(min(freqs))'},
    'rfft_on_first_axis': {'module': 'mesh', 'contract': 'Mesh.fftn', 'config': {'ndim': 2, 'rfft': True},
                           'old': 'if rfft and i == self.region.ndim - 1:', 'new': 'if rfft and i == 0:'},
    'ifftn_not_recentred': {'module': 'mesh', 'contract': 'Mesh.ifftn', 'config': {'ndim': 2, 'rfft': False, 'shape': None},
                            'old': '        mesh.translate(-mesh.region.center, inplace=True)\n', 'new': ''},
    'ifftn_odd_shape_ignored': {'module': 'mesh', 'contract': 'Mesh.ifftn', 'config': {'ndim': 1, 'rfft': True, 'shape': 'odd'},
                                'old': '                freqs = spfft.fftfreq(shape[i], self.cell[i])\n                # Shift the region boundaries to get the correct coordinates of\n                # mesh cells.\n                dfreq',
                                'new': '                freqs = spfft.fftfreq(shape[i] - shape[i] % 2, self.cell[i])\n                # Shift the region boundaries to get the correct coordinates of\n                # mesh cells.\n                dfreq'},
}
