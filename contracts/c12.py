"""C12 - quarter-turn rotations move values, vectors, validity and geometry together (region and mesh
level + the index-map lemma that ties np.rot90's data movement to the rotated geometry)."""
import z3
from pyvc.core import *
from pyvc.contracts import Contract, State, conj, disj
from pyvc.states import inp, sym_mesh, snapshot
from .geom import RegionRotate90, MeshRotate90, rot_sym
from .shared import RegionInit, MeshInit, Index2Point, NDIMS, HALF


def rot90_source_index(m, i, j, n1, n2):
    """[A] np.rot90(a, k=m, axes=(ax1, ax2)): the element at (i, j) of the input lands at (i', j') of the output:
    m=1: (n2-1-j, i)   m=2: (n1-1-i, n2-1-j)   m=3: (j, n1-1-i)   m=0: (i, j)"""
    return [(i, j), (n2 - 1 - j, i), (n1 - 1 - i, n2 - 1 - j), (j, n1 - 1 - i)][m]


class Lemmas(Contract):
    name = 'lemmas'
    func = None

    def configs(s, tier):
        out = []
        for d in [x for x in NDIMS[tier] if x >= 2]:
            pairs = [(a, b) for a in range(d) for b in range(d) if a != b]
            if tier == 'quick' and d == 3:
                pairs = [(0, 1), (2, 0), (1, 2)]
            for a, b in pairs:
                for m in range(4):
                    out.append({'ndim': d, 'ax1': a, 'ax2': b, 'kmod4': m})
        return out

    def lemmas(s, E, cfg, prop):
        d, i1, i2, m = cfg['ndim'], cfg['ax1'], cfg['ax2'], cfg['kmod4']
        obs = []
        E.pc = []
        E.inputs = {}
        M, assume = sym_mesh(E, d)
        for a in assume:
            E.assume(a)
        dims = M.attrs['_region'].attrs['_dims']
        k = inp(E, 'k', 'int')
        E.assume(I(k) % 4 == m)
        ref = tuple(inp(E, f'R{j}', 'float') for j in range(d))
        cfgs = ','.join(f'{k_}={cfg[k_]}' for k_ in sorted(cfg))

        def ob(label, goal):
            key = f"{prop}/lemma/{label}"
            obs.append({'key': key, 'id': f"{key}[{cfgs}]", 'config': cfgs, 'kind': 'lemma', 'text': label,
                        'pc': list(E.pc), 'goal': goal, 'inputs': dict(E.inputs), 'path': 0, 'outcome': 'lemma'})
        # the rotated mesh M' as described by the contract of Mesh.rotate90 (fresh state constrained by its postcondition)
        C = MeshRotate90()
        st = C.bind(E, M, [dims[i1], dims[i2]], {'k': k, 'reference_point': ref, 'inplace': False})
        st.old = {'self': snapshot(M)}
        reg2 = Obj('Region', {'_pmin': Vec([E.fresh('q', 'float', True) for _ in range(d)]), '_pmax': Vec([E.fresh('Q', 'float', True) for _ in range(d)]),
                              '_dims': dims, '_units': M.attrs['_region'].attrs['_units'], '_tolerance_factor': M.attrs['_region'].attrs['_tolerance_factor']})
        M2 = Obj('Mesh', {'_region': reg2, '_n': Vec([E.fresh('n2', 'int', True) for _ in range(d)], 'int'), '_bc': '', '_subregions': {}})
        for label, phi in C.post(E, st, M2):
            if not isinstance(phi, bool) and ('units' not in label):
                E.assume(phi)
        n = M.attrs['_n'].elems
        idx = tuple(inp(E, f'i{j}', 'int') for j in range(d))
        for i, kk in zip(idx, n):
            E.assume(z3.And(I(i) >= 0, I(i) < I(kk)))
        a, b = rot90_source_index(m, I(idx[i1]), I(idx[i2]), I(n[i1]), I(n[i2]))
        idx2 = list(idx)
        idx2[i1], idx2[i2] = Sym(a, 'int'), Sym(b, 'int')
        i2p = Index2Point()
        s1 = i2p.bind(E, M, [idx], {})
        c1 = i2p.fresh_result(E, s1)
        for _, phi in i2p.post(E, s1, c1):
            E.assume(phi)
        s2 = i2p.bind(E, M2, [tuple(idx2)], {})
        ob('the moved index is in range of the rotated mesh', z3.Not(disj([c for _, c in i2p.raises(E, s2)])))
        c2 = i2p.fresh_result(E, s2)
        for _, phi in i2p.post(E, s2, c2):
            E.assume(phi)
        rx, ry = rot_sym(z3.IntVal(m), R(c1.elems[i1]) - R(ref[i1]), R(c1.elems[i2]) - R(ref[i2]))
        goal = [R(c2.elems[i1]) == R(ref[i1]) + rx, R(c2.elems[i2]) == R(ref[i2]) + ry]
        goal += [R(c2.elems[j]) == R(c1.elems[j]) for j in range(d) if j not in (i1, i2)]
        ob("cell centre of the moved index = R + Q(centre - R): np.rot90's data movement matches the rotated geometry", conj(goal))
        return obs


class Identities(Contract):
    """k and k mod 4 agree, four quarter turns / a turn and its reverse give back the region (over the Region.rotate90 contract)"""
    name = 'identities'
    func = None

    def configs(s, tier):
        return [{'ndim': d} for d in NDIMS[tier] if d >= 2]

    def lemmas(s, E, cfg, prop):
        from pyvc.states import sym_region
        d = cfg['ndim']
        obs = []
        E.pc = []
        E.inputs = {}
        r, assume = sym_region(E, d)
        for a in assume:
            E.assume(a)
        dims = r.attrs['_dims']
        ref = tuple(inp(E, f'R{j}', 'float') for j in range(d))
        k = inp(E, 'k', 'int')
        C = RegionRotate90()
        cfgs = ','.join(f'{k_}={cfg[k_]}' for k_ in sorted(cfg))

        def ob(label, goal):
            key = f"{prop}/lemma/{label}"
            obs.append({'key': key, 'id': f"{key}[{cfgs}]", 'config': cfgs, 'kind': 'lemma', 'text': label,
                        'pc': list(E.pc), 'goal': goal, 'inputs': dict(E.inputs), 'path': 0, 'outcome': 'lemma'})

        def apply(reg, kk):
            st = C.bind(E, reg, [dims[0], dims[1]], {'k': kk, 'reference_point': ref, 'inplace': False})
            st.old = {'self': snapshot(reg)}
            out = Obj('Region', {'_pmin': Vec([E.fresh('q', 'float', True) for _ in range(d)]), '_pmax': Vec([E.fresh('Q', 'float', True) for _ in range(d)]),
                                 '_dims': dims, '_units': reg.attrs['_units'], '_tolerance_factor': reg.attrs['_tolerance_factor']})
            for label, phi in C.post(E, st, out):
                if not isinstance(phi, bool) and 'units' not in label:
                    E.assume(phi)
            return out

        def same(x, y):
            return conj([R(p) == R(q_) for p, q_ in zip(x.attrs['_pmin'].elems + x.attrs['_pmax'].elems, y.attrs['_pmin'].elems + y.attrs['_pmax'].elems)])
        a1 = apply(r, k)
        a2 = apply(r, Sym(I(k) % 4, 'int'))
        ob('rotation by k and by k mod 4 give the same region', same(a1, a2))
        back = apply(a1, Sym(-I(k), 'int'))
        ob('a turn followed by its reverse is the identity', same(back, r))
        t = r
        for _ in range(4):
            t = apply(t, 1)
        ob('four quarter turns are the identity', same(t, r))
        return obs


CONTRACTS = [RegionRotate90(), MeshRotate90(), Lemmas(), Identities()]
_BY_NAME = {c.name: c for c in CONTRACTS}
_USE = [RegionInit(), MeshInit(), RegionRotate90()]


def contract(name):
    return _BY_NAME[name]


def contracts_for_use():
    return _USE


INLINED = ['Region.pmin/pmax/centre/units/dims', 'Region._dim2index', 'Mesh.n/region']
TRUSTED = ['contracts of Region.__init__ / Mesh.__init__ / Mesh.index2point (discharged under C01)',
           '[A] np.rot90(a, k, axes): element (i,j) lands at (n2-1-j, i) for k=1, (n1-1-i, n2-1-j) for k=2, (j, n1-1-i) for k=3 (conformance-tested in the bounded tier)',
           '[A-trig] cos/sin of k*pi/2 are the exact quarter-turn table on k mod 4']
ASSUMPTIONS = ['field-level clauses (values, vector components, validity) are decided by the bounded tier only; the deductive tier covers region, mesh and the index/geometry lemma']
MUTANTS = {
    'mesh_n_not_swapped': {'module': 'mesh', 'contract': 'Mesh.rotate90', 'config': {'ndim': 2, 'inplace': False, 'ax1': 0, 'ax2': 1, 'nsub': 0},
                           'old': 'n[idx1], n[idx2] = n[idx2], n[idx1]', 'new': 'n[idx1], n[idx2] = n[idx1], n[idx2]'},
    'region_rot_about_origin': {'module': 'region', 'contract': 'Region.rotate90', 'config': {'ndim': 2, 'inplace': False, 'ax1': 0, 'ax2': 1, 'ref': 'point'},
                                'old': 'p1[idx1] = ref_1 + p1_rot[0]', 'new': 'p1[idx1] = p1_rot[0]'},
}
