"""C12 - quarter-turn rotations move values, vectors, validity and geometry together (region and mesh
level + the index-map lemma that ties np.rot90's data movement to the rotated geometry)."""
import z3
from pyvc.core import *
from pyvc.contracts import Contract, State, conj, disj
from pyvc.states import inp, sym_mesh, snapshot
from .geom import RegionRotate90, MeshRotate90, rot_sym
from .shared import RegionInit, MeshInit, Index2Point, NDIMS, HALF


def rot90_source_index(m, i, j, n1, n2):
    """[A] np.rot90(a, k=m, axes=(ax1, ax2)): the element at (i, j) of the input lands at (i', j') of the output:
    m=1: (n2-1-j, i)   m=2: (n1-1-i, n2-1-j)   m=3: (j, n1-1-i)   m=0: (i, j)"""
    return [(i, j), (n2 - 1 - j, i), (n1 - 1 - i, n2 - 1 - j), (j, n1 - 1 - i)][m]


class Lemmas(Contract):
    name = 'lemmas'
    func = None

    def configs(s, tier):
        out = []
        for d in [x for x in NDIMS[tier] if x >= 2]:
            pairs = [(a, b) for a in range(d) for b in range(d) if a != b]
            if tier == 'quick' and d == 3:
                pairs = [(0, 1), (2, 0), (1, 2)]
            for a, b in pairs:
                for m in range(4):
                    out.append({'ndim': d, 'ax1': a, 'ax2': b, 'kmod4': m})
        return out

    def lemmas(s, E, cfg, prop):
        d, i1, i2, m = cfg['ndim'], cfg['ax1'], cfg['ax2'], cfg['kmod4']
        obs = []
        E.pc = []
        E.inputs = {}
        M, assume = sym_mesh(E, d)
        for a in assume:
            E.assume(a)
        dims = M.attrs['_region'].attrs['_dims']
        k = inp(E, 'k', 'int')
        E.assume(I(k) % 4 == m)
        ref = tuple(inp(E, f'R{j}', 'float') for j in range(d))
        cfgs = ','.join(f'{k_}={cfg[k_]}' for k_ in sorted(cfg))

        def ob(label, goal):
            key = f"{prop}/lemma/{label}"
            obs.append({'key': key, 'id': f"{key}[{cfgs}]", 'config': cfgs, 'kind': 'lemma', 'text': label,
                        'pc': list(E.pc), 'goal': goal, 'inputs': dict(E.inputs), 'path': 0, 'outcome': 'lemma'})
        # the rotated mesh M' as described by the contract of Mesh.rotate90 (fresh state constrained by its postcondition)
        C = MeshRotate90()
        st = C.bind(E, M, [dims[i1], dims[i2]], {'k': k, 'reference_point': ref, 'inplace': False})
        st.old = {'self': snapshot(M)}
        reg2 = Obj('Region', {'_pmin': Vec([E.fresh('q', 'float', True) for _ in range(d)]), '_pmax': Vec([E.fresh('Q', 'float', True) for _ in range(d)]),
                              '_dims': dims, '_units': M.attrs['_region'].attrs['_units'], '_tolerance_factor': M.attrs['_region'].attrs['_tolerance_factor']})
        M2 = Obj('Mesh', {'_region': reg2, '_n': Vec([E.fresh('n2', 'int', True) for _ in range(d)], 'int'), '_bc': '', '_subregions': {}})
        for label, phi in C.post(E, st, M2):
            if not isinstance(phi, bool) and ('units' not in label):
                E.assume(phi)
        n = M.attrs['_n'].elems
        idx = tuple(inp(E, f'i{j}', 'int') for j in range(d))
        for i, kk in zip(idx, n):
            E.assume(z3.And(I(i) >= 0, I(i) < I(kk)))
        a, b = rot90_source_index(m, I(idx[i1]), I(idx[i2]), I(n[i1]), I(n[i2]))
        idx2 = list(idx)
        idx2[i1], idx2[i2] = Sym(a, 'int'), Sym(b, 'int')
        i2p = Index2Point()
        s1 = i2p.bind(E, M, [idx], {})
        c1 = i2p.fresh_result(E, s1)
        for _, phi in i2p.post(E, s1, c1):
            E.assume(phi)
        s2 = i2p.bind(E, M2, [tuple(idx2)], {})
        ob('the moved index is in range of the rotated mesh', z3.Not(disj([c for _, c in i2p.raises(E, s2)])))
        c2 = i2p.fresh_result(E, s2)
        for _, phi in i2p.post(E, s2, c2):
            E.assume(phi)
        rx, ry = rot_sym(z3.IntVal(m), R(c1.elems[i1]) - R(ref[i1]), R(c1.elems[i2]) - R(ref[i2]))
        goal = [R(c2.elems[i1]) == R(ref[i1]) + rx, R(c2.elems[i2]) == R(ref[i2]) + ry]
        goal += [R(c2.elems[j]) == R(c1.elems[j]) for j in range(d) if j not in (i1, i2)]
        ob("cell centre of the moved index = R + Q(centre - R): np.rot90's data movement matches the rotated geometry", conj(goal))
        return obs


class Identities(Contract):
    """k and k mod 4 agree, four quarter turns / a turn and its reverse give back the region (over the Region.rotate90 contract)"""
    name = 'identities'
    func = None

    def configs(s, tier):
        return [{'ndim': d} for d in NDIMS[tier] if d >= 2]

    def lemmas(s, E, cfg, prop):
        from pyvc.states import sym_region
        d = cfg['ndim']
        obs = []
        E.pc = []
        E.inputs = {}
        r, assume = sym_region(E, d)
        for a in assume:
            E.assume(a)
        dims = r.attrs['_dims']
        ref = tuple(inp(E, f'R{j}', 'float') for j in range(d))
        k = inp(E, 'k', 'int')
        C = RegionRotate90()
        cfgs = ','.join(f'{k_}={cfg[k_]}' for k_ in sorted(cfg))

        def ob(label, goal):
            key = f"{prop}/lemma/{label}"
            obs.append({'key': key, 'id': f"{key}[{cfgs}]", 'config': cfgs, 'kind': 'lemma', 'text': label,
                        'pc': list(E.pc), 'goal': goal, 'inputs': dict(E.inputs), 'path': 0, 'outcome': 'lemma'})

        def apply(reg, kk):
            st = C.bind(E, reg, [dims[0], dims[1]], {'k': kk, 'reference_point': ref, 'inplace': False})
            st.old = {'self': snapshot(reg)}
            out = Obj('Region', {'_pmin': Vec([E.fresh('q', 'float', True) for _ in range(d)]), '_pmax': Vec([E.fresh('Q', 'float', True) for _ in range(d)]),
                                 '_dims': dims, '_units': reg.attrs['_units'], '_tolerance_factor': reg.attrs['_tolerance_factor']})
            for label, phi in C.post(E, st, out):
                if not isinstance(phi, bool) and 'units' not in label:
                    E.assume(phi)
            return out

        def same(x, y):
            return conj([R(p) == R(q_) for p, q_ in zip(x.attrs['_pmin'].elems + x.attrs['_pmax'].elems, y.attrs['_pmin'].elems + y.attrs['_pmax'].elems)])
        a1 = apply(r, k)
        a2 = apply(r, Sym(I(k) % 4, 'int'))
        ob('rotation by k and by k mod 4 give the same region', same(a1, a2))
        back = apply(a1, Sym(-I(k), 'int'))
        ob('a turn followed by its reverse is the identity', same(back, r))
        t = r
        for _ in range(4):
            t = apply(t, 1)
        ob('four quarter turns are the identity', same(t, r))
        return obs


class FieldRotate90(Contract):
    """f.rotate90(a, b, k, reference_point, inplace): mesh rotated as Mesh.rotate90 says; the cell that np.rot90 moves to
    index idx' (the Lemma above: its centre is R + Q(centre - R)) carries Q applied to the two components mapped to a, b;
    other components / scalars unchanged; validity moved by the same index map; refusal leaves the object unmodified"""
    name = 'Field.rotate90'
    qual = ('Field', 'rotate90')
    func = 'Field.rotate90'

    MAPPINGS = ('default', 'permuted', 'shuffled_dict', 'extra_component', 'missing')

    def configs(s, tier):
        out = []
        for d in [x for x in NDIMS[tier] if x >= 2]:
            pairs = [(0, 1), (1, 0)] if d == 2 else ([(0, 1), (2, 0), (1, 2)] if tier == 'quick' else [(a, b) for a in range(d) for b in range(d) if a != b])
            for a, b in pairs:
                for ip in (False, True):
                    out.append({'ndim': d, 'nvdim': 1, 'ax1': a, 'ax2': b, 'inplace': ip, 'mapping': 'none'})
                    for mp in s.MAPPINGS:
                        if tier == 'quick' and d == 3 and mp in ('extra_component',) and (a, b) != (0, 1):
                            continue
                        out.append({'ndim': d, 'nvdim': d if mp != 'extra_component' else d + 1, 'ax1': a, 'ax2': b, 'inplace': ip, 'mapping': mp})
        return out

    def make_field(s, E, cfg):
        d, nv, mp = cfg['ndim'], cfg['nvdim'], cfg['mapping']
        m, assume = sym_mesh(E, d, prefix='fm', tf=1e-12)
        dims = m.attrs['_region'].attrs['_dims']
        vd = ['p', 'q', 'r', 's', 't'][:nv] if nv > 1 else None
        if mp == 'none':
            mapping = {}
        elif mp == 'default':
            mapping = dict(zip(vd, dims))
        elif mp == 'permuted':
            mapping = dict(zip(vd, reversed(dims)))
        elif mp == 'shuffled_dict':
            # the same pairing as 'permuted', but the dict lists its keys in another order than vdims
            pairs = list(zip(vd, reversed(dims)))
            mapping = dict(pairs[1:] + pairs[:1])
        elif mp == 'extra_component':
            # more components than axes: the last component is mapped to no axis, listed first in the dict
            mapping = dict([(vd[-1], None)] + list(zip(vd[:-1], reversed(dims))))
        else:
            # component for the second rotation axis is not mapped
            mapping = {v: (x if x != dims[cfg['ax2']] else None) for v, x in zip(vd, dims)}
        from .fieldc import sym_field
        f, assume = sym_field(E, d, nv, mesh=m, assume=assume, unit='T', vdims=vd, mapping=mapping)
        return f, assume

    def pre_state(s, E, cfg):
        f, assume = s.make_field(E, cfg)
        d = cfg['ndim']
        dims = f.attrs['_mesh'].attrs['_region'].attrs['_dims']
        k = inp(E, 'k', 'int')
        ref = None if (cfg['ax1'] + cfg['ax2']) % 2 else tuple(inp(E, f'R{j}', 'float') for j in range(d))
        st = s.bind(E, f, [dims[cfg['ax1']], dims[cfg['ax2']]], {'k': k, 'reference_point': ref, 'inplace': cfg['inplace']})
        st.assume = assume
        return st

    def bind(s, E, selfobj, args, kw):
        st = State(selfobj, args, kw)
        a = dict(zip(['ax1', 'ax2', 'k', 'reference_point', 'inplace'], args))
        a.update(kw)
        st.inplace, st.k, st.ax1, st.ax2 = a.get('inplace', False), a.get('k', 1), a['ax1'], a['ax2']
        st.mst = MeshRotate90().bind(E, selfobj.attrs['_mesh'], [a['ax1'], a['ax2']], {'k': st.k, 'reference_point': a.get('reference_point'), 'inplace': st.inplace})
        return st

    def components(s, st):
        """positions (in vdims) of the components mapped to ax1 and ax2, or None when one is missing"""
        f = st.self
        if f.attrs['_nvdim'] == 1:
            return 'scalar'
        rev = {ax: v for v, ax in f.attrs['_vdim_mapping'].items()}
        v1, v2 = rev.get(st.ax1), rev.get(st.ax2)
        if v1 is None or v2 is None:
            return None
        return f.attrs['_vdims'].index(v1), f.attrs['_vdims'].index(v2)

    def frame(s, E, st):
        return [('self', st.self)] if not st.inplace else []

    def frame_on_raise(s, E, st):
        return [('self (a refused rotation leaves the field, its mesh and its validity unmodified)', st.self)]

    def raises(s, E, st):
        out = list(MeshRotate90().raises(E, st.mst))
        if s.components(st) is None:
            out.append(('RuntimeError', True))
        return out

    def post(s, E, st, result):
        from .fieldc import inv_field, same_meta, owns_buffers
        from pyvc.ndarr import NDArr
        f = st.self
        old = st.old['self'][2]
        out = []
        if st.inplace:
            out.append(('in-place form returns the object itself', result is f))
        else:
            out.append(('copying form returns a new Field', isinstance(result, Obj) and result.cls == 'Field' and result is not f))
        if not isinstance(result, Obj) or result.cls != 'Field':
            return out
        out += [('Inv: ' + l, c) for l, c in inv_field(E, result)]
        # ---- the mesh: exactly what the contract of Mesh.rotate90 says (same clause text, old mesh = snapshot)
        mc = MeshRotate90()
        mst = st.mst
        mst.old = {'self': old['_mesh']}
        msave = mst.self
        rm = result.attrs['_mesh']
        for l, c in mc.post(E, mst, rm):
            if l.startswith('copying form') or l.startswith('in-place form') or 'does not share its region' in l:
                continue
            out.append(('mesh: ' + l, c))
        if st.inplace:
            out.append(('in place: the field keeps its mesh object', rm is f.attrs['_mesh'] and rm is old['_mesh'][1]))
        else:
            out.append(('copy: the result has its own mesh object', rm is not old['_mesh'][1]))
        nv = old['_nvdim'][1]
        out.append(('number of components kept', result.attrs['_nvdim'] == nv))
        out.append(('component labels kept', _eq_(E, result.attrs.get('_vdims'), [x[1] for x in old['_vdims'][2]] if old['_vdims'][0] == 'list' else old['_vdims'][1])))
        out.append(('component-to-axis mapping kept', result.attrs.get('_vdim_mapping') == {k_: v[1] for k_, v in old['_vdim_mapping'][2].items()}))
        out.append(('unit kept', result.attrs.get('_unit') == old['_unit'][1]))
        arr, val = result.attrs.get('_array'), result.attrs.get('_valid')
        if not isinstance(arr, NDArr) or not isinstance(val, NDArr):
            return out + [('array and valid are arrays', False)]
        # ---- old contents
        _, oarr, obuf, oget, oaxes, ofixed = old['_array']
        _, ovarr, ovbuf, ovget, ovaxes, ovfixed = old['_valid']
        OA = lambda idx: oget(NDArr(obuf, oaxes, ofixed).base_index(E, idx))
        OV = lambda idx: ovget(NDArr(ovbuf, ovaxes, ovfixed).base_index(E, idx))
        if not st.inplace:
            out.append(("the result's values and validity are its own (no buffer shared with the operand)",
                        arr.buf.id not in (obuf.id, ovbuf.id) and val.buf.id not in (obuf.id, ovbuf.id) and arr.buf.id != val.buf.id))
        dims = old['_mesh'][2]['_region'][2]['_dims'][1]
        i1, i2 = dims.index(st.ax1), dims.index(st.ax2)
        on = [E.pyscalar(x) for x in old['_mesh'][2]['_n'][2]]
        rn = [E.pyscalar(x) for x in rm.attrs['_n'].elems]
        ridx = E.skolem(rn, 'j')
        km = I(st.k) % 4
        # inverse of the data movement of np.rot90 (see Lemmas): the cell now at idx' came from src
        ip, jp = I(ridx[i1]), I(ridx[i2])
        n1, n2 = I(on[i1]), I(on[i2])
        si = z3.If(km == 0, ip, z3.If(km == 1, jp, z3.If(km == 2, n1 - 1 - ip, n1 - 1 - jp)))
        sj = z3.If(km == 0, jp, z3.If(km == 1, n2 - 1 - ip, z3.If(km == 2, n2 - 1 - jp, ip)))
        src = list(ridx)
        src[i1], src[i2] = Sym(z3.simplify(si), 'int'), Sym(z3.simplify(sj), 'int')
        out.append(('the source cell of every result cell exists (index map is onto the old mesh)',
                    z3.And(si >= 0, si < n1, sj >= 0, sj < n2)))
        out.append(('valid[idx\'] == old valid[source cell] (validity moves with the cells)', B(val.at(E, list(ridx))) == B(OV(list(src)))))
        comps = s.components(st)
        for c in range(nv):
            new = R(arr.at(E, list(ridx) + [c]))
            if comps != 'scalar' and c in comps:
                a1, a2 = R(OA(list(src) + [comps[0]])), R(OA(list(src) + [comps[1]]))
                rx, ry = rot_sym(km, a1, a2)
                want = rx if c == comps[0] else ry
                out.append((f'component {c} (mapped to a rotation axis) == exact quarter-turn matrix applied to the two in-plane components of the source cell', new == want))
            else:
                out.append((f'component {c} (scalar / not mapped to a rotation axis) == value of the source cell, unchanged', new == R(OA(list(src) + [c]))))
        return out


def _eq_(E, x, y):
    from pyvc.states import _eq
    return _eq(E, x, y)


CONTRACTS = [RegionRotate90(), MeshRotate90(), Lemmas(), Identities(), FieldRotate90()]
_BY_NAME = {c.name: c for c in CONTRACTS}
_USE = [RegionInit(), MeshInit(), RegionRotate90()]
from . import c03 as _c03
from .fieldc import FieldInit as _FieldInit
setup_engine = _c03.setup_engine
_USE.append(_FieldInit())


def contract(name):
    return _BY_NAME[name]


def contracts_for_use():
    return _USE


INLINED = ['Region.pmin/pmax/centre/units/dims', 'Region._dim2index', 'Mesh.n/region']
TRUSTED = ['contracts of Region.__init__ / Mesh.__init__ / Mesh.index2point (discharged under C01)',
           '[A] np.rot90(a, k, axes): element (i,j) lands at (n2-1-j, i) for k=1, (n1-1-i, n2-1-j) for k=2, (j, n1-1-i) for k=3 (conformance-tested in the bounded tier)',
           '[A-trig] np.round(np.cos / np.sin(k*pi/2)) is the exact quarter-turn table on k mod 4 (the library rounds the 6e-17 residue away since fix 352db988)']
ASSUMPTIONS = ['field values are real numbers; the geometric reading g(R+Q(p-R)) = Q f(p) is the composition of the Field.rotate90 contract (index form) with the index/geometry lemma',
               'Field.rotate90 pre-states: meshes without subregions (with subregions: Mesh.rotate90 contract in place + bounded tier)']
MUTANTS = {
    'field_component_index_from_mapping_order': {'module': 'field', 'contract': 'Field.rotate90', 'config': {'ndim': 3, 'nvdim': 3, 'ax1': 0, 'ax2': 1, 'inplace': False, 'mapping': 'shuffled_dict'},
                                                 'old': 'vdim1 = self.vdims.index(self._r_dim_mapping[ax1])', 'new': 'vdim1 = list(self.vdim_mapping.values()).index(ax1)'},
    'field_vector_rotation_sign': {'module': 'field', 'contract': 'Field.rotate90', 'config': {'ndim': 2, 'nvdim': 2, 'ax1': 0, 'ax2': 1, 'inplace': True, 'mapping': 'default'},
                                   'old': 'value[..., vdim1] = cos * value1 - sin * value2', 'new': 'value[..., vdim1] = cos * value1 + sin * value2'},
    'field_validity_axes_swapped': {'module': 'field', 'contract': 'Field.rotate90', 'config': {'ndim': 2, 'nvdim': 1, 'ax1': 0, 'ax2': 1, 'inplace': False, 'mapping': 'none'},
                                    'old': 'valid = np.rot90(self.valid.copy(), k=k, axes=(idx1, idx2))', 'new': 'valid = np.rot90(self.valid.copy(), k=k, axes=(idx2, idx1))'},
    'field_refusal_after_mesh_rotation': {'module': 'field', 'contract': 'Field.rotate90', 'config': {'ndim': 2, 'nvdim': 2, 'ax1': 0, 'ax2': 1, 'inplace': True, 'mapping': 'missing'},
                                          'old': '        vdim1 = vdim2 = None\n        if self.nvdim > 1:', 'new': '        vdim1 = vdim2 = None\n        self.mesh.rotate90(ax1=ax1, ax2=ax2, k=k, reference_point=reference_point, inplace=inplace)\n        if self.nvdim > 1:'},
    'mesh_n_not_swapped': {'module': 'mesh', 'contract': 'Mesh.rotate90', 'config': {'ndim': 2, 'inplace': False, 'ax1': 0, 'ax2': 1, 'nsub': 0},
                           'old': 'n[idx1], n[idx2] = n[idx2], n[idx1]', 'new': 'n[idx1], n[idx2] = n[idx1], n[idx2]'},
    'region_rot_about_origin': {'module': 'region', 'contract': 'Region.rotate90', 'config': {'ndim': 2, 'inplace': False, 'ax1': 0, 'ax2': 1, 'ref': 'point'},
                                'old': 'p1[idx1] = ref_1 + p1_rot[0]', 'new': 'p1[idx1] = p1_rot[0]'},
}
