"""C13 - geometric invariants and in-place == copy after any transformation sequence.
Each public transformation is proved, from ANY state satisfying the class invariant, to re-establish
the invariant and to realise its affine map; induction over the history is then the standard
data-structure-invariant argument (unbounded length, any mix of forms)."""
from .geom import RegionTranslate, RegionScale, RegionRotate90, MeshTranslate, MeshScale, MeshRotate90
from .shared import RegionInit, MeshInit

from .c12 import FieldRotate90
from .fieldc import FieldInit
from . import c03 as _c03

# Field.rotate90 is the only transformation defined on fields: its contract carries Inv(Field) (array shape (*n, nvdim),
# Boolean validity of shape n), in-place returns self and equals the copy result, refusal leaves the object unmodified
from .c14 import SubregionsSetter as _Setter, frac_box as _frac_box, _USE as _USE_C14
from pyvc.contracts import State
from pyvc.states import sym_mesh


class SubregionsOwned(_Setter):
    """Separation part of Inv(Mesh): the pre-states of the mesh transformations take the mesh's region and its subregions to
    be pairwise distinct objects that nobody else holds (an in-place step that walks over them would otherwise apply its map
    twice to a shared object, or move a caller's Region).  That invariant is ESTABLISHED here: every way a mesh receives
    subregions (constructor, assignment, the copying transformations) ends in this setter, which must store fresh Region
    objects - also when the object handed in already carries the mesh's dims / units / tolerance, when the same object is
    handed in under two names, and when it is the mesh's own region object."""
    name = 'Mesh.subregions.setter [ownership]'
    no_crosscheck = True

    def configs(s, tier):
        nd = [1, 2] if tier == 'quick' else [1, 2, 3]
        return [{'ndim': d, 'scen': sc, 'old': 1} for d in nd for sc in ('same_meta', 'same_object_twice', 'mesh_region_itself')]

    def use_contracts(s):
        return _USE_C14

    def pre_state(s, E, cfg):
        m, assume = sym_mesh(E, cfg['ndim'], nsub=cfg['old'], tf=1e-12, cellcond=True)
        sc = cfg['scen']
        if sc == 'mesh_region_itself':
            val = {'whole': m.attrs['_region']}
        else:
            box, _ = _frac_box(E, m, 'n1', 'lattice', assume, foreign_meta=False)
            val = {'new': box}
            if sc == 'same_object_twice':
                val['again'] = box
        st = State(m, [val], {})
        st.assume = assume
        st.scen = 'lattice'
        return st

    def raises(s, E, st):
        return []

    def post(s, E, st, result):
        m = st.self
        val = st.args[0]
        subs = m.attrs.get('_subregions')
        if not isinstance(subs, dict):
            return [('subregions is a dict', False)]
        out = [('holds exactly the given names, in order', list(subs.keys()) == list(val.keys()))]
        stored = list(subs.items())
        for k, sr in stored:
            out.append((f'{k}: not the object handed in (the mesh owns a fresh Region)', all(sr is not g for g in val.values())))
            out.append((f'{k}: not the mesh region object', sr is not m.attrs['_region']))
        for i, (k, sr) in enumerate(stored):
            for k2, sr2 in stored[i + 1:]:
                out.append((f'{k} / {k2}: two distinct objects', sr is not sr2))
        return out


CONTRACTS = [RegionTranslate(), RegionScale(), RegionRotate90(), MeshTranslate(), MeshScale(), MeshRotate90(), FieldRotate90(), SubregionsOwned()]
_BY_NAME = {c.name: c for c in CONTRACTS}
_USE = [RegionInit(), MeshInit(), RegionTranslate(), RegionScale(), RegionRotate90(), FieldInit()]
setup_engine = _c03.setup_engine


def contract(name):
    return _BY_NAME[name]


def contracts_for_use():
    return _USE


INLINED = ['Region.pmin/pmax/ndim/edges/center/centre/dims/units/tolerance_factor', 'Region._dim2index']
TRUSTED = ['contract of Region.__init__ (discharged under C01)',
           '[A] numpy element-wise arithmetic/minimum/maximum/dot on 1-d arrays, ndarray.copy/astype',
           '[A-trig] np.round(np.cos / np.sin(k*pi/2)) is the exact quarter-turn table on k mod 4 (the library rounds the 6e-17 residue away since fix 352db988)']
ASSUMPTIONS = ['A-trig: cos/sin of k*pi/2 in doubles are within 0.5 of the exact table, so that the rounded values the library uses are exact (checked by the bounded tier bit for bit)']
MUTANTS = {
    'setter_keeps_object': {'module': 'mesh', 'contract': 'Mesh.subregions.setter [ownership]', 'config': {'ndim': 1, 'scen': 'same_meta', 'old': 1},
                            'old': '            name: df.Region(\n                p1=sr.pmin,\n                p2=sr.pmax,\n                dims=self.region.dims,\n                units=self.region.units,\n                tolerance_factor=self.region.tolerance_factor,\n            )\n',
                            'new': '            name: sr\n', 'expect': 'not the object handed in'},
    'translate_pmax_minus': {'module': 'region', 'contract': 'Region.translate', 'config': {'ndim': 2, 'inplace': True},
                             'old': 'self._pmax = np.add(self.pmax, vector)', 'new': 'self._pmax = np.add(self.pmin, vector)'},
    'rotate_sign': {'module': 'region', 'contract': 'Region.rotate90', 'config': {'ndim': 2, 'inplace': False, 'ax1': 0, 'ax2': 1},
                    'old': '[cos, -sin],', 'new': '[cos, sin],'},
}
