"""C13 - geometric invariants and in-place == copy after any transformation sequence.
Each public transformation is proved, from ANY state satisfying the class invariant, to re-establish
the invariant and to realise its affine map; induction over the history is then the standard
data-structure-invariant argument (unbounded length, any mix of forms)."""
from .geom import RegionTranslate, RegionScale, RegionRotate90, MeshTranslate, MeshScale, MeshRotate90
from .shared import RegionInit, MeshInit

from .c12 import FieldRotate90
from .fieldc import FieldInit
from . import c03 as _c03

# Field.rotate90 is the only transformation defined on fields: its contract carries Inv(Field) (array shape (*n, nvdim),
# Boolean validity of shape n), in-place returns self and equals the copy result, refusal leaves the object unmodified
CONTRACTS = [RegionTranslate(), RegionScale(), RegionRotate90(), MeshTranslate(), MeshScale(), MeshRotate90(), FieldRotate90()]
_BY_NAME = {c.name: c for c in CONTRACTS}
_USE = [RegionInit(), MeshInit(), RegionTranslate(), RegionScale(), RegionRotate90(), FieldInit()]
setup_engine = _c03.setup_engine


def contract(name):
    return _BY_NAME[name]


def contracts_for_use():
    return _USE


INLINED = ['Region.pmin/pmax/ndim/edges/center/centre/dims/units/tolerance_factor', 'Region._dim2index']
TRUSTED = ['contract of Region.__init__ (discharged under C01)',
           '[A] numpy element-wise arithmetic/minimum/maximum/dot on 1-d arrays, ndarray.copy/astype',
           '[A-trig] cos/sin of k*pi/2 are the exact quarter-turn table on k mod 4']
ASSUMPTIONS = ['A-trig: the 6e-17 residue of cos(pi/2) in doubles is ignored (covered by the bounded tier)']
MUTANTS = {
    'translate_pmax_minus': {'module': 'region', 'contract': 'Region.translate', 'config': {'ndim': 2, 'inplace': True},
                             'old': 'self._pmax = np.add(self.pmax, vector)', 'new': 'self._pmax = np.add(self.pmin, vector)'},
    'rotate_sign': {'module': 'region', 'contract': 'Region.rotate90', 'config': {'ndim': 2, 'inplace': False, 'ax1': 0, 'ax2': 1},
                    'old': '[np.cos(theta), -np.sin(theta)],', 'new': '[np.cos(theta), np.sin(theta)],'},
}
