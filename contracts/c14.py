"""C14 - subregions stay inside, aligned with and measured in cells of their mesh (deductive part:
setter accept/reject + frame, is_aligned two-sided, named extraction)."""
import z3
from pyvc.core import *
from pyvc.contracts import Contract, State, conj, disj
from pyvc.states import inp, sym_region, sym_mesh, _eq, old_attr, snapshot
from .shared import RegionInit, MeshInit, NDIMS

SCEN = ['lattice', 'lattice_same_meta', 'lattice2', 'outside', 'frac_size', 'frac_offset']
ND = {'quick': [1, 2, 3], 'thorough': [1, 2, 3, 4]}


def frac_box(E, m, name, scen, assume, foreign_meta=True):
    """a candidate subregion of mesh m (state parametrised by pmin, cell, n), by scenario"""
    reg = m.attrs['_region'].attrs
    n = m.attrs['_n'].elems
    cell = m.ghost['cell']
    d = len(n)
    a = [inp(E, f'{name}_a{j}', 'int') for j in range(d)]
    b = [inp(E, f'{name}_b{j}', 'int') for j in range(d)]
    for aj, bj, k in zip(a, b, n):
        assume += [I(aj) >= 0, I(aj) < I(bj), I(bj) <= I(k)]
    lo = [E.arith('+', p, E.arith('*', aj, c)) for p, aj, c in zip(reg['_pmin'].elems, a, cell)]
    hi = [E.arith('+', p, E.arith('*', bj, c)) for p, bj, c in zip(reg['_pmin'].elems, b, cell)]
    if scen == 'outside':
        # sticks out above pmax on axis 0 by at least 1% of a cell (far beyond the comparison tolerance)
        x = inp(E, f'{name}_x', 'float')
        assume += [R(x) >= R(cell[0]) / 100]
        hi[0] = E.arith('+', reg['_pmax'].elems[0], x)
    if scen == 'frac_size':
        # size is (b-a+phi) cells on axis 0, phi in [1%, 99%]
        phi = inp(E, f'{name}_phi', 'float')
        assume += [R(phi) >= z3.RealVal('1/100'), R(phi) <= z3.RealVal('99/100'), I(b[0]) < I(n[0])]
        hi[0] = E.arith('+', hi[0], E.arith('*', phi, cell[0]))
    if scen.startswith('frac_offset'):
        # whole number of cells, but shifted off the lattice by phi cells on axis 0
        phi = inp(E, f'{name}_phi', 'float')
        assume += [R(phi) >= z3.RealVal('1/100'), R(phi) <= z3.RealVal('99/100'), I(b[0]) < I(n[0])]
        if scen == 'frac_offset':
            assume += [R(cell[0]) >= z3.RealVal('1/1000000000')]     # see known finding: absolute 1e-12 tolerance of is_aligned
        sh = E.arith('*', phi, cell[0])
        lo[0] = E.arith('+', lo[0], sh)
        hi[0] = E.arith('+', hi[0], sh)
    dims = tuple('q%d' % j for j in range(d)) if foreign_meta else reg['_dims']
    units = tuple('w%d' % j for j in range(d)) if foreign_meta else reg['_units']
    box = Obj('Region', {'_pmin': Vec([E.npscalar(x) for x in lo]), '_pmax': Vec([E.npscalar(x) for x in hi]),
                         '_dims': dims, '_units': units, '_tolerance_factor': 1e-12})
    return box, (a, b)


class SubregionsSetter(Contract):
    name = 'Mesh.subregions.setter'
    qual = ('Mesh', 'subregions.setter')
    func = 'Mesh.subregions.setter'
    no_crosscheck = False

    def configs(s, tier):
        out = []
        for d in ND[tier]:
            for sc in SCEN:
                if d == 3 and tier == 'quick' and sc in ('lattice2',):
                    continue
                out.append({'ndim': d, 'scen': sc, 'old': 1 if sc != 'lattice2' else 0})
        out += [{'ndim': 2, 'scen': 'none', 'old': 1}, {'ndim': 2, 'scen': 'not_dict', 'old': 1}, {'ndim': 2, 'scen': 'bad_key', 'old': 1}]
        return out

    def pre_state(s, E, cfg):
        d = cfg['ndim']
        m, assume = sym_mesh(E, d, nsub=cfg['old'], tf=1e-12, cellcond=True)
        sc = cfg['scen']
        if sc == 'none':
            val = None
        elif sc == 'not_dict':
            val = [1, 2]
        else:
            val = {}
            if sc == 'lattice2':
                val['first'], g1 = frac_box(E, m, 'n0', 'lattice', assume)
            # 'lattice_same_meta': the candidate already carries the mesh's dims / units / tolerance (the mesh must still own a copy)
            val['new'], g = frac_box(E, m, 'n1', 'lattice' if sc in ('lattice2', 'bad_key', 'lattice_same_meta') else sc, assume,
                                     foreign_meta=(sc != 'lattice_same_meta'))
            if sc == 'bad_key':
                val = {3: val['new']}
        st = State(m, [val], {})
        st.assume = assume
        st.scen = sc
        return st

    def frame(s, E, st):
        # the regions handed in are never modified; the mesh's region and n neither
        out = [('region', st.self.attrs['_region'])]
        if isinstance(st.args[0], dict):
            out += [(f'given {k}', v) for k, v in st.args[0].items()]
        return out

    def frame_on_raise(s, E, st):
        return s.frame(E, st) + [('self (previous subregions are kept)', st.self)]

    def raises(s, E, st):
        if st.scen in ('outside', 'frac_size', 'frac_offset', 'frac_offset_anycell'):
            return [('ValueError', True)]
        if st.scen in ('not_dict', 'bad_key'):
            return [('TypeError', True)]
        return []

    def post(s, E, st, result):
        m = st.self
        val = st.args[0] or {}
        subs = m.attrs.get('_subregions')
        if not isinstance(subs, dict):
            return [('subregions is a dict', False)]
        reg = m.attrs['_region'].attrs
        out = [('holds exactly the given names, in order', list(subs.keys()) == list(val.keys()))]
        for k, given in val.items():
            sr = subs.get(k)
            if not isinstance(sr, Obj) or sr.cls != 'Region':
                out.append((f'{k} stored as a Region', False))
                continue
            out.append((f'{k}: re-created (not the object handed in)', sr is not given))
            out.append((f'{k}: carries the mesh dims', _eq(E, sr.attrs.get('_dims'), reg['_dims'])))
            out.append((f'{k}: carries the mesh units', _eq(E, sr.attrs.get('_units'), reg['_units'])))
            out.append((f'{k}: carries the mesh tolerance', _eq(E, sr.attrs.get('_tolerance_factor'), reg['_tolerance_factor'])))
            for j in range(len(reg['_pmin'].elems)):
                out.append((f'{k}: pmin[{j}] as given', R(sr.attrs['_pmin'].elems[j]) == R(given.attrs['_pmin'].elems[j])))
                out.append((f'{k}: pmax[{j}] as given', R(sr.attrs['_pmax'].elems[j]) == R(given.attrs['_pmax'].elems[j])))
        return out


class IsAligned(Contract):
    name = 'Mesh.is_aligned'
    qual = ('Mesh', 'is_aligned')
    func = 'Mesh.is_aligned'

    def configs(s, tier):
        out = []
        for d in ND[tier]:
            out += [{'ndim': d, 'scen': 'aligned'}, {'ndim': d, 'scen': 'cell_mismatch'},
                    {'ndim': d, 'scen': 'frac_offset', 'sign': '+'}, {'ndim': d, 'scen': 'frac_offset', 'sign': '-'}]
        out += [{'ndim': 1, 'scen': 'frac_offset_anycell', 'sign': '+'}, {'ndim': 1, 'scen': 'cell_mismatch_anycell'}, {'ndim': 2, 'scen': 'not_mesh'}]
        return out

    def pre_state(s, E, cfg):
        d = cfg['ndim']
        assume = []
        m, assume = sym_mesh(E, d, tf=1e-12, assume=assume)
        sc = cfg['scen']
        if sc == 'not_mesh':
            st = State(m, ['mesh'], {})
            st.assume, st.scen = assume, sc
            return st
        cell = m.ghost['cell']
        reg = m.attrs['_region'].attrs
        t = [inp(E, f't{j}', 'int') for j in range(d)]            # whole-cell offset of the origins, any sign
        k = [inp(E, f'o_n{j}', 'int', True) for j in range(d)]
        assume += [I(x) >= 1 for x in k]
        ocell = list(cell)
        off = [E.arith('*', tj, c) for tj, c in zip(t, cell)]
        if sc.startswith('cell_mismatch'):
            if sc == 'cell_mismatch':
                assume += [R(cell[0]) >= z3.RealVal('1/1000000000')]
            g = inp(E, 'g', 'float')
            assume += [z3.Or(R(g) >= z3.RealVal('101/100'), z3.And(R(g) > 0, R(g) <= z3.RealVal('99/100')))]
            ocell[0] = E.arith('*', g, cell[0])
        if sc.startswith('frac_offset'):
            phi = inp(E, 'phi', 'float')
            assume += [R(phi) >= z3.RealVal('1/100'), R(phi) <= z3.RealVal('99/100')]
            if sc == 'frac_offset':
                assume += [R(cell[0]) >= z3.RealVal('1/1000000000')]
            assume += [I(t[0]) >= 0] if cfg.get('sign') == '+' else [I(t[0]) <= -1]   # complete case split over the sign of the whole-cell part
            off[0] = E.arith('+', off[0], E.arith('*', phi, cell[0]))
        opmin = [E.npscalar(E.arith('+', p, o)) for p, o in zip(reg['_pmin'].elems, off)]
        opmax = [E.npscalar(E.arith('+', p, E.arith('*', kk, c))) for p, kk, c in zip(opmin, k, ocell)]
        oreg = Obj('Region', {'_pmin': Vec(opmin), '_pmax': Vec(opmax), '_dims': reg['_dims'], '_units': reg['_units'], '_tolerance_factor': 1e-12})
        other = Obj('Mesh', {'_region': oreg, '_n': Vec(k, 'int'), '_bc': '', '_subregions': {}})
        st = State(m, [other], {})
        st.assume, st.scen = assume, sc
        return st

    def frame(s, E, st):
        return [('self', st.self)] + ([('other', st.args[0])] if isinstance(st.args[0], Obj) else [])

    def raises(s, E, st):
        return [('TypeError', True)] if st.scen == 'not_mesh' else []

    def post(s, E, st, result):
        if not isinstance(result, bool) and not (isinstance(result, Sym) and result.kind == 'bool'):
            return [('result is a truth value', False)]
        if st.scen == 'aligned':
            return [('equal cells and origins a whole number of cells apart => aligned', B(result))]
        if st.scen.startswith('cell_mismatch'):
            return [('cell sizes differing by more than 1% => not aligned', z3.Not(B(result)))]
        return [('origins off the common lattice by 1%..99% of a cell => not aligned', z3.Not(B(result)))]


class GetitemName(Contract):
    """mesh['name'] : exactly that subregion as region, the parent's cell size"""
    name = 'Mesh.__getitem__[name]'
    qual = ('Mesh', '__getitem__')
    func = 'Mesh.__getitem__'

    def configs(s, tier):
        return [{'ndim': d, 'nsub': k} for d in ND[tier] for k in (1, 2) if not (d >= 3 and k == 2 and tier == 'quick')] + [{'ndim': 2, 'nsub': 1, 'missing': True}]

    def pre_state(s, E, cfg):
        m, assume = sym_mesh(E, cfg['ndim'], nsub=cfg['nsub'], tf=1e-12)
        name = 'nope' if cfg.get('missing') else f"sr{cfg['nsub'] - 1}"
        st = State(m, [name], {})
        st.assume = assume
        return st

    def frame(s, E, st):
        return [('self', st.self)]

    def raises(s, E, st):
        return [('KeyError', st.args[0] not in st.self.attrs['_subregions'])]

    def post(s, E, st, result):
        m = st.self
        sub = m.attrs['_subregions'][st.args[0]]
        a, b = m.ghost['sub'][st.args[0]]
        if not isinstance(result, Obj) or result.cls != 'Mesh':
            return [('result is a Mesh', False)]
        out = [('the region of the extracted mesh is exactly that subregion', result.attrs.get('_region') is sub)]
        nn = result.attrs.get('_n')
        if not isinstance(nn, Vec) or len(nn) != len(a):
            return out + [('n has length ndim', False)]
        for j in range(len(a)):
            out.append((f'n[{j}] = number of parent cells spanned (parent cell size kept)', I(nn.elems[j]) == I(b[j]) - I(a[j])))
        return out


class SelWithSubregions(Contract):
    """mesh.sel(...) on a mesh WITH a subregion: the selection keeps the subregion exactly when it overlaps the selected
    cells, clipped to them, re-created on the lattice of the new mesh (Mesh.__init__ and the subregion setter are executed,
    not assumed: the new mesh re-validates what it is given)"""
    name = 'Mesh.sel[subregions]'
    qual = ('Mesh', 'sel')
    func = 'Mesh.sel'

    def configs(s, tier):
        out = []
        for d in ((2,) if tier == 'quick' else (2, 3)):
            for kind in ('value', 'range'):
                out.append({'ndim': d, 'axis': 0, 'kind': kind})
        out.append({'ndim': 1, 'axis': 0, 'kind': 'range'})
        return out

    def pre_state(s, E, cfg):
        d, ax = cfg['ndim'], cfg['axis']
        m, assume = sym_mesh(E, d, nsub=1, tf=1e-12, cellcond=True)
        reg = m.attrs['_region'].attrs
        dim = reg['_dims'][ax]
        st = State(m, [], {})
        if cfg['kind'] == 'value':
            x = inp(E, 'x', 'float')
            assume += [R(x) >= R(reg['_pmin'].elems[ax]), R(x) <= R(reg['_pmax'].elems[ax])]
            st.kw[dim] = x
            st.x = x
        else:
            lo, hi = inp(E, 'lo', 'float'), inp(E, 'hi', 'float')
            assume += [R(lo) >= R(reg['_pmin'].elems[ax]), R(lo) <= R(hi), R(hi) <= R(reg['_pmax'].elems[ax])]
            st.kw[dim] = (lo, hi)
            st.lo, st.hi = lo, hi
        st.assume, st.kind, st.axis = assume, cfg['kind'], ax
        return st

    def use_contracts(s):
        return _USE_SEL

    def frame(s, E, st):
        return [('self', st.self)]

    def post(s, E, st, result):
        from .shared import cell_of
        m, ax = st.self, st.axis
        if not isinstance(result, Obj) or result.cls != 'Mesh':
            return [('result is a Mesh', False)]
        reg = m.attrs['_region'].attrs
        cell = m.ghost['cell']
        a, b = m.ghost['sub']['sr0']
        d = len(a)
        subs = result.attrs.get('_subregions')
        if not isinstance(subs, dict):
            return [('subregions is a dict', False)]
        probe = lambda x: [x if j == ax else reg['_pmin'].elems[j] for j in range(d)]
        out = []
        rreg = result.attrs['_region'].attrs
        if st.kind == 'value':
            k = cell_of(E, m, probe(st.x))[ax]
            overlaps = z3.And(I(a[ax]) <= k, k < I(b[ax]))
            keep = [j for j in range(d) if j != ax]
            want = [(R(reg['_pmin'].elems[j]) + R(a[j]) * R(cell[j]), R(reg['_pmin'].elems[j]) + R(b[j]) * R(cell[j])) for j in keep]
        else:
            k_lo, k_hi = cell_of(E, m, probe(st.lo))[ax], cell_of(E, m, probe(st.hi))[ax]
            overlaps = z3.And(I(a[ax]) <= k_hi, k_lo < I(b[ax]))
            want = []
            for j in range(d):
                lo_l = z3.If(I(a[j]) >= k_lo, I(a[j]), k_lo) if j == ax else I(a[j])
                hi_l = z3.If(I(b[j]) <= k_hi + 1, I(b[j]), k_hi + 1) if j == ax else I(b[j])
                want.append((R(reg['_pmin'].elems[j]) + z3.ToReal(lo_l) * R(cell[j]), R(reg['_pmin'].elems[j]) + z3.ToReal(hi_l) * R(cell[j])))
        present = 'sr0' in subs
        out.append(('the subregion is kept exactly when it overlaps the selected cells', overlaps if present else z3.Not(overlaps)))
        if present:
            sr = subs['sr0'].attrs
            out.append(('kept subregion carries the dims / units of the new mesh', z3.BoolVal(sr['_dims'] == rreg['_dims'] and sr['_units'] == rreg['_units'])))
            for i, (wl, wh) in enumerate(want):
                out.append((f'kept subregion, remaining axis {i}: clipped to the selection (whole cells of the parent lattice)',
                            z3.And(R(sr['_pmin'].elems[i]) == wl, R(sr['_pmax'].elems[i]) == wh)))
                out.append((f'kept subregion, remaining axis {i}: inside the new mesh region',
                            z3.And(R(sr['_pmin'].elems[i]) >= R(rreg['_pmin'].elems[i]), R(sr['_pmax'].elems[i]) <= R(rreg['_pmax'].elems[i]), R(sr['_pmin'].elems[i]) < R(sr['_pmax'].elems[i]))))
        return out


# Mesh.sel with subregions goes through the Mesh.__init__ contract (its subregion clause = the setter contract proved above,
# applicable where the subregions handed over are syntactically on the lattice of the new mesh)
CONTRACTS = [SubregionsSetter(), IsAligned(), GetitemName(), SelWithSubregions()]
_BY_NAME = {c.name: c for c in CONTRACTS}
from .shared import Point2Index as _P2I
_USE = [RegionInit(), _P2I()]
_USE_SEL = [RegionInit(), _P2I(), MeshInit()]


def contract(name):
    return _BY_NAME[name]


def contracts_for_use():
    return _USE


INLINED = ['Mesh.__init__ (cell path, inlined into the setter and into __getitem__: exact-lattice arguments cancel algebraically)',
           'Mesh.is_aligned (inlined into the setter; also proved on its own)', 'Mesh.cell / n / region, Region.edges / pmin / pmax', 'Region.__contains__']
TRUSTED = ['contract of Region.__init__ (discharged under C01)',
           '[A] numpy element-wise arithmetic / remainder / allclose / logical_and on 1-d arrays']
ASSUMPTIONS = ['setter pre-states: the comparison tolerance is at most 1/1000 of a cell (tf*(|pmin|+|pmax|+min edge) <= min(cell)/1000)',
               'tolerance_factor fixed to the default 1e-12 in the mesh pre-states of C14',
               'rejection scenarios are stated 1%..99% of a cell away from the lattice (the tolerance band in between is left unspecified)']
BOUNDED_IN = ['number of subregions in the pre-state / in the assigned dict: <= 2 (each is a symbolic box); Mesh.sel with subregions: 1 symbolic subregion']
MUTANTS = {
    'sel_subregion_not_clipped': {'module': 'mesh', 'contract': 'Mesh.sel[subregions]', 'config': {'ndim': 1, 'axis': 0, 'kind': 'range'},
                                  'old': 'sub_p_1[dim_index] = max(min_val, sub_reg_p_min)', 'new': 'sub_p_1[dim_index] = sub_reg_p_min'},
    'sel_keeps_subregions_beside_the_plane': {'module': 'mesh', 'contract': 'Mesh.sel[subregions]', 'config': {'ndim': 2, 'axis': 0, 'kind': 'value'},
                                              'old': '                        selection > subreg.pmax[dim_index]\n                        or selection < subreg.pmin[dim_index]',
                                              'new': '                        selection > subreg.pmax[dim_index] + self.cell[dim_index]\n                        or selection < subreg.pmin[dim_index]'},
    'setter_skips_alignment': {'module': 'mesh', 'contract': 'Mesh.subregions.setter', 'config': {'ndim': 2, 'scen': 'frac_offset'},
                               'old': 'if not self.is_aligned(self.__class__(region=value, cell=self.cell)):', 'new': 'if False:'},
    'setter_keeps_foreign_units': {'module': 'mesh', 'contract': 'Mesh.subregions.setter', 'config': {'ndim': 2, 'scen': 'lattice'},
                                   'old': 'units=self.region.units,\n                tolerance_factor=self.region.tolerance_factor,\n            )\n            for name, sr in subregions.items()',
                                   'new': 'units=sr.units,\n                tolerance_factor=self.region.tolerance_factor,\n            )\n            for name, sr in subregions.items()'},
    'aligned_pmin_only': {'module': 'mesh', 'contract': 'Mesh.is_aligned', 'config': {'ndim': 2, 'scen': 'frac_offset'},
                          'old': 'np.greater(rem, tol), np.less(rem, np.subtract(self.cell, tol))\n            ).any():\n                return False',
                          'new': 'np.greater(rem, tol), np.less(rem, np.subtract(self.cell, tol))\n            ).all():\n                return False'},
}
