"""C15 - setting a norm rescales non-zero vectors only; orientation is the unit field (deductive part).

Under contract: Field.norm (getter), Field.norm.setter (number / per-cell array / function of position / None),
Field.orientation, Field.__init__(norm=...) (constructor order values -> norm -> validity) and
Field.update_field_values from ANY state (so a value update after a norm was set stores exactly the new
specification: nothing re-applies an earlier norm; together with the 'no attribute added' frame clause of the setter)."""
import z3
from . import fieldc, c03
from .fieldc import (FieldInit, NormGetter, Orientation, sym_field, user_callable, cell_index, inv_field, same_meta, default_vdims)
from .shared import RegionInit, MeshInit
from pyvc.core import *
from pyvc.contracts import Contract, State, conj, disj
from pyvc.states import inp, sym_mesh, _eq, snapshot, same_value, DIMS
from pyvc.ndarr import NDArr

ND = {'quick': (1, 2, 3), 'thorough': (1, 2, 3, 4)}
# four components: the non-linear length clauses (sum of four squares through the guarded quotients) are beyond nlsat within the budget
# (minutes per obligation, several undecided) - nvdim = 4 is left to the bounded tier, stated under BOUNDED_IN
NV = {'quick': (1, 3), 'thorough': (1, 2, 3)}


def target_at(E, st_mesh, val, cell, centre_cache):
    """the requested length at a cell: constant, per-cell array (shape (*n,1) or n) or function of the cell centre"""
    if isinstance(val, NDArr):
        if len(val.shape) == len(cell):
            return val.at(E, list(cell))
        return val.at(E, list(cell) + [0])
    if isinstance(val, Builtin):
        if 'c' not in centre_cache:
            centre_cache['c'] = E.call_method(st_mesh, 'index2point', [tuple(cell)], {})
        return val.f([centre_cache['c']], {})
    return val


def norm_clauses(E, old_a, new_a, t, nv, c=None):
    """the C15 statement for one cell: old_a/new_a = lists of the nv components before/after, t = requested length
    (stated per concrete component: no case split inside the solver)"""
    sq = z3.RealVal(0)
    nsq = z3.RealVal(0)
    for l in range(nv):
        sq = sq + R(old_a[l]) * R(old_a[l])
        nsq = nsq + R(new_a[l]) * R(new_a[l])
    tt = R(t)
    out = [('a non-zero cell has exactly the requested length: sum new^2 == t^2', z3.Implies(sq != 0, nsq == tt * tt))]
    for k in range(nv):
        nc, oc = R(new_a[k]), R(old_a[k])
        out.append((f'a zero cell is still zero (component {k})', z3.Implies(sq == 0, nc == 0)))
        # direction: the new vector is parallel to the old one (all 2x2 minors vanish) and points the same way for t > 0
        # (with the length clause this is  new == (t/|old|) * old  without naming the square root)
        for l in range(k + 1, nv):
            out.append((f'direction unchanged: new[{k}]*old[{l}] == new[{l}]*old[{k}] (parallel)', nc * R(old_a[l]) == R(new_a[l]) * oc))
        out.append((f'direction unchanged: new[{k}]*old[{k}] has the sign of the requested length',
                    z3.Implies(sq != 0, z3.And(z3.Implies(tt >= 0, nc * oc >= 0), z3.Implies(tt <= 0, nc * oc <= 0)))))
    return out


class NormSetter(Contract):
    name = 'Field.norm.setter'
    qual = ('Field', 'norm.setter')
    func = 'Field.norm.setter'

    def configs(s, tier):
        out = []
        for d in ND[tier]:
            for nv in NV[tier]:
                for k in ('number', 'array', 'callable'):
                    if tier == 'quick' and d == 3 and k == 'array' and nv == 1:
                        continue
                    out.append({'ndim': d, 'nvdim': nv, 'val': k})
        out += [{'ndim': 2, 'nvdim': 3, 'val': 'array_n'}, {'ndim': 2, 'nvdim': 3, 'val': 'none'}, {'ndim': 2, 'nvdim': 3, 'val': 'str'},
                {'ndim': 2, 'nvdim': 3, 'val': 'vector'}]
        return out

    def pre_state(s, E, cfg):
        d, nv = cfg['ndim'], cfg['nvdim']
        f, assume = sym_field(E, d, nv, unit='T')
        n = [E.pyscalar(x) for x in f.attrs['_mesh'].attrs['_n'].elems]
        k = cfg['val']
        if k == 'number':
            val = inp(E, 't', 'float')
        elif k == 'array':
            val = E.sym_array('t_A', n + [1], 'float')
        elif k == 'array_n':
            val = E.sym_array('t_A', n, 'float')
        elif k == 'callable':
            val = user_callable(E, 'usernorm', d, 1)
        elif k == 'none':
            val = None
        elif k == 'vector':
            val = (inp(E, 't0', 'float'), inp(E, 't1', 'float'))
        else:
            val = 'abc'
        st = State(f, [val], {})
        st.assume = assume
        st.kind = k
        return st

    def frame(s, E, st):
        out = [('mesh', st.self.attrs['_mesh'])]
        if isinstance(st.args[0], NDArr):
            out.append(('the given per-cell norm array', st.args[0]))
        return out

    def raises(s, E, st):
        if st.kind == 'str':
            return [('TypeError', True)]
        if st.kind == 'vector':
            return [('ValueError', True)]
        return []

    def post(s, E, st, result):
        f = st.self
        old = st.old['self'][2]
        out = [('Inv: ' + l, c) for l, c in inv_field(E, f)]
        # everything but the values is untouched, and no attribute is added (no norm is stored anywhere)
        for k, sv in old.items():
            if k != '_array':
                out.append((f'{k} unchanged', same_value(E, f.attrs.get(k), sv)))
        out.append(('no attribute added to the field (a norm is never stored)', sorted(f.attrs) == sorted(old)))
        arr = f.attrs.get('_array')
        if not isinstance(arr, NDArr):
            return out + [('array is an array', False)]
        nv = f.attrs['_nvdim']
        cell = cell_index(E, f)
        c = E.skolem([nv], 'c')[0]
        _, oarr, obuf, oget, oaxes, ofixed = old['_array']
        oa = [oget(NDArr(obuf, oaxes, ofixed).base_index(E, list(cell) + [l])) for l in range(nv)]
        na = [arr.at(E, list(cell) + [l]) for l in range(nv)]
        if st.kind == 'none':
            out.append(('norm=None leaves the values alone', R(E.select_list(na, c)) == R(E.select_list(oa, c))))
            return out
        t = target_at(E, f.attrs['_mesh'], st.args[0], cell, {})
        out += norm_clauses(E, oa, na, t, nv, c)
        if isinstance(st.args[0], NDArr):
            out.append(("the field's values do not share memory with the given norm array", arr.buf.id != st.args[0].buf.id))
        return out


class InitWithNorm(FieldInit):
    """Field(mesh, nvdim, value=<array>, norm=<number | array | function>, valid=<array>): values first, then the norm,
    then the validity (the validity never influences the rescaling)"""
    name = 'Field.__init__[norm]'

    def configs(s, tier):
        out = []
        for d in ND[tier]:
            for k in ('number', 'callable'):
                out.append({'ndim': d, 'nvdim': 3, 'norm': k})
        out += [{'ndim': 2, 'nvdim': 1, 'norm': 'number'}, {'ndim': 2, 'nvdim': 3, 'norm': 'array'}]
        return out

    def pre_state(s, E, cfg):
        d, nv = cfg['ndim'], cfg['nvdim']
        mesh, assume = sym_mesh(E, d, tf=1e-12)
        n = [E.pyscalar(x) for x in mesh.attrs['_n'].elems]
        value = E.sym_array('val_A', n + [nv], 'float')
        valid = E.sym_array('val_V', n, 'bool')
        k = cfg['norm']
        norm = inp(E, 't', 'float') if k == 'number' else (E.sym_array('t_A', n + [1], 'float') if k == 'array' else user_callable(E, 'usernorm', d, 1))
        st = s.bind(E, Obj('Field'), [mesh], {'nvdim': nv, 'value': value, 'norm': norm, 'valid': valid, 'unit': 'T'})
        st.assume = assume
        return st

    def requires(s, E, st):
        return [True]

    def raises(s, E, st):
        return []

    def post(s, E, st, result):
        f = st.self
        out = [('keeps the very mesh object', f.attrs.get('_mesh') is st.mesh)]
        out += [('Inv: ' + l, c) for l, c in inv_field(E, f)]
        arr, val = f.attrs.get('_array'), f.attrs.get('_valid')
        if not isinstance(arr, NDArr) or not isinstance(val, NDArr):
            return out + [('array and valid are arrays', False)]
        out.append(('the field owns its buffers', fieldc.owns_buffers(f, [x for x in (st.value, st.valid, st.norm) if isinstance(x, NDArr)])))
        nv = st.nvdim
        n = s._n(E, st)
        cell = E.skolem(n)
        c = E.skolem([nv], 'c')[0]
        oa = [st.value.at(E, list(cell) + [l]) for l in range(nv)]
        na = [arr.at(E, list(cell) + [l]) for l in range(nv)]
        t = target_at(E, st.mesh, st.norm, cell, {})
        out += norm_clauses(E, oa, na, t, nv, c)
        out.append(('valid[idx] == given validity (independent of the norm)', B(val.at(E, cell)) == B(st.valid.at(E, cell))))
        return out

    def fresh_result(s, E, st):
        raise Unsupported('Field.__init__[norm] is not used modularly')


class UpdateValues(Contract):
    """f.update_field_values(value) from ANY state: afterwards the array is exactly the new specification (an earlier norm,
    or anything else in the history, plays no role); everything else is untouched; a bad specification is rejected
    with the field unchanged."""
    name = 'Field.update_field_values'
    qual = ('Field', 'update_field_values')
    func = 'Field.update_field_values'

    def configs(s, tier):
        out = []
        for d in ND[tier]:
            for nv in NV[tier]:
                for k in ('array', 'vector', 'callable'):
                    out.append({'ndim': d, 'nvdim': nv, 'value': k})
        out += [{'ndim': 2, 'nvdim': 3, 'value': 'number'}, {'ndim': 2, 'nvdim': 1, 'value': 'number'}, {'ndim': 2, 'nvdim': 3, 'value': 'zero'},
                {'ndim': 2, 'nvdim': 3, 'value': 'array_wrong'}, {'ndim': 2, 'nvdim': 3, 'value': 'str'}, {'ndim': 2, 'nvdim': 3, 'value': 'vector_wrong'}]
        return out

    def pre_state(s, E, cfg):
        d, nv = cfg['ndim'], cfg['nvdim']
        f, assume = sym_field(E, d, nv, unit='T')
        n = [E.pyscalar(x) for x in f.attrs['_mesh'].attrs['_n'].elems]
        k = cfg['value']
        if k == 'array':
            v = E.sym_array('val_A', n + [nv], 'float')
        elif k == 'array_wrong':
            v = E.sym_array('val_A', n + [nv + 1], 'float')
        elif k == 'vector':
            v = tuple(inp(E, f'c{j}', 'float') for j in range(nv)) if nv > 1 else inp(E, 'c0', 'float')
        elif k == 'vector_wrong':
            v = tuple(inp(E, f'c{j}', 'float') for j in range(nv + 1))
        elif k == 'number':
            v = inp(E, 'c', 'float')
            if nv > 1:
                assume.append(R(v) != 0)
        elif k == 'zero':
            v = 0
        elif k == 'callable':
            v = user_callable(E, 'userval', d, nv)
        else:
            v = 'abc'
        st = State(f, [v], {})
        st.assume = assume
        st.kind = k
        return st

    def frame(s, E, st):
        out = [('mesh', st.self.attrs['_mesh'])]
        if isinstance(st.args[0], NDArr):
            out.append(('the given array', st.args[0]))
        return out

    def frame_on_raise(s, E, st):
        return [('self (a rejected specification leaves the field unchanged)', st.self)] + s.frame(E, st)

    def raises(s, E, st):
        k = st.kind
        if k == 'str':
            return [('TypeError', True)]
        if k in ('array_wrong', 'vector_wrong'):
            return [('ValueError', True)]
        if k == 'number' and st.self.attrs['_nvdim'] > 1:
            return [('ValueError', True)]
        return []

    def post(s, E, st, result):
        f = st.self
        old = st.old['self'][2]
        out = [('Inv: ' + l, c) for l, c in inv_field(E, f)]
        for k, sv in old.items():
            if k != '_array':
                out.append((f'{k} unchanged', same_value(E, f.attrs.get(k), sv)))
        out.append(('no attribute added', sorted(f.attrs) == sorted(old)))
        arr = f.attrs.get('_array')
        if not isinstance(arr, NDArr):
            return out + [('array is an array', False)]
        nv = f.attrs['_nvdim']
        cell = cell_index(E, f)
        c = E.skolem([nv], 'c')[0]
        v = st.args[0]
        if isinstance(v, NDArr):
            want = v.at(E, list(cell) + [c])
            out.append(("the field's values do not share memory with the given array", arr.buf.id != v.buf.id))
        elif isinstance(v, Builtin):
            centre = E.call_method(f.attrs['_mesh'], 'index2point', [tuple(cell)], {})
            r = v.f([centre], {})
            want = E.select_list(list(r), c) if isinstance(r, tuple) else r
        elif isinstance(v, tuple):
            want = E.select_list(list(v), c)
        else:
            want = v
        out.append(('array[idx, c] == the NEW specification at (idx, c) (nothing of the history is re-applied)', R(arr.at(E, list(cell) + [c])) == R(want)))
        return out


CONTRACTS = [NormGetter(), NormSetter(), Orientation(), InitWithNorm(), UpdateValues()]
_BY_NAME = {c.name: c for c in CONTRACTS}
setup_engine = c03.setup_engine


def contract(name):
    return _BY_NAME[name]


def contracts_for_use():
    return [RegionInit(), MeshInit(), FieldInit()]


INLINED = c03.INLINED + ['Field.norm getter (inlined into the setter and into orientation)', 'Mesh.indices / index2point (map-loop rule for functions of position)']
TRUSTED = c03.TRUSTED + ['[A] np.linalg.norm(axis=-1, keepdims=True): r >= 0 and r^2 = sum of squares (|x| for one component)',
                         '[A] np.divide(x, y, out=zeros, where=mask) writes x/y exactly where mask holds and leaves out elsewhere; returns out',
                         '[A] np.isclose(x, 0) == (|x| <= 1e-8)', '[A] ndarray *= broadcasts the right operand in place']
ASSUMPTIONS = c03.ASSUMPTIONS + ['the requested norm is a real number / real array / real-valued function (NaN and inf outside the model)']
BOUNDED_IN = ['deductive tier: 1-3 components (the non-linear length clauses for 4 components are undecided within the solver budget; covered by rt/c15.py)']
MUTANTS = {
    'setter_isclose_guard': {'module': 'field', 'contract': 'Field.norm.setter', 'config': {'ndim': 2, 'nvdim': 3, 'val': 'number'},
                             'old': """                out=np.zeros_like(self.array),
                where=self.norm.array != 0.0,""", 'new': """                out=np.zeros_like(self.array),
                where=~np.isclose(self.norm.array, 0),"""},
    'setter_small_vectors_dropped': {'module': 'field', 'contract': 'Field.norm.setter', 'config': {'ndim': 2, 'nvdim': 3, 'val': 'number'},
                            'old': """                out=np.zeros_like(self.array),
                where=self.norm.array != 0.0,""", 'new': """                out=np.zeros_like(self.array),
                where=self.norm.array > 1.0,"""},
    'setter_stores_norm': {'module': 'field', 'contract': 'Field.norm.setter', 'config': {'ndim': 2, 'nvdim': 3, 'val': 'number'},
                           'old': '            self.array *= self._as_array(val, self.mesh, nvdim=1, dtype=None)',
                           'new': '            self.array *= self._as_array(val, self.mesh, nvdim=1, dtype=None)\n            self._norm_target = val'},
    'orientation_threshold': {'expect': 'zero where the field is within the threshold', 'module': 'field', 'contract': 'Field.orientation', 'config': {'ndim': 2, 'nvdim': 3},
                              'old': 'where=np.invert(np.isclose(self.norm.array, 0)),', 'new': 'where=self.norm.array != 0.0,'},
}
