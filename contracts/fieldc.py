"""Field-level contracts: symbolic Field states (Inv(Field) of DESIGN §3), the constructor contract used
modularly by every operator, and the operator / validity contracts of C03, C08, C15, C06."""
import z3, fractions
from pyvc.core import *
from pyvc.contracts import Contract, State, conj, disj
from pyvc.states import inp, sym_mesh, _eq, old_attr, snapshot, DIMS, tofloat
from pyvc.ndarr import NDArr, NDInterp, dim_eq


def setup_engine(E):
    """property modules with field-level contracts run on the n-d array engine"""
    from pyvc.ndarr import NDInterp
    E2 = NDInterp(E.src)
    E2.inputs, E2.valuation = {}, None
    return E2


def default_vdims(nvdim):
    if 2 <= nvdim <= 3:
        return ['x', 'y', 'z'][:nvdim]
    if nvdim > 3:
        return [f'v{i}' for i in range(nvdim)]
    return None


def sym_field(E, ndim, nvdim, prefix='f', mesh=None, vdims='default', mapping='default', unit=None, assume=None, dtype=None, adtype='float'):
    assume = assume if assume is not None else []
    if mesh is None:
        mesh, assume = sym_mesh(E, ndim, prefix=prefix + 'm', assume=assume, tf=1e-12)
    n = [E.pyscalar(x) for x in mesh.attrs['_n'].elems]
    arr = E.sym_array(f'{prefix}_A', n + [nvdim], adtype)      # adtype 'int': an integer-typed value array (Field(..., dtype=int))
    val = E.sym_array(f'{prefix}_V', n, 'bool')
    dims = mesh.attrs['_region'].attrs['_dims']
    vd = default_vdims(nvdim) if vdims == 'default' else vdims
    if mapping == 'default':
        mp = dict(zip(vd, dims)) if (vd is not None and nvdim == len(dims) and nvdim > 1) else {}
    else:
        mp = dict(mapping)
    f = Obj('Field', {'_mesh': mesh, '_nvdim': nvdim, 'dtype': dtype, '_unit': unit, '_valid': val, '_array': arr,
                      '_vdims': list(vd) if vd is not None else None, '_vdim_mapping': mp})
    f.modelled_state = True
    return f, assume


def user_callable(E, name, ndim, nvdim, kind='float'):
    """a user-supplied function of position: nvdim uninterpreted functions of the ndim coordinates"""
    sort = z3.BoolSort() if kind == 'bool' else z3.RealSort()
    fs = [z3.Function(f'{name}_{c}', *([z3.RealSort()] * ndim), sort) for c in range(nvdim)]
    val = getattr(E, 'valuation', None)

    def call(a, k):
        p = E.iter_(a[0])
        if val is not None:
            # concrete replay / cross-check: a fixed affine function of position
            out = []
            for c in range(nvdim):
                r = fractions.Fraction(c + 1)
                for j, x in enumerate(p):
                    r = r + fractions.Fraction(j + 2) * (x if isinstance(x, fractions.Fraction) else fractions.Fraction(float(tofloat(x))))
                out.append((r > 0) if kind == 'bool' else r)
        else:
            out = [Sym(f(*[R(x) for x in p]), kind, False) for f in fs]
        return out[0] if nvdim == 1 else tuple(out)
    b = Builtin(name, call)
    b.fs, b.kind, b.nvdim, b.ndim = fs, kind, nvdim, ndim

    def realize(rz, b=b):
        def real_fn(p):
            r = []
            for c in range(nvdim):
                acc = float(c + 1)
                for j, x in enumerate(p):
                    acc = acc + float(j + 2) * float(x)
                r.append((acc > 0) if kind == 'bool' else acc)
            return r[0] if nvdim == 1 else tuple(r)
        return real_fn
    b.__realize__ = realize
    return b


def cell_index(E, field_or_n, name='ix'):
    n = field_or_n.attrs['_mesh'].attrs['_n'].elems if isinstance(field_or_n, Obj) else field_or_n
    return E.skolem([E.pyscalar(x) for x in n], name)


def inv_field(E, f):
    """Inv(Field) as (label, Bool/bool) list"""
    a = f.attrs
    out = []
    m = a.get('_mesh')
    ok = isinstance(m, Obj) and m.cls == 'Mesh'
    out.append(('mesh is a Mesh', ok))
    if not ok:
        return out
    n = [E.pyscalar(x) for x in m.attrs['_n'].elems]
    arr, val, nv = a.get('_array'), a.get('_valid'), a.get('_nvdim')
    okA = isinstance(arr, NDArr) and len(arr.shape) == len(n) + 1
    out.append(('array has rank ndim+1', okA))
    if okA:
        out.append(('array.shape == (*n, nvdim)', conj([shape_eq(E, x, y) for x, y in zip(arr.shape, n + [nv])])))
    okV = isinstance(val, NDArr) and len(val.shape) == len(n)
    out.append(('valid has rank ndim', okV))
    if okV:
        out.append(('valid.shape == n', conj([shape_eq(E, x, y) for x, y in zip(val.shape, n)])))
        out.append(('valid is Boolean', val.dtype == 'bool'))
    vd = a.get('_vdims')
    out.append(('vdims None or nvdim unique labels', vd is None or (isinstance(vd, list) and len(vd) == nv and len(set(vd)) == nv)))
    mp = a.get('_vdim_mapping')
    out.append(('vdim_mapping keys are the vdims (or empty)', isinstance(mp, dict) and (len(mp) == 0 or (vd is not None and sorted(mp) == sorted(vd)))))
    return out


def shape_eq(E, x, y):
    if isinstance(x, int) and isinstance(y, int):
        return x == y
    return I(x) == I(y)


def owns_buffers(f, others):
    """freshness: no buffer of f is a buffer of any other given Field / array"""
    mine = {f.attrs['_array'].buf.id, f.attrs['_valid'].buf.id}
    theirs = set()
    for o in others:
        if isinstance(o, Obj) and o.cls == 'Field':
            theirs |= {o.attrs['_array'].buf.id, o.attrs['_valid'].buf.id}
        elif isinstance(o, NDArr):
            theirs.add(o.buf.id)
    return not (mine & theirs) and f.attrs['_array'].buf.id != f.attrs['_valid'].buf.id


# ====================================================================== Field.__init__
class FieldInit(Contract):
    """Field(mesh, nvdim=, value=<array | number | constant vector>, vdims=, unit=, valid=<array | bool>, vdim_mapping=, dtype=)
    as used by every operator of the class (norm=None; callable / dict / Field values are outside this contract)."""
    name = 'Field.__init__'
    qual = ('Field', '__init__')
    func = 'Field.__init__'

    def configs(s, tier):
        out = []
        for d in (1, 2, 3) if tier == 'quick' else (1, 2, 3, 4):
            for nv in (1, 3) if tier == 'quick' else (1, 2, 3, 4):
                out.append({'ndim': d, 'nvdim': nv, 'value': 'array', 'valid': 'array'})
        out += [{'ndim': 2, 'nvdim': 2, 'value': 'array', 'valid': 'array', 'vdims': 'custom', 'mapping': 'permuted'},
                {'ndim': 2, 'nvdim': 3, 'value': 'vector', 'valid': 'true'},
                {'ndim': 2, 'nvdim': 1, 'value': 'number', 'valid': 'true'},
                {'ndim': 2, 'nvdim': 1, 'value': 'array_n', 'valid': 'array'},
                {'ndim': 2, 'nvdim': 3, 'value': 'number', 'valid': 'true'},
                {'ndim': 2, 'nvdim': 3, 'value': 'zero', 'valid': 'true'},
                {'ndim': 2, 'nvdim': 3, 'value': 'array_wrong', 'valid': 'true'},
                {'ndim': 2, 'nvdim': 2, 'value': 'array', 'valid': 'array', 'vdims': 'dup'},
                {'ndim': 2, 'nvdim': 2, 'value': 'array', 'valid': 'array', 'vdims': 'len'},
                {'ndim': 2, 'nvdim': 2, 'value': 'array', 'valid': 'array', 'mapping': 'badkeys'},
                {'ndim': 2, 'nvdim': 2, 'value': 'str', 'valid': 'true'},
                {'ndim': 2, 'nvdim': 0, 'value': 'number', 'valid': 'true'}]
        for d in (1, 2, 3) if tier == 'quick' else (1, 2, 3, 4):
            out += [{'ndim': d, 'nvdim': 3, 'value': 'callable', 'valid': 'true'}, {'ndim': d, 'nvdim': 1, 'value': 'callable', 'valid': 'callable'}]
        # declared storage type (dtype=int): real numbers handed over are truncated into the integer array, integer data are kept;
        # without the keyword integer data are stored as floating numbers (max(dtype, float64))
        out += [{'ndim': 2, 'nvdim': 2, 'value': 'array', 'valid': 'array', 'dtype': 'int'},
                {'ndim': 1, 'nvdim': 3, 'value': 'array', 'valid': 'array', 'dtype': 'int', 'vtype': 'int'},
                {'ndim': 2, 'nvdim': 3, 'value': 'vector', 'valid': 'true', 'dtype': 'int'},
                {'ndim': 2, 'nvdim': 1, 'value': 'number', 'valid': 'true', 'dtype': 'int'},
                {'ndim': 2, 'nvdim': 1, 'value': 'array_n', 'valid': 'array', 'dtype': 'int'},
                {'ndim': 2, 'nvdim': 2, 'value': 'array', 'valid': 'array', 'vtype': 'int'},
                {'ndim': 2, 'nvdim': 1, 'value': 'array_n', 'valid': 'array', 'vtype': 'int'}]
        # mesh axes that carry the very names of the default component labels, in another order: the default mapping
        # pairs component j with axis j (by position), never by the spelling of the names
        out += [{'ndim': 3, 'nvdim': 3, 'value': 'array', 'valid': 'array', 'dims': ('z', 'x', 'y')},
                {'ndim': 2, 'nvdim': 2, 'value': 'array', 'valid': 'array', 'dims': ('y', 'x')}]
        return out

    def pre_state(s, E, cfg):
        d, nv = cfg['ndim'], cfg['nvdim']
        mesh, assume = sym_mesh(E, d, tf=1e-12, dims=cfg.get('dims'))
        n = [E.pyscalar(x) for x in mesh.attrs['_n'].elems]
        vk = cfg['value']
        vt = cfg.get('vtype', 'float')
        if vk == 'array':
            value = E.sym_array('val_A', n + [nv], vt)
        elif vk == 'array_n':
            value = E.sym_array('val_A', n, vt)
        elif vk == 'array_wrong':
            value = E.sym_array('val_A', n + [nv + 1], 'float')
        elif vk == 'vector':
            value = tuple(inp(E, f'c{j}', 'float') for j in range(nv))
        elif vk == 'number':
            value = inp(E, 'c', 'float')
            if nv > 1:
                assume.append(R(value) != 0)
        elif vk == 'zero':
            value = 0
        elif vk == 'callable':
            value = user_callable(E, 'userval', d, nv)
        else:
            value = 'abc'
        valid = E.sym_array('val_V', n, 'bool') if cfg['valid'] == 'array' else (user_callable(E, 'uservalid', d, 1, 'bool') if cfg['valid'] == 'callable' else True)
        kw = {'nvdim': nv, 'value': value, 'valid': valid, 'unit': 'T'}
        if cfg.get('dtype'):
            kw['dtype'] = TypeTag(cfg['dtype'])
        dims = mesh.attrs['_region'].attrs['_dims']
        vd = cfg.get('vdims')
        if vd == 'custom':
            kw['vdims'] = ['p', 'q', 'r', 's'][:nv]
        elif vd == 'dup':
            kw['vdims'] = ['p'] * nv
        elif vd == 'len':
            kw['vdims'] = ['p', 'q', 'r', 's'][:nv + 1]
        mp = cfg.get('mapping')
        if mp == 'permuted':
            kw['vdim_mapping'] = dict(zip(kw['vdims'], reversed(dims[:nv])))
        elif mp == 'badkeys':
            kw['vdim_mapping'] = {'u': dims[0], 'w': dims[1]}
        st = s.bind(E, Obj('Field'), [mesh], kw)
        st.assume = assume
        return st

    def bind(s, E, selfobj, args, kw):
        names = ['mesh', 'nvdim', 'value', 'norm', 'vdims', 'dtype', 'unit', 'valid', 'vdim_mapping']
        a = dict(zip(names, args))
        a.update(kw)
        st = State(selfobj, args, kw)
        st.mesh, st.nvdim, st.value = a.get('mesh'), a.get('nvdim'), a.get('value', 0.0)
        st.norm, st.vdims, st.dtype, st.unit = a.get('norm'), a.get('vdims'), a.get('dtype'), a.get('unit')
        st.valid, st.mapping = a.get('valid', True), a.get('vdim_mapping')
        if isinstance(st.vdims, Vec):
            st.vdims = list(st.vdims.elems)
        return st

    def frame(s, E, st):
        out = [('mesh', st.mesh)] if isinstance(st.mesh, Obj) else []
        return out

    def requires(s, E, st):
        return [isinstance(st.mesh, Obj) and st.mesh.cls == 'Mesh', st.norm is None,
                isinstance(st.nvdim, int), st.unit is None or isinstance(st.unit, str),
                isinstance(st.value, (NDArr, Sym, int, float, tuple, list, Vec, str, Builtin)) or type(st.value).__name__ == 'Fraction',
                isinstance(st.valid, (NDArr, bool, Builtin)),
                st.dtype is None or (isinstance(st.dtype, TypeTag) and st.dtype.name in ('int', 'float', 'bool'))]

    def stored(s, E, st, kind, want):
        """(storage kind, stored value) of one entry: the declared dtype converts (float -> int truncates towards zero);
        without a declared dtype integers become floating numbers.  (An n-shaped array for a scalar field passes _as_array twice -
        update_field_values and the array setter - so it is converted like every other form.)"""
        own = st.value.dtype if isinstance(st.value, NDArr) else None
        dt = st.dtype.name if isinstance(st.dtype, TypeTag) else None
        if dt == 'int':
            return 'int', E.trunc_int(want)
        if dt == 'bool':
            return 'bool', E.asbool(want)
        return ('complex' if own == 'complex' else 'float'), want

    # -- shape classification of the value specification
    def _n(s, E, st):
        return [E.pyscalar(x) for x in st.mesh.attrs['_n'].elems]

    def value_kind(s, E, st):
        """'full' (*n, nvdim) | 'n' (shape n, nvdim 1) | 'vector' (nvdim,) | 'scalar' | 'bad'   (+ the ValueError condition)"""
        v, nv, n = st.value, st.nvdim, s._n(E, st)
        if isinstance(v, str):
            return 'str', None
        if isinstance(v, Builtin):
            return 'callable', None
        if isinstance(v, NDArr):
            sh = v.shape
            if nv == 1 and len(sh) == len(n) and all(dim_eq(E, a, b) is True for a, b in zip(sh, n)):
                return 'n', None
            if not (isinstance(sh[-1], int) and sh[-1] == nv):
                return 'bad', None
            if len(sh) == len(n) + 1 and all(dim_eq(E, a, b) is True for a, b in zip(sh[:-1], n)):
                return 'full', None
            if len(sh) == 1:
                return 'vector', None
            return 'bad', None
        if isinstance(v, (tuple, list, Vec)):
            ln = len(v.elems) if isinstance(v, Vec) else len(v)
            return ('vector', None) if ln == nv else ('bad', None)
        return 'scalar', None

    def _vdims(s, st):
        nv = st.nvdim
        if st.vdims is None:
            return default_vdims(nv)
        if len(st.vdims) == 0:
            return None
        return list(st.vdims)

    def _mapping(s, st, vdims):
        nv = st.nvdim
        dims = st.mesh.attrs['_region'].attrs['_dims']
        m = st.mapping
        if m is None:
            if nv == 1:
                return {}
            if nv == len(dims):
                return dict(zip(vdims, dims))
            return {}
        if len(m) == 1 and nv == 1 and vdims is None:
            return {}
        return m

    def raises(s, E, st):
        if not isinstance(st.nvdim, int):
            return [('TypeError', True)]
        if st.nvdim < 1:
            return [('ValueError', True)]
        kind, _ = s.value_kind(E, st)
        out = []
        if kind == 'str':
            return [('TypeError', True)]
        if kind == 'bad':
            return [('ValueError', True)]
        if kind == 'scalar' and st.nvdim > 1:
            out.append(('ValueError', R(st.value) != 0 if not isinstance(st.value, bool) else st.value))
        vd = st.vdims
        if vd is not None and len(vd) > 0:
            if not all(isinstance(x, str) for x in vd):
                return out + [('TypeError', True)]
            if len(vd) != st.nvdim or len(set(vd)) != len(vd):
                return out + [('ValueError', True)]
            if any(x in FIELD_ATTRS for x in vd):
                return out + [('ValueError', True)]
        if st.mapping is not None:
            if not isinstance(st.mapping, dict):
                return out + [('TypeError', True)]
            vdr = s._vdims(st)
            if not (len(st.mapping) == 1 and st.nvdim == 1 and vdr is None) and len(st.mapping) > 0 and sorted(st.mapping) != sorted(vdr or []):
                return out + [('ValueError', True)]
        return out

    def post(s, E, st, result):
        f = st.self
        out = [('keeps the very mesh object', f.attrs.get('_mesh') is st.mesh),
               ('nvdim stored', f.attrs.get('_nvdim') == st.nvdim), ('unit stored', f.attrs.get('_unit') == st.unit)]
        out += [('Inv: ' + l, c) for l, c in inv_field(E, f)]
        arr, val = f.attrs.get('_array'), f.attrs.get('_valid')
        if not isinstance(arr, NDArr) or not isinstance(val, NDArr):
            return out + [('array and valid are arrays', False)]
        out.append(('the field owns its buffers (array and valid are fresh, not views of the arguments)',
                    owns_buffers(f, [x for x in (st.value, st.valid) if isinstance(x, NDArr)])))
        n = s._n(E, st)
        idx = E.skolem(n + [st.nvdim])
        kind, _ = s.value_kind(E, st)
        v = st.value
        centre = None
        if kind == 'callable' or isinstance(st.valid, Builtin):
            # the cell centre as defined by Mesh.index2point (its contract is discharged under C01)
            centre = E.call_method(st.mesh, 'index2point', [tuple(idx[:-1])], {})
        if kind == 'callable':
            r = v.f([centre], {})
            want = E.select_list(list(r), idx[-1]) if isinstance(r, tuple) else r
        elif kind == 'full':
            want = v.at(E, idx)
        elif kind == 'n':
            want = v.at(E, idx[:-1])
        elif kind == 'vector':
            el = list(v.elems) if isinstance(v, Vec) else (list(v) if not isinstance(v, NDArr) else [v.at(E, [l]) for l in range(st.nvdim)])
            want = E.select_list(el, idx[-1])
        else:
            want = v
        skind, swant = s.stored(E, st, kind, want)
        out.append(('array[idx, c] == value specification at (idx, c)' + (' converted to the declared integer type (truncation)' if skind == 'int' else ''),
                    R(arr.at(E, idx)) == R(swant)))
        if kind != 'callable':
            out.append(('storage type of the array: the declared dtype, else floating', arr.dtype == skind))
        if isinstance(st.valid, Builtin):
            wv = st.valid.f([centre], {})
        else:
            wv = st.valid.at(E, idx[:-1]) if isinstance(st.valid, NDArr) else st.valid
        out.append(('valid[idx] == given validity (evaluated at the cell centre for a function)', B(val.at(E, idx[:-1])) == B(wv)))
        vd = s._vdims(st)
        out.append(('vdims: given labels or defaults', _eq(E, f.attrs.get('_vdims'), vd)))
        out.append(('vdim_mapping: given mapping or default', f.attrs.get('_vdim_mapping') == s._mapping(st, vd)))
        return out

    def fresh_result(s, E, st):
        f = st.self
        n = s._n(E, st)
        nv = st.nvdim
        kind, _ = s.value_kind(E, st)
        v = st.value
        if kind == 'full':
            g = lambda idx: E.to_float(v.at(E, idx))
        elif kind == 'n':
            g = lambda idx: E.to_float(v.at(E, idx[:-1]))
        elif kind == 'vector':
            el = list(v.elems) if isinstance(v, Vec) else (list(v) if not isinstance(v, NDArr) else None)
            g = (lambda idx: E.to_float(E.select_list(el, idx[-1]))) if el is not None else (lambda idx: E.to_float(v.at(E, [idx[-1]])))
        else:
            g = lambda idx: E.to_float(v)
        dt = 'float'
        if isinstance(v, NDArr) and v.dtype == 'complex':
            dt, g0 = 'complex', g
        if isinstance(st.dtype, TypeTag) and st.dtype.name == 'int':
            dt, g1 = 'int', g
            g = lambda idx: E.trunc_int(g1(idx))
        elif isinstance(st.dtype, TypeTag) and st.dtype.name == 'bool':
            dt, g2 = 'bool', g
            g = lambda idx: E.asbool(g2(idx))
        vd = s._vdims(st)
        f.attrs.update({'_mesh': st.mesh, '_nvdim': nv, 'dtype': st.dtype, '_unit': st.unit,
                        '_array': E.fresh_buf(n + [nv], g, dt, 'Field.array'),
                        '_valid': E.fresh_buf(n, (lambda idx: E.asbool(st.valid.at(E, idx))) if isinstance(st.valid, NDArr) else (lambda idx: bool(st.valid)), 'bool', 'Field.valid'),
                        '_vdims': list(vd) if vd is not None else None, '_vdim_mapping': s._mapping(st, vd)})
        return None


FIELD_ATTRS = set()


# ====================================================================== operators (C03 / C08)
def same_meta(E, res, ref, unit=False):
    out = [('component labels as the operand', _eq(E, res.attrs.get('_vdims'), ref.attrs.get('_vdims'))),
           ('component-to-axis mapping as the operand', res.attrs.get('_vdim_mapping') == ref.attrs.get('_vdim_mapping'))]
    if unit:
        out.append(('unit as the operand', res.attrs.get('_unit') == ref.attrs.get('_unit')))
    return out


def field_result_base(E, st, result, operands):
    out = [('result is a new Field', isinstance(result, Obj) and result.cls == 'Field' and all(result is not o for o in operands))]
    if not isinstance(result, Obj) or result.cls != 'Field':
        return out, False
    out.append(('result lives on the very mesh object of the operand', result.attrs.get('_mesh') is st.self.attrs['_mesh']))
    out += [('Inv: ' + l, c) for l, c in inv_field(E, result)]
    if isinstance(result.attrs.get('_array'), NDArr) and isinstance(result.attrs.get('_valid'), NDArr):
        out.append(("the result's values and validity are its own (no buffer shared with an operand)", owns_buffers(result, operands)))
        return out, True
    return out, False


UNARY = {'__neg__': lambda E, x: E.neg(x), '__abs__': lambda E, x: E.absv(x), '__pos__': lambda E, x: x}


class UnaryOp(Contract):
    def __init__(s, meth):
        s.meth = meth
        s.name = f'Field.{meth}'
        s.qual = ('Field', meth)
        s.func = f'Field.{meth}'

    def configs(s, tier):
        out = [{'ndim': d, 'nvdim': nv} for d in ((1, 2, 3) if tier == 'quick' else (1, 2, 3, 4)) for nv in ((1, 3) if tier == 'quick' else (1, 2, 3, 4))]
        out += [{'ndim': 2, 'nvdim': 2, 'vdims': 'custom'}, {'ndim': 3, 'nvdim': 3, 'vdims': 'custom', 'mapping': 'permuted'}]
        return out

    def pre_state(s, E, cfg):
        kw = {}
        if cfg.get('vdims') == 'custom':
            kw['vdims'] = ['p', 'q', 'r', 's'][:cfg['nvdim']]
            if cfg.get('mapping') == 'permuted':
                kw['mapping'] = dict(zip(kw['vdims'], reversed(DIMS[:cfg['ndim']])))
            else:
                kw['mapping'] = dict(zip(kw['vdims'], DIMS[:cfg['ndim']]))
        f, assume = sym_field(E, cfg['ndim'], cfg['nvdim'], unit='T', **kw)
        st = State(f, [], {})
        st.assume = assume
        return st

    def frame(s, E, st):
        return [('self', st.self)]

    def post(s, E, st, result):
        f = st.self
        out, ok = field_result_base(E, st, result, [f])
        if not ok:
            return out
        idx = cell_index(E, f) + E.skolem([f.attrs['_nvdim']], 'c')
        out.append(('array[idx, c] == op(self.array[idx, c])', R(result.attrs['_array'].at(E, idx)) == R(UNARY[s.meth](E, f.attrs['_array'].at(E, idx)))))
        out.append(('valid[idx] == self.valid[idx]', B(result.attrs['_valid'].at(E, idx[:-1])) == B(f.attrs['_valid'].at(E, idx[:-1]))))
        out.append(('same number of components', result.attrs['_nvdim'] == f.attrs['_nvdim']))
        out += same_meta(E, result, f)
        return out


BINARY = {'__add__': '+', '__sub__': '-', '__mul__': '*', '__truediv__': '/', '__pow__': '**',
          '__radd__': '+', '__rsub__': '-', '__rmul__': '*', '__rtruediv__': '/', '__rpow__': '**'}


def cell_op(E, op, x, y):
    if op == '**':
        return E.uf_app('power', x, y)
    if op == '/':
        return E.cell_div(x, y)
    return E.arith(op, x, y)


class BinaryOp(Contract):
    """self (op) other with other in {field of the same nvdim, scalar field, number, constant vector, per-cell array}"""

    def __init__(s, meth):
        s.meth = meth
        s.name = f'Field.{meth}'
        s.qual = ('Field', meth)
        s.func = f'Field.{meth}'
        s.reflected = meth.startswith('__r')

    def configs(s, tier):
        out = []
        nds = (1, 2, 3) if tier == 'quick' else (1, 2, 3, 4)
        for d in nds:
            for nv, other in ((3, 'field'), (1, 'field'), (3, 'scalarfield'), (1, 'vectorfield'), (3, 'number'), (3, 'vector'), (3, 'array'), (1, 'number')):
                if s.reflected and other in ('field', 'scalarfield', 'vectorfield'):
                    continue
                if d == 3 and tier == 'quick' and other in ('vector', 'array') and s.meth not in ('__add__', '__mul__'):
                    continue
                out.append({'ndim': d, 'nvdim': nv, 'other': other})
        # a scalar field combined with a constant vector broadcasts to that many components - for EVERY number of cells, also
        # when the vector happens to be as long as the (1-d) mesh has cells (n is symbolic: the coincidence is one of the paths)
        out += [{'ndim': 1, 'nvdim': 1, 'other': 'vector3'}, {'ndim': 2, 'nvdim': 1, 'other': 'vector2'}]
        if not s.reflected:
            out += [{'ndim': 2, 'nvdim': 3, 'other': 'field_other_mesh'}, {'ndim': 2, 'nvdim': 3, 'other': 'field_nvdim2'},
                    {'ndim': 2, 'nvdim': 3, 'other': 'str'}, {'ndim': 2, 'nvdim': 3, 'other': 'vector_len2'}]
        return out

    def pre_state(s, E, cfg):
        d, nv, ok = cfg['ndim'], cfg['nvdim'], cfg['other']
        f, assume = sym_field(E, d, nv, unit='T', vdims=(['p', 'q', 'r'][:nv] if nv > 1 else None),
                              mapping=(dict(zip(['p', 'q', 'r'][:nv], reversed(DIMS[:d]))) if nv == d and nv > 1 else {}))
        mesh = f.attrs['_mesh']
        n = [E.pyscalar(x) for x in mesh.attrs['_n'].elems]
        if ok == 'field':
            other, assume = sym_field(E, d, nv, prefix='g', mesh=mesh, assume=assume, vdims=(['u', 'v', 'w'][:nv] if nv > 1 else None), mapping={})
        elif ok == 'scalarfield':
            other, assume = sym_field(E, d, 1, prefix='g', mesh=mesh, assume=assume)
        elif ok == 'vectorfield':
            other, assume = sym_field(E, d, 3, prefix='g', mesh=mesh, assume=assume, vdims=['u', 'v', 'w'], mapping=(dict(zip(['u', 'v', 'w'], DIMS[:3])) if d == 3 else {}))
        elif ok == 'field_nvdim2':
            other, assume = sym_field(E, d, 2, prefix='g', mesh=mesh, assume=assume)
        elif ok == 'field_other_mesh':
            other, assume = sym_field(E, d, nv, prefix='g', assume=assume)
            # a mesh that differs by more than the comparison tolerance: shifted by at least one cell
            r1, r2 = mesh.attrs['_region'].attrs, other.attrs['_mesh'].attrs['_region'].attrs
            assume.append(R(r2['_pmin'].elems[0]) >= R(r1['_pmax'].elems[0]))
        elif ok == 'number':
            other = inp(E, 'c', 'float')
        elif ok == 'vector':
            other = tuple(inp(E, f'c{j}', 'float') for j in range(nv))
        elif ok == 'vector_len2':
            other = (inp(E, 'c0', 'float'), inp(E, 'c1', 'float'))
        elif ok in ('vector3', 'vector2'):
            other = tuple(inp(E, f'c{j}', 'float') for j in range(int(ok[-1])))
        elif ok == 'array':
            other = E.sym_array('o_A', n + [nv], 'float')
        else:
            other = 'abc'
        st = State(f, [other], {})
        st.assume = assume
        st.kind = ok
        return st

    def frame(s, E, st):
        return [('self', st.self)] + ([('other', st.args[0])] if isinstance(st.args[0], Obj) else [])

    def raises(s, E, st):
        k = st.kind
        if k == 'str':
            return [('TypeError', True)]
        if k in ('field_other_mesh', 'field_nvdim2'):
            return [('ValueError', True)]
        if k == 'vector_len2':
            return [('TypeError', True)]
        return []

    def post(s, E, st, result):
        f, o = st.self, st.args[0]
        ops = [f] + ([o] if isinstance(o, (Obj, NDArr)) else [])
        out, ok = field_result_base(E, st, result, ops)
        if not ok:
            return out
        nv = max(f.attrs['_nvdim'], o.attrs['_nvdim'] if isinstance(o, Obj) else (len(o) if isinstance(o, tuple) else 1))
        out.append(('number of components = broadcast of the operands', result.attrs['_nvdim'] == nv))
        idx = cell_index(E, f) + E.skolem([nv], 'c')
        cell, c = idx[:-1], idx[-1]
        a = f.attrs['_array'].at(E, cell + [c if f.attrs['_nvdim'] > 1 else 0])
        if isinstance(o, Obj):
            b = o.attrs['_array'].at(E, cell + [c if o.attrs['_nvdim'] > 1 else 0])
        elif isinstance(o, NDArr):
            b = o.at(E, idx)
        elif isinstance(o, tuple):
            b = E.select_list(list(o), c)
        else:
            b = o
        op = BINARY[s.meth]
        x, y = (b, a) if s.reflected and op in ('-', '/', '**') else (a, b)
        out.append(('array[idx, c] == self[idx, c] (op) other[idx, c] under numpy broadcasting', R(result.attrs['_array'].at(E, idx)) == R(cell_op(E, op, x, y))))
        wv = B(f.attrs['_valid'].at(E, cell))
        if isinstance(o, Obj):
            wv = z3.And(wv, B(o.attrs['_valid'].at(E, cell)))
        out.append(('valid[idx] == AND of the operand validities', B(result.attrs['_valid'].at(E, cell)) == wv))
        # labels / mapping: those of the operand that has the result's component count (self first)
        ref = f if f.attrs['_nvdim'] == nv else (o if isinstance(o, Obj) else None)
        if ref is not None:
            out += same_meta(E, result, ref)
        return out


# ====================================================================== generic "method returning a field" contract
class FieldMethod(Contract):
    """f.<method/property>(*args) -> Field ; `spec(E, st, result, idx)` yields the per-cell clauses"""
    nvs = (1, 3)
    needs_nv = None          # restrict to these nvdim
    extra_cfg = ()
    unit_kept = False
    meta = 'same'            # 'same' | 'scalar' | None
    result_nvdim = 'same'    # 'same' | int

    def __init__(s, meth, prop=False):
        s.meth = meth
        s.name = f'Field.{meth}'
        s.qual = ('Field', meth)
        s.func = f'Field.{meth}'

    def configs(s, tier):
        nds = (1, 2, 3) if tier == 'quick' else (1, 2, 3, 4)
        nvs = s.needs_nv or ((1, 3) if tier == 'quick' else (1, 2, 3, 4))
        return [{'ndim': d, 'nvdim': nv} for d in nds for nv in nvs] + list(s.extra_cfg)

    def make_field(s, E, cfg, **kw):
        nv, d = cfg['nvdim'], cfg['ndim']
        vd = ['p', 'q', 'r', 's'][:nv] if nv > 1 else None
        mp = dict(zip(vd, reversed(DIMS[:d]))) if (vd and nv == d) else {}
        if cfg.get('adtype'):
            kw.setdefault('adtype', cfg['adtype'])
        return sym_field(E, d, nv, unit='T', vdims=vd, mapping=mp, **kw)

    def make_args(s, E, cfg, f, assume):
        return [], {}

    def pre_state(s, E, cfg):
        f, assume = s.make_field(E, cfg)
        args, kw = s.make_args(E, cfg, f, assume)
        st = State(f, args, kw)
        st.assume = assume
        st.cfg = cfg
        return st

    def frame(s, E, st):
        return [('self', st.self)] + [(f'arg{j}', a) for j, a in enumerate(st.args) if isinstance(a, Obj)]

    def operands(s, st):
        return [st.self] + [a for a in st.args if isinstance(a, (Obj, NDArr))]

    def post(s, E, st, result):
        f = st.self
        out, ok = field_result_base(E, st, result, s.operands(st))
        if not ok:
            return out
        nv = f.attrs['_nvdim'] if s.result_nvdim == 'same' else s.result_nvdim
        out.append(('number of components', result.attrs['_nvdim'] == nv))
        idx = cell_index(E, f) + E.skolem([nv], 'c')
        out += s.spec(E, st, result, idx)
        if s.meta == 'same':
            out += same_meta(E, result, f, unit=s.unit_kept)
        elif s.unit_kept:
            out.append(('unit as the operand', result.attrs.get('_unit') == f.attrs.get('_unit')))
        return out

    # helpers for specs
    def A(s, E, f, cell, c):
        return f.attrs['_array'].at(E, list(cell) + [c])

    def V(s, E, f, cell):
        return B(f.attrs['_valid'].at(E, list(cell)))

    def valid_same(s, E, st, result, idx):
        return ('valid[idx] == self.valid[idx]', B(result.attrs['_valid'].at(E, idx[:-1])) == s.V(E, st.self, idx[:-1]))


class Component(FieldMethod):
    """f.<label> : the matching column as a one-component field"""
    needs_nv = (2, 3)
    result_nvdim = 1
    meta = None
    unit_kept = True

    def __init__(s):
        FieldMethod.__init__(s, '__getattr__')

    def configs(s, tier):
        base = FieldMethod.configs(s, tier)
        out = []
        for c in base:
            for comp in range(c['nvdim']):
                out.append(dict(c, comp=comp))
        return out + [{'ndim': 2, 'nvdim': 3, 'comp': 'missing'}, {'ndim': 2, 'nvdim': 1, 'comp': 'missing'}]

    def make_args(s, E, cfg, f, assume):
        if cfg['comp'] == 'missing':
            return ['nolabel'], {}
        return [f.attrs['_vdims'][cfg['comp']]], {}

    def raises(s, E, st):
        vd = st.self.attrs['_vdims']
        return [('AttributeError', vd is None or st.args[0] not in vd)]

    def spec(s, E, st, result, idx):
        f = st.self
        k = f.attrs['_vdims'].index(st.args[0])
        out = [('array[idx, 0] == self.array[idx, position of the label]', R(result.attrs['_array'].at(E, idx[:-1] + [0])) == R(s.A(E, f, idx[:-1], k))),
               s.valid_same(E, st, result, idx)]
        mp = f.attrs['_vdim_mapping']
        want = {st.args[0]: mp[st.args[0]]} if st.args[0] in mp else {}
        # a one-component field without labels cannot hold a mapping (constructor rule): stays empty
        out.append(('mapping of the component (none for an unlabelled scalar result)', result.attrs['_vdim_mapping'] in ({}, want)))
        return out


class NormGetter(FieldMethod):
    result_nvdim = 1
    meta = None
    unit_kept = True

    def __init__(s):
        FieldMethod.__init__(s, 'norm')

    def spec(s, E, st, result, idx):
        f = st.self
        nv = f.attrs['_nvdim']
        r = R(result.attrs['_array'].at(E, idx[:-1] + [0]))
        sq = z3.RealVal(0)
        for l in range(nv):
            x = R(s.A(E, f, idx[:-1], l))
            sq = sq + x * x
        return [('norm[idx] >= 0 and norm[idx]^2 == sum of squared components (Euclidean length)', z3.And(r >= 0, r * r == sq)),
                s.valid_same(E, st, result, idx)]


class Orientation(FieldMethod):
    needs_nv_thorough = (1, 2, 3)       # 4 components: non-linear clauses beyond the solver budget, bounded tier only

    def configs(s, tier):
        out = FieldMethod.configs(s, tier)
        return [c for c in out if c['nvdim'] in s.needs_nv_thorough]

    # integer-typed value arrays: the quotient is not an integer, the result must be a floating field
    extra_cfg = ({'ndim': 1, 'nvdim': 3, 'adtype': 'int'}, {'ndim': 2, 'nvdim': 1, 'adtype': 'int'})

    def __init__(s):
        FieldMethod.__init__(s, 'orientation')

    def spec(s, E, st, result, idx):
        f = st.self
        nv = f.attrs['_nvdim']
        cell = idx[:-1]
        sq = z3.RealVal(0)
        osq = z3.RealVal(0)
        for l in range(nv):
            x = R(s.A(E, f, cell, l))
            sq = sq + x * x
            o = R(result.attrs['_array'].at(E, cell + [l]))
            osq = osq + o * o
        thr = z3.RealVal('1/100000000')
        nonzero = sq > thr * thr            # |v| > 1e-8  (np.isclose(norm, 0) with atol 1e-8)
        oc = R(result.attrs['_array'].at(E, idx))
        # 'unit length' is proved by CUT: first, for every component l on its own, o_l^2 * |v|^2 == v_l^2 (each a small obligation);
        # then |o|^2 * |v|^2 == |v|^2 FROM those nvdim equations - which is linear in the monomials o_l^2 |v|^2 (their sum).  Asked
        # in one piece the solver has to find the same chain through the guarded quotients and the square root (0.3 s ... minutes).
        per = []
        for l in range(nv):
            o_l = R(result.attrs['_array'].at(E, cell + [l]))
            x_l = R(s.A(E, f, cell, l))
            per.append(z3.Implies(nonzero, o_l * o_l * sq == x_l * x_l))
        out = [(f'component {l}: orientation^2 * |v|^2 == component^2 where the field is longer than the threshold', per[l]) for l in range(nv)]
        out += [('unit length where the field is longer than the 1e-8 threshold (|o|^2 * |v|^2 == |v|^2, |v| > 0; from the per-component equations)',
                 z3.Implies(z3.And(*per), z3.Implies(nonzero, osq * sq == sq))),
                ('zero where the field is within the threshold', z3.Implies(z3.Not(nonzero), oc == 0)),
                ('orientation * length == field where non-zero (same direction)', z3.Implies(nonzero, oc * oc * sq == R(s.A(E, f, cell, idx[-1])) * R(s.A(E, f, cell, idx[-1])))),
                ('orientation has the sign of the component', z3.Implies(nonzero, oc * R(s.A(E, f, cell, idx[-1])) >= 0)),
                s.valid_same(E, st, result, idx)]
        return out


class ComplexPart(FieldMethod):
    """real / imag / conjugate / abs / phase on real-valued data (complex dtypes: bounded tier)"""

    def __init__(s, meth):
        FieldMethod.__init__(s, meth)
        s.unit_kept = meth in ('real', 'imag', 'conjugate')

    def spec(s, E, st, result, idx):
        f = st.self
        a = s.A(E, f, idx[:-1], idx[-1])
        want = {'real': lambda: a, 'conjugate': lambda: a, 'imag': lambda: 0.0, 'abs': lambda: E.absv(a), 'phase': lambda: E.uf_app('angle', a)}[s.meth]()
        return [(f'array[idx, c] == {s.meth}(self.array[idx, c])', R(result.attrs['_array'].at(E, idx)) == R(want)), s.valid_same(E, st, result, idx)]


class ValidAsField(FieldMethod):
    result_nvdim = 1
    meta = None

    def __init__(s):
        FieldMethod.__init__(s, '_valid_as_field')

    def spec(s, E, st, result, idx):
        f = st.self
        v = s.V(E, f, idx[:-1])
        return [('array[idx, 0] is the validity flag', R(result.attrs['_array'].at(E, idx[:-1] + [0])) == z3.If(v, z3.RealVal(1), z3.RealVal(0)))]


class TwoFieldOp(FieldMethod):
    """dot / cross / __lshift__ / angle with a field or a constant vector"""

    def __init__(s, meth):
        FieldMethod.__init__(s, meth)
        s.meta = None
        s.result_nvdim = {'dot': 1, '__matmul__': 1, 'cross': 3, '__and__': 3, 'angle': 1}.get(meth, 'same')
        if meth in ('cross', '__and__'):
            s.needs_nv = (3,)

    def configs(s, tier):
        out = []
        for c in FieldMethod.configs(s, tier):
            for other in ('field', 'vector'):
                out.append(dict(c, other=other))
        out += [{'ndim': 2, 'nvdim': 3, 'other': 'field_other_mesh'}, {'ndim': 2, 'nvdim': 3, 'other': 'number' if s.meth != '__lshift__' else 'str'}]
        if s.meth in ('cross', '__and__'):
            out = [c for c in out if c['nvdim'] == 3]
        if s.meth == '__lshift__':
            # both operands carry a (different) component-to-axis mapping: the result gets the union, the operands keep theirs
            out.append({'ndim': 3, 'nvdim': 2, 'other': 'field_mapped'})
        return out

    def make_field(s, E, cfg, **kw):
        if cfg.get('other') == 'field_mapped':
            return sym_field(E, cfg['ndim'], 2, unit='T', vdims=['p', 'q'], mapping={'p': DIMS[0], 'q': DIMS[1]}, **kw)
        return FieldMethod.make_field(s, E, cfg, **kw)

    def make_args(s, E, cfg, f, assume):
        d, nv, ok = cfg['ndim'], cfg['nvdim'], cfg['other']
        mesh = f.attrs['_mesh']
        if ok == 'field':
            g, _ = sym_field(E, d, nv, prefix='g', mesh=mesh, assume=assume, vdims=(['u', 'v', 'w', 't'][:nv] if nv > 1 else None), mapping={})
            return [g], {}
        if ok == 'field_mapped':
            g, _ = sym_field(E, d, 1, prefix='g', mesh=mesh, assume=assume, vdims=['w'], mapping={'w': DIMS[2]})
            return [g], {}
        if ok == 'field_other_mesh':
            g, _ = sym_field(E, d, nv, prefix='g', assume=assume)
            r1, r2 = mesh.attrs['_region'].attrs, g.attrs['_mesh'].attrs['_region'].attrs
            assume.append(R(r2['_pmin'].elems[0]) >= R(r1['_pmax'].elems[0]))
            return [g], {}
        if ok == 'vector':
            return [tuple(inp(E, f'c{j}', 'float') for j in range(nv))], {}
        if ok == 'number':
            return [inp(E, 'c', 'float')], {}
        return ['abc'], {}

    def raises(s, E, st):
        k = st.cfg['other']
        if k == 'field_other_mesh':
            return [('ValueError', True)]
        if k in ('number', 'str'):
            if s.meth == 'angle' and st.self.attrs['_nvdim'] == 1 and k == 'number':
                return []
            if s.meth == '__lshift__' and k == 'number':
                return []
            return [('TypeError', True)]
        return []

    def post(s, E, st, result):
        f, o = st.self, st.args[0]
        out, ok = field_result_base(E, st, result, s.operands(st))
        if not ok:
            return out
        nv = f.attrs['_nvdim']
        cell = cell_index(E, f)
        A = lambda l: s.A(E, f, cell, l)
        Bv = (lambda l: s.A(E, o, cell, l)) if isinstance(o, Obj) else (lambda l: list(o)[l])
        res = result.attrs['_array']
        if s.meth in ('dot', '__matmul__'):
            acc = z3.RealVal(0)
            for l in range(nv):
                acc = acc + R(A(l)) * R(Bv(l))
            out.append(('one component', result.attrs['_nvdim'] == 1))
            out.append(('dot[idx] == sum over components of self[idx,l]*other[idx,l]', R(res.at(E, cell + [0])) == acc))
        elif s.meth in ('cross', '__and__'):
            out.append(('three components', result.attrs['_nvdim'] == 3))
            for l in range(3):
                l1, l2 = (l + 1) % 3, (l + 2) % 3
                out.append((f'cross[idx,{l}] == self[{l1}]*other[{l2}] - self[{l2}]*other[{l1}]',
                            R(res.at(E, cell + [l])) == R(A(l1)) * R(Bv(l2)) - R(A(l2)) * R(Bv(l1))))
            out.append(('labels of the left operand', _eq(E, result.attrs['_vdims'], f.attrs['_vdims'])))
        elif s.meth == '__lshift__':
            onv = o.attrs['_nvdim'] if isinstance(o, Obj) else len(o)
            out.append(('components of both operands', result.attrs['_nvdim'] == nv + onv))
            for l in range(nv):
                out.append((f'stacked[idx,{l}] == self[idx,{l}]', R(res.at(E, cell + [l])) == R(A(l))))
            for l in range(onv):
                out.append((f'stacked[idx,{nv + l}] == other[idx,{l}]', R(res.at(E, cell + [nv + l])) == R(Bv(l))))
            if isinstance(o, Obj) and f.attrs['_vdims'] is not None and o.attrs['_vdims'] is not None:
                out.append(('labels: concatenation when unique', _eq(E, result.attrs['_vdims'], f.attrs['_vdims'] + o.attrs['_vdims'])))
            if st.cfg.get('other') == 'field_mapped':
                want = dict(f.attrs['_vdim_mapping'])
                want.update(o.attrs['_vdim_mapping'])
                out.append(('mapping: union of the operand mappings when it covers every component', result.attrs['_vdim_mapping'] == want))
                out.append(("the result's mapping is its own dict (not an operand's)", result.attrs['_vdim_mapping'] is not f.attrs['_vdim_mapping'] and result.attrs['_vdim_mapping'] is not o.attrs['_vdim_mapping']))
        wv = s.V(E, f, cell)
        if isinstance(o, Obj):
            wv = z3.And(wv, s.V(E, o, cell))
        out.append(('valid[idx] == AND of the operand validities', B(result.attrs['_valid'].at(E, cell)) == wv))
        return out
