"""Contracts of the geometric transformations of Region and Mesh (C12, C13, C14):
translate, scale, rotate90 - copying and in-place forms, one functional postcondition for both,
so that "in-place leaves the object equal to what the copying form returns" is a consequence."""
import z3
from pyvc.core import *
from pyvc.contracts import Contract, State, conj, disj
from pyvc.states import inp, sym_region, sym_mesh, _eq, old_attr, DIMS
from .shared import NDIMS, seq_elems, is_real_scalar


def zmin(a, b):
    return z3.If(a <= b, a, b)


def zmax(a, b):
    return z3.If(a <= b, b, a)


def region_attrs(o):
    return o.attrs['_pmin'].elems, o.attrs['_pmax'].elems


def inv_region(E, o, ndim):
    """Inv(Region) as a list of (label, Bool)"""
    a = o.attrs
    out = []
    pm, px = a.get('_pmin'), a.get('_pmax')
    ok = isinstance(pm, Vec) and isinstance(px, Vec) and len(pm) == ndim and len(px) == ndim
    out.append(('corner arrays of length ndim', ok))
    if ok:
        out.append(('pmin < pmax in every direction', conj([R(x) < R(y) for x, y in zip(pm.elems, px.elems)])))
    d, u = a.get('_dims'), a.get('_units')
    out.append(('dims: ndim unique names', isinstance(d, tuple) and len(d) == ndim and len(set(d)) == ndim))
    out.append(('units: ndim names', isinstance(u, tuple) and len(u) == ndim))
    return out


class RegionTransform(Contract):
    """common part: receiver = arbitrary region satisfying Inv(Region); result = self (in place) or a new Region"""
    cls = 'Region'

    def target(s, st, result):
        return result

    def base_post(s, E, st, result):
        out = []
        if st.inplace:
            out.append(('in-place form returns the object itself', result is st.self))
        else:
            out.append(('copying form returns a new Region', isinstance(result, Obj) and result.cls == 'Region' and result is not st.self))
        if not isinstance(result, Obj):
            return out, None
        d = len(old_attr(st.old['self'], '_pmin'))
        out += [('Inv: ' + l, c) for l, c in inv_region(E, result, d)]
        out.append(('dims kept', _eq(E, result.attrs.get('_dims'), old_attr(st.old['self'], '_dims'))))
        out.append(('tolerance_factor kept', _eq(E, result.attrs.get('_tolerance_factor'), old_attr(st.old['self'], '_tolerance_factor'))))
        return out, result

    def frame(s, E, st):
        return [('self', st.self)]

    @property
    def modifies(s):
        return ()

    def definition(s, E, st):
        """optional: the transformed corners as terms (definitional result at use sites); None = fresh symbols + assumed post"""
        return None

    def fresh_region(s, E, st, units):
        d = len(st.self.attrs['_pmin'].elems)
        df_ = s.definition(E, st)
        if df_ is not None:
            pmin = Vec([E.npscalar(E.to_float(x)) for x in df_[0]])
            pmax = Vec([E.npscalar(E.to_float(x)) for x in df_[1]])
        else:
            pmin = Vec([E.fresh('tpmin', 'float', True) for _ in range(d)])
            pmax = Vec([E.fresh('tpmax', 'float', True) for _ in range(d)])
        if st.inplace:
            st.old = st.old or {}
            o = st.self
            o.attrs['_pmin'], o.attrs['_pmax'] = pmin, pmax
            o.attrs['_units'] = units
            return o
        return Obj('Region', {'_pmin': pmin, '_pmax': pmax, '_dims': st.self.attrs['_dims'], '_units': units,
                              '_tolerance_factor': st.self.attrs['_tolerance_factor']})

    def frame_on_raise(s, E, st):
        return [('self', st.self)]


# ------------------------------------------------------------------ translate
class RegionTranslate(RegionTransform):
    name = 'Region.translate'
    qual = ('Region', 'translate')
    func = 'Region.translate'

    def configs(s, tier):
        out = [{'ndim': d, 'inplace': ip} for d in NDIMS[tier] for ip in (False, True)]
        out += [{'ndim': 2, 'inplace': ip, 'bad': b} for ip in (False, True) for b in ('len', 'type')]
        out += [{'ndim': 1, 'inplace': ip, 'scalar': True} for ip in (False, True)]
        return out

    def pre_state(s, E, cfg):
        d = cfg['ndim']
        r, assume = sym_region(E, d)
        v = tuple(inp(E, f'v{j}', 'float') for j in range(d))
        if cfg.get('bad') == 'len':
            v = v[:1]
        if cfg.get('bad') == 'type':
            v = 'ab'
        if cfg.get('scalar'):
            v = v[0]
        st = s.bind(E, r, [v], {'inplace': cfg['inplace']})
        st.assume = assume
        return st

    def bind(s, E, selfobj, args, kw):
        st = State(selfobj, args, kw)
        a = dict(zip(['vector', 'inplace'], args))
        a.update(kw)
        v = a['vector']
        if is_real_scalar(E, v):
            v = [v]
        st.v = None if isinstance(v, str) else seq_elems(E, v)
        st.inplace = a.get('inplace', False)
        return st

    def raises(s, E, st):
        if st.v is None:
            return [('TypeError', True)]
        if len(st.v) != len(st.self.attrs['_pmin'].elems):
            return [('ValueError', True)]
        if not all(isinstance(x, (Sym, int, float)) or type(x).__name__ == 'Fraction' for x in st.v):
            return [('TypeError', True)]
        return []

    def post(s, E, st, result):
        out, r = s.base_post(E, st, result)
        if r is None:
            return out
        opm, opx = old_attr(st.old['self'], '_pmin'), old_attr(st.old['self'], '_pmax')
        pm, px = r.attrs['_pmin'], r.attrs['_pmax']
        if isinstance(pm, Vec) and len(pm) == len(opm):
            for j in range(len(opm)):
                out.append((f'pmin[{j}] = old pmin + v', R(pm.elems[j]) == R(opm[j]) + R(st.v[j])))
                out.append((f'pmax[{j}] = old pmax + v', R(px.elems[j]) == R(opx[j]) + R(st.v[j])))
        out.append(('units kept', _eq(E, r.attrs.get('_units'), old_attr(st.old['self'], '_units'))))
        return out

    @property
    def modifies(s):
        return ('self',)

    def frame(s, E, st):
        return [('self', st.self)] if not st.inplace else []

    def definition(s, E, st):
        pm, px = region_attrs(st.self)
        return [E.arith('+', a, v) for a, v in zip(pm, st.v)], [E.arith('+', b, v) for b, v in zip(px, st.v)]

    def fresh_result(s, E, st):
        return s.fresh_region(E, st, st.self.attrs['_units'])


# ------------------------------------------------------------------ scale
class RegionScale(RegionTransform):
    name = 'Region.scale'
    qual = ('Region', 'scale')
    func = 'Region.scale'

    def configs(s, tier):
        out = []
        for d in NDIMS[tier]:
            for ip in (False, True):
                out += [{'ndim': d, 'inplace': ip, 'factor': 'scalar', 'ref': 'none'},
                        {'ndim': d, 'inplace': ip, 'factor': 'vector', 'ref': 'point'}]
        out += [{'ndim': 2, 'inplace': ip, 'factor': 'scalar', 'ref': 'point'} for ip in (False, True)]
        out += [{'ndim': 2, 'inplace': ip, 'factor': f, 'ref': r} for ip in (False, True)
                for f, r in (('bad_len', 'none'), ('bad_type', 'none'), ('scalar', 'bad_len'), ('scalar', 'bad_type'))]
        return out

    def pre_state(s, E, cfg):
        d = cfg['ndim']
        r, assume = sym_region(E, d)
        f = cfg['factor']
        if f == 'scalar':
            fac = inp(E, 'f', 'float')
        elif f == 'vector':
            fac = tuple(inp(E, f'f{j}', 'float') for j in range(d))
        elif f == 'bad_len':
            fac = (inp(E, 'f0', 'float'),)
        else:
            fac = 'ab'
        rf = cfg['ref']
        ref = None
        if rf == 'point':
            ref = tuple(inp(E, f'R{j}', 'float') for j in range(d))
        elif rf == 'bad_len':
            ref = (inp(E, 'R0', 'float'),)
        elif rf == 'bad_type':
            ref = 'ab'
        st = s.bind(E, r, [fac], {'reference_point': ref, 'inplace': cfg['inplace']})
        st.assume = assume
        return st

    def bind(s, E, selfobj, args, kw):
        st = State(selfobj, args, kw)
        a = dict(zip(['factor', 'reference_point', 'inplace'], args))
        a.update(kw)
        d = len(selfobj.attrs['_pmin'].elems)
        f = a['factor']
        st.fbad = None
        if is_real_scalar(E, f):
            st.f = [f] * d
        elif isinstance(f, str) or seq_elems(E, f) is None:
            st.f, st.fbad = None, 'TypeError'
        else:
            st.f = seq_elems(E, f)
            if len(st.f) != d:
                st.fbad = 'ValueError'
        ref = a.get('reference_point')
        st.rbad = None
        if ref is None:
            pm, px = region_attrs(selfobj)
            st.ref = [E.arith('*', 0.5, E.arith('+', x, y)) for x, y in zip(pm, px)]
        elif is_real_scalar(E, ref):
            st.ref = [ref]
        elif isinstance(ref, str) or seq_elems(E, ref) is None:
            st.ref, st.rbad = None, 'TypeError'
        else:
            st.ref = seq_elems(E, ref)
        if st.ref is not None and len(st.ref) != d:
            st.rbad = 'ValueError'
        st.inplace = a.get('inplace', False)
        return st

    def raises(s, E, st):
        if st.fbad:
            return [(st.fbad, True)]
        if st.rbad:
            return [(st.rbad, True)]
        # a zero factor would give a degenerate region: rejected in BOTH forms (property C13)
        return [('ValueError', disj([R(f) == 0 for f in st.f]))]

    def post(s, E, st, result):
        out, r = s.base_post(E, st, result)
        if r is None:
            return out
        opm, opx = old_attr(st.old['self'], '_pmin'), old_attr(st.old['self'], '_pmax')
        pm, px = r.attrs['_pmin'], r.attrs['_pmax']
        if isinstance(pm, Vec) and len(pm) == len(opm):
            for j in range(len(opm)):
                Rj, f = R(st.ref[j]), R(st.f[j])
                c1 = Rj + f * (R(opm[j]) - Rj)
                c2 = Rj + f * (R(opx[j]) - Rj)
                out.append((f'pmin[{j}] = min of the images R+s*(x-R) of the old corners', R(pm.elems[j]) == zmin(c1, c2)))
                out.append((f'pmax[{j}] = max of the images R+s*(x-R) of the old corners', R(px.elems[j]) == zmax(c1, c2)))
        out.append(('units kept', _eq(E, r.attrs.get('_units'), old_attr(st.old['self'], '_units'))))
        return out

    def frame(s, E, st):
        return [('self', st.self)] if not st.inplace else []

    def frame_always(s, E, st):
        return [('self', st.self)]

    def definition(s, E, st):
        pm, px = region_attrs(st.self)
        lo, hi = [], []
        for a, b, r_, f in zip(pm, px, st.ref, st.f):
            c1 = E.arith('+', r_, E.arith('*', f, E.arith('-', a, r_)))
            c2 = E.arith('+', r_, E.arith('*', f, E.arith('-', b, r_)))
            # the sign of the factor decides which image is the lower corner (same case split as in the post-condition)
            pos = E.cmp('>', f, 0)
            lo.append(E.ite(pos, c1, c2))
            hi.append(E.ite(pos, c2, c1))
        return lo, hi

    def fresh_result(s, E, st):
        return s.fresh_region(E, st, st.self.attrs['_units'])


# ------------------------------------------------------------------ rotate90
def rot_image(m, x, y):
    """quarter turn by m (0..3) of the in-plane offset (x, y): exact integer matrix"""
    return [(x, y), (-y, x), (-x, -y), (y, -x)][m]


def rot_sym(kmod, x, y):
    """rotation by symbolic k mod 4 (Int term)"""
    rx = z3.If(kmod == 0, x, z3.If(kmod == 1, -y, z3.If(kmod == 2, -x, y)))
    ry = z3.If(kmod == 0, y, z3.If(kmod == 1, x, z3.If(kmod == 2, -y, -x)))
    return rx, ry


class RegionRotate90(RegionTransform):
    name = 'Region.rotate90'
    qual = ('Region', 'rotate90')
    func = 'Region.rotate90'

    def configs(s, tier):
        out = []
        for d in [x for x in NDIMS[tier] if x >= 2]:
            pairs = [(a, b) for a in range(d) for b in range(d) if a != b]
            if tier == 'quick' and d == 3:
                pairs = [(0, 1), (2, 0), (1, 2), (2, 1)]
            for a, b in pairs:
                for ip in (False, True):
                    out.append({'ndim': d, 'ax1': a, 'ax2': b, 'inplace': ip, 'ref': 'point' if (a + b) % 2 else 'none'})
        out += [{'ndim': 2, 'ax1': 0, 'ax2': 0, 'inplace': ip, 'ref': 'none'} for ip in (False, True)]
        out += [{'ndim': 2, 'ax1': 0, 'ax2': 1, 'inplace': ip, 'ref': 'none', 'bad': b} for ip in (False, True) for b in ('k_float', 'ax_unknown', 'ref_len')]
        return out

    def pre_state(s, E, cfg):
        d = cfg['ndim']
        r, assume = sym_region(E, d)
        dims = r.attrs['_dims']
        k = inp(E, 'k', 'int')
        ref = None
        if cfg['ref'] == 'point':
            ref = tuple(inp(E, f'R{j}', 'float') for j in range(d))
        ax1, ax2 = dims[cfg['ax1']], dims[cfg['ax2']]
        bad = cfg.get('bad')
        if bad == 'k_float':
            k = inp(E, 'kf', 'float')
        if bad == 'ax_unknown':
            ax2 = 'nodim'
        if bad == 'ref_len':
            ref = (inp(E, 'R0', 'float'),)
        st = s.bind(E, r, [ax1, ax2], {'k': k, 'reference_point': ref, 'inplace': cfg['inplace']})
        st.assume = assume
        return st

    def bind(s, E, selfobj, args, kw):
        st = State(selfobj, args, kw)
        a = dict(zip(['ax1', 'ax2', 'k', 'reference_point', 'inplace'], args))
        a.update(kw)
        st.ax1, st.ax2 = a['ax1'], a['ax2']
        st.k = a.get('k', 1)
        d = len(selfobj.attrs['_pmin'].elems)
        ref = a.get('reference_point')
        st.rbad = None
        if ref is None:
            pm, px = region_attrs(selfobj)
            st.ref = [E.arith('*', 0.5, E.arith('+', x, y)) for x, y in zip(pm, px)]
        elif isinstance(ref, str) or seq_elems(E, ref) is None:
            st.ref, st.rbad = None, 'TypeError'
        else:
            st.ref = seq_elems(E, ref)
            if len(st.ref) != d:
                st.rbad = 'ValueError'
        st.inplace = a.get('inplace', False)
        return st

    def raises(s, E, st):
        if st.ax1 == st.ax2:
            return [('ValueError', True)]
        if not (isinstance(st.k, int) or (isinstance(st.k, Sym) and st.k.kind == 'int' and not st.k.np)):
            return [('TypeError', True)]
        if st.rbad:
            return [(st.rbad, True)]
        dims = st.self.attrs['_dims']
        if st.ax1 not in dims or st.ax2 not in dims:
            return [('ValueError', True)]
        return []

    def rotated(s, E, st, opm, opx):
        """expected corners after the rotation (lists of z3 terms) and the unit permutation flag"""
        dims = st.self.attrs['_dims']
        i1, i2 = dims.index(st.ax1), dims.index(st.ax2)
        km = I(st.k) % 4
        R1, R2 = R(st.ref[i1]), R(st.ref[i2])
        ax, ay = rot_sym(km, R(opm[i1]) - R1, R(opm[i2]) - R2)
        bx, by = rot_sym(km, R(opx[i1]) - R1, R(opx[i2]) - R2)
        npm = [R(x) for x in opm]
        npx = [R(x) for x in opx]
        npm[i1], npx[i1] = zmin(R1 + ax, R1 + bx), zmax(R1 + ax, R1 + bx)
        npm[i2], npx[i2] = zmin(R2 + ay, R2 + by), zmax(R2 + ay, R2 + by)
        return npm, npx, i1, i2, km

    def post(s, E, st, result):
        out, r = s.base_post(E, st, result)
        if r is None:
            return out
        opm, opx = old_attr(st.old['self'], '_pmin'), old_attr(st.old['self'], '_pmax')
        npm, npx, i1, i2, km = s.rotated(E, st, opm, opx)
        pm, px = r.attrs['_pmin'], r.attrs['_pmax']
        if isinstance(pm, Vec) and len(pm) == len(opm):
            for j in range(len(opm)):
                tag = 'rotated about the reference by the exact quarter-turn matrix' if j in (i1, i2) else 'unchanged (not a rotation axis)'
                out.append((f'pmin[{j}] {tag}', R(pm.elems[j]) == npm[j]))
                out.append((f'pmax[{j}] {tag}', R(px.elems[j]) == npx[j]))
        ou = list(old_attr(st.old['self'], '_units'))
        sw = list(ou)
        sw[i1], sw[i2] = ou[i2], ou[i1]
        u = r.attrs.get('_units')
        odd = (km % 2) == 1
        out.append(('units of the two axes swap for odd k', z3.Implies(odd, z3.BoolVal(u == tuple(sw)))))
        out.append(('units stay for even k', z3.Implies(z3.Not(odd), z3.BoolVal(u == tuple(ou)))))
        return out

    def frame(s, E, st):
        return [('self', st.self)] if not st.inplace else []

    def fresh_result(s, E, st):
        dims = st.self.attrs['_dims']
        i1, i2 = dims.index(st.ax1), dims.index(st.ax2)
        ou = list(st.self.attrs['_units'])
        if ou[i1] == ou[i2]:
            units = tuple(ou)
        else:
            odd = E.branch((I(st.k) % 2) == 1) if not isinstance(st.k, int) else (st.k % 2 == 1)
            if odd:
                ou[i1], ou[i2] = ou[i2], ou[i1]
            units = tuple(ou)
        return s.fresh_region(E, st, units)


# ====================================================================== Mesh-level transformations
def inv_mesh(E, m, ndim):
    a = m.attrs
    out = []
    nn = a.get('_n')
    ok = isinstance(nn, Vec) and len(nn) == ndim and nn.kind == 'int'
    out.append(('n is an integer array of length ndim', ok))
    if ok:
        out.append(('n >= 1 in every direction', conj([I(k) >= 1 for k in nn.elems])))
    reg = a.get('_region')
    if not isinstance(reg, Obj) or reg.cls != 'Region':
        out.append(('region is a Region', False))
    else:
        out += inv_region(E, reg, ndim)
    out.append(('subregions is a dict of Regions', isinstance(a.get('_subregions'), dict) and
                all(isinstance(v, Obj) and v.cls == 'Region' for v in a['_subregions'].values())))
    return out


class MeshTransform(Contract):
    """receiver = arbitrary mesh satisfying Inv(Mesh) (with nsub lattice-aligned subregions)"""
    region_contract = None

    def frame(s, E, st):
        return [('self', st.self)] if not st.inplace else []

    def frame_on_raise(s, E, st):
        return [('self', st.self)]

    def mesh_post(s, E, st, result):
        out = []
        if st.inplace:
            out.append(('in-place form returns the object itself', result is st.self))
        else:
            out.append(('copying form returns a new Mesh', isinstance(result, Obj) and result.cls == 'Mesh' and result is not st.self))
        if not isinstance(result, Obj) or result.cls != 'Mesh':
            return out, None
        d = len(old_attr(st.old['self'], '_n'))
        out += [('Inv: ' + l, c) for l, c in inv_mesh(E, result, d)]
        out.append(('boundary conditions kept', _eq(E, result.attrs.get('_bc'), old_attr(st.old['self'], '_bc'))))
        if not st.inplace:
            out.append(('the copy does not share its region object with the original', result.attrs.get('_region') is not st.self.attrs.get('_region')))
        osubs = st.old['self'][2]['_subregions'][2]
        subs = result.attrs.get('_subregions')
        out.append(('same subregion names', isinstance(subs, dict) and list(subs.keys()) == list(osubs.keys())))
        return out, result

    def region_clauses(s, E, st, rc, old_region_snap, new_region, tag):
        """the region-level postcondition (same text as the Region contract) applied to (old snapshot -> new region)"""
        rst = rc.bind(E, _SnapRegion(old_region_snap), st.rargs, dict(st.rkw, inplace=False))
        rst.old = {'self': old_region_snap}
        rst.self = _SnapRegion(old_region_snap)
        rst.inplace = False
        res = []
        for l, c in rc.post(E, rst, new_region):
            if l.startswith('copying form') or l.startswith('in-place form'):
                continue
            res.append((f'{tag}: {l}', c))
        return res


class _SnapRegion(Obj):
    """read-only view of a region snapshot with the Obj interface (attrs) - lets the Region contracts talk about the OLD region"""

    def __init__(s, snap):
        s.cls = 'Region'
        s.id = -1
        d = snap[2]
        s.attrs = {'_pmin': Vec(list(d['_pmin'][2])), '_pmax': Vec(list(d['_pmax'][2])), '_dims': d['_dims'][1],
                   '_units': d['_units'][1], '_tolerance_factor': d['_tolerance_factor'][1]}


class MeshTranslate(MeshTransform):
    name = 'Mesh.translate'
    qual = ('Mesh', 'translate')
    func = 'Mesh.translate'

    def configs(s, tier):
        out = [{'ndim': d, 'inplace': ip, 'nsub': 0} for d in NDIMS[tier] for ip in (False, True)]
        out += [{'ndim': d, 'inplace': True, 'nsub': 1} for d in NDIMS[tier]]
        out += [{'ndim': d, 'inplace': False, 'nsub': 1} for d in NDIMS[tier] if d <= 2 or tier == 'thorough']
        out += [{'ndim': 2, 'inplace': ip, 'nsub': 0, 'bad': 'len'} for ip in (False, True)]
        return out

    def pre_state(s, E, cfg):
        d = cfg['ndim']
        m, assume = sym_mesh(E, d, nsub=cfg['nsub'], tf=1e-12 if cfg['nsub'] else None, bc=DIMS[0] if d > 1 else '')
        v = tuple(inp(E, f'v{j}', 'float') for j in range(d))
        if cfg.get('bad') == 'len':
            v = v[:1]
        st = s.bind(E, m, [v], {'inplace': cfg['inplace']})
        st.assume = assume
        return st

    def bind(s, E, selfobj, args, kw):
        st = State(selfobj, args, kw)
        a = dict(zip(['vector', 'inplace'], args))
        a.update(kw)
        st.inplace = a.get('inplace', False)
        st.rargs, st.rkw = [a['vector']], {}
        st.rst = RegionTranslate().bind(E, selfobj.attrs['_region'], st.rargs, {'inplace': st.inplace})
        return st

    def raises(s, E, st):
        return RegionTranslate().raises(E, st.rst)

    def post(s, E, st, result):
        out, r = s.mesh_post(E, st, result)
        if r is None:
            return out
        old = st.old['self']
        out.append(('n kept', _eq(E, list(r.attrs['_n'].elems), list(old_attr(old, '_n')))))
        rc = RegionTranslate()
        out += s.region_clauses(E, st, rc, old[2]['_region'], r.attrs['_region'], 'region')
        for k, sn in old[2]['_subregions'][2].items():
            if k in r.attrs['_subregions']:
                out += s.region_clauses(E, st, rc, sn, r.attrs['_subregions'][k], f'subregion {k}')
        return out


class MeshScale(MeshTransform):
    name = 'Mesh.scale'
    qual = ('Mesh', 'scale')
    func = 'Mesh.scale'

    def configs(s, tier):
        out = []
        for d in NDIMS[tier]:
            for ip in (False, True):
                out += [{'ndim': d, 'inplace': ip, 'nsub': 0, 'factor': 'scalar', 'ref': 'none'},
                        {'ndim': d, 'inplace': ip, 'nsub': 0, 'factor': 'vector', 'ref': 'point'}]
            out += [{'ndim': d, 'inplace': True, 'nsub': 1, 'factor': 'scalar', 'ref': 'none'},
                    {'ndim': d, 'inplace': True, 'nsub': 1, 'factor': 'vector', 'ref': 'point'}]
            if d <= 2 or tier == 'thorough':
                out += [{'ndim': d, 'inplace': False, 'nsub': 1, 'factor': 'scalar', 'ref': 'none'},
                        {'ndim': d, 'inplace': False, 'nsub': 1, 'factor': 'vector', 'ref': 'point'}]
        return out

    def pre_state(s, E, cfg):
        d = cfg['ndim']
        m, assume = sym_mesh(E, d, nsub=cfg['nsub'], tf=1e-12 if cfg['nsub'] else None)
        fac = inp(E, 'f', 'float') if cfg['factor'] == 'scalar' else tuple(inp(E, f'f{j}', 'float') for j in range(d))
        ref = None if cfg['ref'] == 'none' else tuple(inp(E, f'R{j}', 'float') for j in range(d))
        st = s.bind(E, m, [fac], {'reference_point': ref, 'inplace': cfg['inplace']})
        st.assume = assume
        return st

    def bind(s, E, selfobj, args, kw):
        st = State(selfobj, args, kw)
        a = dict(zip(['factor', 'reference_point', 'inplace'], args))
        a.update(kw)
        st.inplace = a.get('inplace', False)
        ref = a.get('reference_point')
        st.rst = RegionScale().bind(E, selfobj.attrs['_region'], [a['factor']], {'reference_point': ref, 'inplace': st.inplace})
        # subregions are scaled about the SAME reference as the region (its centre by default)
        st.rargs, st.rkw = [a['factor']], {'reference_point': tuple(st.rst.ref) if st.rst.ref is not None else None}
        return st

    def raises(s, E, st):
        return RegionScale().raises(E, st.rst)

    def post(s, E, st, result):
        out, r = s.mesh_post(E, st, result)
        if r is None:
            return out
        old = st.old['self']
        out.append(('n kept', _eq(E, list(r.attrs['_n'].elems), list(old_attr(old, '_n')))))
        rc = RegionScale()
        out += s.region_clauses(E, st, rc, old[2]['_region'], r.attrs['_region'], 'region')
        for k, sn in old[2]['_subregions'][2].items():
            if k in r.attrs['_subregions']:
                out += s.region_clauses(E, st, rc, sn, r.attrs['_subregions'][k], f'subregion {k}')
        return out


class MeshRotate90(MeshTransform):
    name = 'Mesh.rotate90'
    qual = ('Mesh', 'rotate90')
    func = 'Mesh.rotate90'

    def configs(s, tier):
        out = []
        for d in [x for x in NDIMS[tier] if x >= 2]:
            pairs = [(a, b) for a in range(d) for b in range(d) if a != b]
            if tier == 'quick' and d == 3:
                pairs = [(0, 1), (2, 0), (1, 2)]
            for a, b in pairs:
                for ip in (False, True):
                    out.append({'ndim': d, 'ax1': a, 'ax2': b, 'inplace': ip, 'nsub': 0, 'ref': 'point' if (a + b) % 2 else 'none'})
                out.append({'ndim': d, 'ax1': a, 'ax2': b, 'inplace': True, 'nsub': 1, 'ref': 'none' if (a + b) % 2 else 'point'})
        return out

    def pre_state(s, E, cfg):
        d = cfg['ndim']
        m, assume = sym_mesh(E, d, nsub=cfg['nsub'], tf=1e-12 if cfg['nsub'] else None)
        dims = m.attrs['_region'].attrs['_dims']
        k = inp(E, 'k', 'int')
        ref = None if cfg['ref'] == 'none' else tuple(inp(E, f'R{j}', 'float') for j in range(d))
        st = s.bind(E, m, [dims[cfg['ax1']], dims[cfg['ax2']]], {'k': k, 'reference_point': ref, 'inplace': cfg['inplace']})
        st.assume = assume
        return st

    def bind(s, E, selfobj, args, kw):
        st = State(selfobj, args, kw)
        a = dict(zip(['ax1', 'ax2', 'k', 'reference_point', 'inplace'], args))
        a.update(kw)
        st.inplace = a.get('inplace', False)
        st.k = a.get('k', 1)
        st.rst = RegionRotate90().bind(E, selfobj.attrs['_region'], [a['ax1'], a['ax2']],
                                       {'k': st.k, 'reference_point': a.get('reference_point'), 'inplace': st.inplace})
        st.rargs = [a['ax1'], a['ax2']]
        st.rkw = {'k': st.k, 'reference_point': tuple(st.rst.ref) if st.rst.ref is not None else None}
        return st

    def raises(s, E, st):
        return RegionRotate90().raises(E, st.rst)

    def post(s, E, st, result):
        out, r = s.mesh_post(E, st, result)
        if r is None:
            return out
        old = st.old['self']
        dims = old_attr(old, '_region', '_dims')
        i1, i2 = dims.index(st.rargs[0]), dims.index(st.rargs[1])
        on = list(old_attr(old, '_n'))
        nn = r.attrs['_n'].elems
        odd = (I(st.k) % 2) == 1
        for j in range(len(on)):
            src = i2 if j == i1 else (i1 if j == i2 else j)
            out.append((f'n[{j}]: the cell counts of the two axes swap for odd k, stay otherwise',
                        I(nn[j]) == z3.If(odd, I(on[src]), I(on[j]))))
        rc = RegionRotate90()
        out += s.region_clauses(E, st, rc, old[2]['_region'], r.attrs['_region'], 'region')
        for k_, sn in old[2]['_subregions'][2].items():
            if k_ in r.attrs['_subregions']:
                out += s.region_clauses(E, st, rc, sn, r.attrs['_subregions'][k_], f'subregion {k_}')
        return out
