"""Contracts shared by several properties: Region.__init__, Region.__contains__, Mesh.__init__,
Mesh.index2point, Mesh.point2index.  They are PROVED under C01 (and C14 for the subregion part of
Mesh.__init__) and USED modularly (assert-requires / assume-ensures) by the other properties."""
import z3
from pyvc.core import *
from pyvc.contracts import Contract, State, conj, disj
from pyvc.states import inp, sym_region, sym_mesh, DIMS, UNITS, _eq

NDIMS = {'quick': [1, 2, 3], 'thorough': [1, 2, 3, 4]}
HALF = z3.RealVal('1/2')


def seq_elems(E, v):
    """corner-like argument -> list of scalars, or None if it is not a sequence"""
    if isinstance(v, Vec):
        return list(v.elems)
    if isinstance(v, (list, tuple)):
        return list(v)
    if hasattr(v, 'vals'):
        return list(v.vals)
    return None


def is_real_scalar(E, x):
    return (isinstance(x, Sym) and not (x.kind == 'bool' and x.np)) or (isinstance(x, (int, float)) ) or \
        type(x).__name__ == 'Fraction'


def contains_point(E, region, p):
    """the tolerant closed-box containment of Region.__contains__ (np.isclose formula), as a Bool"""
    pmin = region.attrs['_pmin'].elems
    pmax = region.attrs['_pmax'].elems
    tf = R(region.attrs['_tolerance_factor'])
    edges = [R(b) - R(a) for a, b in zip(pmin, pmax)]
    m = edges[0]
    for e in edges[1:]:
        m = z3.If(e < m, e, m)
    atol = m * tf
    out = []
    for a, b, x in zip(pmin, pmax, p):
        x = R(x)
        ax = z3.If(x >= 0, x, -x)
        tol = atol + tf * ax
        lo = z3.Or(R(a) <= x, z3.If(R(a) - x >= 0, R(a) - x, x - R(a)) <= tol)
        hi = z3.Or(R(b) >= x, z3.If(R(b) - x >= 0, R(b) - x, x - R(b)) <= tol)
        out.append(z3.And(lo, hi))
    return conj(out)


# ======================================================================= Region.__init__
class RegionInit(Contract):
    name = 'Region.__init__'
    qual = ('Region', '__init__')
    func = 'Region.__init__'
    role = 'property'

    def configs(s, tier):
        out = [{'ndim': d, 'form': 'p1p2'} for d in NDIMS[tier]]
        out += [{'ndim': 2, 'form': 'pminpmax'}, {'ndim': 1, 'form': 'scalar'},
                {'ndim': 2, 'form': 'bad_len'}, {'ndim': 2, 'form': 'bad_empty'}, {'ndim': 2, 'form': 'bad_type'},
                {'ndim': 2, 'form': 'dims_given'}, {'ndim': 2, 'form': 'dims_dup'}, {'ndim': 2, 'form': 'dims_len'}]
        return out

    def pre_state(s, E, cfg):
        d = cfg['ndim']
        o = Obj('Region')
        p1 = tuple(inp(E, f'p1_{j}', 'float') for j in range(d))
        p2 = tuple(inp(E, f'p2_{j}', 'float') for j in range(d))
        f = cfg['form']
        kw = {'p1': p1, 'p2': p2}
        if f == 'pminpmax':
            kw = {'pmin': p1, 'pmax': p2}
        elif f == 'scalar':
            kw = {'p1': p1[0], 'p2': p2[0]}
        elif f == 'bad_len':
            kw = {'p1': p1, 'p2': p2[:1]}
        elif f == 'bad_empty':
            kw = {'p1': (), 'p2': ()}
        elif f == 'bad_type':
            kw = {'p1': 'ab', 'p2': p2}
        elif f == 'dims_given':
            kw.update(dims=['q', 'w'], units=('s', 't'), tolerance_factor=inp(E, 'tf', 'float'))
        elif f == 'dims_dup':
            kw.update(dims=['q', 'q'])
        elif f == 'dims_len':
            kw.update(dims=['q'])
        st = s.bind(E, o, [], kw)
        st.assume = []
        return st

    def bind(s, E, selfobj, args, kw):
        names = ['p1', 'p2', 'dims', 'units', 'tolerance_factor']
        a = dict(zip(names, args))
        a.update(kw)
        st = State(selfobj, args, kw)
        st.ordered = 'pmin' in a and 'pmax' in a
        p1, p2 = (a['pmin'], a['pmax']) if st.ordered else (a.get('p1'), a.get('p2'))
        if is_real_scalar(E, p1):
            p1 = [p1]
        if is_real_scalar(E, p2):
            p2 = [p2]
        st.p1 = seq_elems(E, p1) if not isinstance(p1, str) else None
        st.p2 = seq_elems(E, p2) if not isinstance(p2, str) else None
        st.dims = a.get('dims')
        st.units = a.get('units')
        st.tf = a.get('tolerance_factor', 1e-12)
        return st

    def _dims(s, st, n):
        if st.dims is None:
            return tuple(['x', 'y', 'z'][:n]) if n <= 3 else tuple(f'x{i}' for i in range(n))
        d = st.dims
        if isinstance(d, str):
            d = [d]
        return tuple(seq_elems(None, d))

    def _units(s, st, n):
        if st.units is None:
            return tuple(['m'] * n)
        u = st.units
        if isinstance(u, str):
            u = [u]
        return tuple(seq_elems(None, u))

    def raises(s, E, st):
        out = []
        if st.p1 is None or st.p2 is None:
            return [('TypeError', True)]
        if st.ordered:
            if len(st.p1) == len(st.p2):
                out.append(('ValueError', negate_(conj([R(a) < R(b) for a, b in zip(st.p1, st.p2)]))))
        if len(st.p1) != len(st.p2):
            return out + [('ValueError', True)]
        if len(st.p1) == 0:
            return out + [('ValueError', True)]
        if not all(is_real_scalar(E, x) for x in st.p1 + st.p2):
            return out + [('TypeError', True)]
        n = len(st.p1)
        if st.dims is not None:
            d = st.dims if not isinstance(st.dims, str) else [st.dims]
            dl = seq_elems(E, d)
            if dl is None:
                return out + [('TypeError', True)]
            if len(dl) != n:
                return out + [('ValueError', True)]
            if not all(isinstance(x, str) for x in dl):
                return out + [('TypeError', True)]
            if len(set(dl)) != len(dl):
                return out + [('ValueError', True)]
        if st.units is not None:
            u = st.units if not isinstance(st.units, str) else [st.units]
            ul = seq_elems(E, u)
            if ul is None:
                return out + [('TypeError', True)]
            if len(ul) != n:
                return out + [('ValueError', True)]
            if not all(isinstance(x, str) for x in ul):
                return out + [('TypeError', True)]
        if not is_real_scalar(E, st.tf):
            return out + [('TypeError', True)]
        out.append(('ValueError', disj([R(a) == R(b) for a, b in zip(st.p1, st.p2)])))
        return out

    def post(s, E, st, result):
        o = st.self
        n = len(st.p1)
        pmin, pmax = o.attrs.get('_pmin'), o.attrs.get('_pmax')
        if not isinstance(pmin, Vec) or not isinstance(pmax, Vec) or len(pmin) != n or len(pmax) != n:
            return [('corners are arrays of length ndim', False)]
        out = []
        for j in range(n):
            a, b = R(st.p1[j]), R(st.p2[j])
            out.append((f'pmin[{j}] == min(p1,p2)', R(pmin.elems[j]) == z3.If(a <= b, a, b)))
            out.append((f'pmax[{j}] == max(p1,p2)', R(pmax.elems[j]) == z3.If(a <= b, b, a)))
        out.append(('dims as given / default names', _eq(E, o.attrs.get('_dims'), s._dims(st, n))))
        out.append(('units as given / default', _eq(E, o.attrs.get('_units'), s._units(st, n))))
        out.append(('tolerance_factor stored', _eq(E, o.attrs.get('_tolerance_factor'), st.tf)))
        return out

    def fresh_result(s, E, st):
        o = st.self
        n = len(st.p1)
        # definitional results (pmin = min(p1, p2) simplified against the path condition) instead of fresh symbols:
        # equivalent to fresh + the assumed post clauses, but keeps exact-lattice corners syntactically visible to callers
        if st.ordered:
            lo, hi = list(st.p1), list(st.p2)
        else:
            lo = [E.minv(a, b) for a, b in zip(st.p1, st.p2)]
            hi = [E.maxv(a, b) for a, b in zip(st.p1, st.p2)]
        o.attrs['_pmin'] = Vec([E.npscalar(E.to_float(x)) for x in lo])
        o.attrs['_pmax'] = Vec([E.npscalar(E.to_float(x)) for x in hi])
        o.attrs['_dims'] = s._dims(st, n)
        o.attrs['_units'] = s._units(st, n)
        o.attrs['_tolerance_factor'] = st.tf
        return None


def cdiv(E, x, y):
    """total division for contract formulas: fresh d with (y != 0 => d*y == x) - a conservative definition"""
    y = z3.simplify(y)
    if z3.is_rational_value(y) or z3.is_int_value(y):
        if y.as_fraction() != 0:
            return z3.simplify(x / y)
        return z3.RealVal(0)
    from pyvc.core import cancel
    c = cancel(toreal(x), toreal(y))
    if c is not None:
        return c          # (k*y)/y = k whenever y != 0 (the value at y == 0 is irrelevant: guarded by the caller)
    d = E.fresh('cdiv', 'float').t
    E.assume(z3.Implies(y != 0, d * y == x))
    return d


def negate_(c):
    return (not c) if isinstance(c, bool) else z3.Not(c)


# ======================================================================= Region.__contains__
class RegionContains(Contract):
    name = 'Region.__contains__'
    qual = ('Region', '__contains__')
    func = 'Region.__contains__'

    def configs(s, tier):
        return [{'ndim': d, 'arg': a} for d in NDIMS[tier] for a in ('point', 'region')] + [{'ndim': 2, 'arg': 'other'}]

    def pre_state(s, E, cfg):
        d = cfg['ndim']
        r, assume = sym_region(E, d)
        if cfg['arg'] == 'point':
            arg = tuple(inp(E, f'p{j}', 'float') for j in range(d))
        elif cfg['arg'] == 'region':
            arg, assume = sym_region(E, d, prefix='o', assume=assume)
        else:
            arg = None
        st = State(r, [arg], {})
        st.assume = assume
        return st

    def frame(s, E, st):
        return [('self', st.self)] + ([('other', st.args[0])] if isinstance(st.args[0], Obj) else [])

    def post(s, E, st, result):
        a = st.args[0]
        if isinstance(a, Obj):
            spec = z3.And(contains_point(E, st.self, a.attrs['_pmin'].elems), contains_point(E, st.self, a.attrs['_pmax'].elems))
        elif a is None:
            return [('anything that is neither a point nor a region is not contained', result is False)]
        else:
            spec = contains_point(E, st.self, list(a))
        if not isinstance(result, (bool, Sym)):
            return [('result is a truth value', False)]
        return [('result <=> every coordinate within [pmin - tol, pmax + tol], tol = min(edges)*tf + tf*|p|', B(result) == spec)]


# ======================================================================= Mesh.index2point / point2index
class Index2Point(Contract):
    name = 'Mesh.index2point'
    qual = ('Mesh', 'index2point')
    func = 'Mesh.index2point'

    def configs(s, tier):
        return [{'ndim': d} for d in NDIMS[tier]] + [{'ndim': 2, 'bad': 'len'}, {'ndim': 1, 'bad': 'scalar'}]

    def pre_state(s, E, cfg):
        d = cfg['ndim']
        m, assume = sym_mesh(E, d)
        idx = tuple(inp(E, f'i{j}', 'int') for j in range(d))
        if cfg.get('bad') == 'len':
            idx = idx[:1]
        if cfg.get('bad') == 'scalar':
            idx = idx[0]
        st = s.bind(E, m, [idx], {})
        st.assume = assume
        return st

    def bind(s, E, selfobj, args, kw):
        st = State(selfobj, args, kw)
        i = args[0]
        if isinstance(i, (int, Sym)) and not isinstance(i, bool):
            i = [i]
        st.idx = seq_elems(E, i)
        return st

    def frame(s, E, st):
        return [('self', st.self)]

    def requires(s, E, st):
        return [st.idx is not None and all(kind_of(x) == 'int' for x in st.idx)]

    def raises(s, E, st):
        n = st.self.attrs['_n'].elems
        if len(st.idx) != len(n):
            return [('IndexError', True)]
        return [('IndexError', disj([z3.Or(I(i) < 0, I(i) >= I(k)) for i, k in zip(st.idx, n)]))]

    def post(s, E, st, result):
        reg = st.self.attrs['_region'].attrs
        n = st.self.attrs['_n'].elems
        if not isinstance(result, Vec) or len(result) != len(n):
            return [('result is an array of length ndim', False)]
        out = []
        for j, (i, k) in enumerate(zip(st.idx, n)):
            pm, px = R(reg['_pmin'].elems[j]), R(reg['_pmax'].elems[j])
            out.append((f'centre[{j}] = pmin + (i+1/2)*edges/n', R(result.elems[j]) * R(k) == pm * R(k) + (R(i) + HALF) * (px - pm)))
        return out

    def fresh_result(s, E, st):
        return Vec([E.fresh('ctr', 'float', True) for _ in st.idx])


class Point2Index(Contract):
    name = 'Mesh.point2index'
    qual = ('Mesh', 'point2index')
    func = 'Mesh.point2index'

    def configs(s, tier):
        return [{'ndim': d} for d in NDIMS[tier]] + [{'ndim': 2, 'bad': 'len'}]

    def pre_state(s, E, cfg):
        d = cfg['ndim']
        m, assume = sym_mesh(E, d)
        p = tuple(inp(E, f'p{j}', 'float') for j in range(d))
        if cfg.get('bad') == 'len':
            p = p[:1]
        st = s.bind(E, m, [p], {})
        st.assume = assume
        return st

    def bind(s, E, selfobj, args, kw):
        st = State(selfobj, args, kw)
        p = args[0]
        if is_real_scalar(E, p):
            p = [p]
        st.p = seq_elems(E, p)
        return st

    def frame(s, E, st):
        return [('self', st.self)]

    def requires(s, E, st):
        return [st.p is not None and all(is_real_scalar(E, x) for x in st.p)]

    def raises(s, E, st):
        if len(st.p) != len(st.self.attrs['_n'].elems):
            return [('ValueError', True)]
        return [('ValueError', z3.Not(contains_point(E, st.self.attrs['_region'], st.p)))]

    def post(s, E, st, result):
        reg = st.self.attrs['_region'].attrs
        n = st.self.attrs['_n'].elems
        if not isinstance(result, tuple) or len(result) != len(n):
            return [('result is a tuple of length ndim', False)]
        out = []
        for j, (p, k) in enumerate(zip(st.p, n)):
            pm, px = R(reg['_pmin'].elems[j]), R(reg['_pmax'].elems[j])
            kk = result[j]
            if not (isinstance(kk, int) or (isinstance(kk, Sym) and kk.kind == 'int' and not kk.np)):
                out.append((f'index[{j}] is a python int', False))
                continue
            kr, e, x = R(kk), px - pm, R(k) * (R(p) - pm)
            out.append((f'0 <= index[{j}] < n', z3.And(I(kk) >= 0, I(kk) < I(k))))
            inside = z3.And(pm <= R(p), R(p) <= px)
            out.append((f'index[{j}]: cell contains the point (lower face inclusive, last cell upper-inclusive)',
                        z3.Implies(inside, z3.And(kr * e <= x, z3.Or(x < (kr + 1) * e, z3.And(I(kk) == I(k) - 1, x <= (kr + 1) * e))))))
            cell = getattr(st.self, 'ghost', {}).get('cell') if hasattr(st.self, 'ghost') else None
            if cell:
                # the same containment in terms of the cell size (states parametrised by (pmin, cell, n): edges == n*cell);
                # redundant, but linear in the index - callers reason with this form
                cj, xr = R(cell[j]), R(p) - pm
                out.append((f'index[{j}]: index*cell <= p - pmin < (index+1)*cell (last cell upper-inclusive)',
                            z3.Implies(inside, z3.And(kr * cj <= xr, z3.Or(xr < (kr + 1) * cj, z3.And(I(kk) == I(k) - 1, xr <= (kr + 1) * cj))))))
            out.append((f'index[{j}]: tolerance band below pmin -> first cell', z3.Implies(R(p) < pm, I(kk) == 0)))
            out.append((f'index[{j}]: tolerance band above pmax -> last cell', z3.Implies(R(p) > px, I(kk) == I(k) - 1)))
        return out

    def fresh_result(s, E, st):
        # point2index is a pure function of the region geometry, the cell counts and the point: at use sites its result
        # is the application of one uninterpreted function per axis (so two calls with equal arguments agree by
        # congruence); WHAT that function is, is exactly the post-condition above (assumed at every use)
        return tuple(Sym(t, 'int') for t in cell_of(E, st.self, st.p))


_P2I_FUN = {}


def cell_of(E, mesh, p):
    """spec function: the index tuple Mesh.point2index(p) (one uninterpreted Int function per axis and dimension count)"""
    reg = mesh.attrs['_region'].attrs
    d = len(reg['_pmin'].elems)
    if getattr(E, 'valuation', None) is not None:
        # replay on concrete data: the value of the spec function is computed (floor of the cell coordinate, clipped)
        import math, fractions
        from pyvc.states import tofloat
        out = []
        for a, b, k, x in zip(reg['_pmin'].elems, reg['_pmax'].elems, mesh.attrs['_n'].elems, p):
            a, b, k, x = (fractions.Fraction(tofloat(v)) for v in (a, b, k, x))
            out.append(z3.IntVal(int(min(max(math.floor((x - a) * k / (b - a)), 0), k - 1))))
        return out
    args = [toreal(R(x)) for x in reg['_pmin'].elems] + [toreal(R(x)) for x in reg['_pmax'].elems] + \
           [toreal(R(x)) for x in mesh.attrs['_n'].elems] + [toreal(R(reg['_tolerance_factor']))] + [toreal(R(x)) for x in p]
    out = []
    for j in range(d):
        key = (d, j)
        if key not in _P2I_FUN:
            _P2I_FUN[key] = z3.Function(f'point2index_{d}d_{j}', *([z3.RealSort()] * len(args)), z3.IntSort())
        out.append(_P2I_FUN[key](*args))
    return out


# ======================================================================= Mesh.__init__
def cell_tol(E, cell):
    """tolerance of the whole-number-of-cells test, per direction: 0.1 % of that direction's cell (a tolerance tied to the
    SMALLEST cell of all directions rejected meshes with very different cell sizes whose large-cell edges are whole numbers of
    cells up to rounding - genuine defect found by the bounded tier, repaired in /repo)"""
    return [R(c) * z3.RealVal('1/1000') for c in cell]


class MeshInit(Contract):
    """Mesh(region=..., n=... | cell=..., bc=..., subregions=...)"""
    name = 'Mesh.__init__'
    qual = ('Mesh', '__init__')
    func = 'Mesh.__init__'

    def configs(s, tier):
        out = []
        for d in NDIMS[tier]:
            out += [{'ndim': d, 'by': 'n'}, {'ndim': d, 'by': 'cell', 'tf': 1e-12}, {'ndim': d, 'by': 'cell_commensurate', 'tf': 1e-12}]
        out += [{'ndim': 2, 'by': 'none'}, {'ndim': 2, 'by': 'both'}, {'ndim': 2, 'by': 'n', 'bc': 'ab'},
                {'ndim': 2, 'by': 'n', 'bc': 'aa'}, {'ndim': 2, 'by': 'n', 'bc': 'q'}, {'ndim': 2, 'by': 'n', 'bc': 'Neumann'},
                {'ndim': 1, 'by': 'cell_scalar'}, {'ndim': 2, 'by': 'n_len'}]
        return out

    def pre_state(s, E, cfg):
        d = cfg['ndim']
        by = cfg['by']
        assume = []
        o = Obj('Mesh')
        kw = {}
        if by == 'cell_commensurate':
            # the region is a whole number of cells: parametrised by (pmin, cell, k)
            m0, assume = sym_mesh(E, d, prefix='g', tf=cfg.get('tf'))
            reg = m0.attrs['_region']
            kw = {'region': reg, 'cell': tuple(E.pyscalar(c) for c in m0.ghost['cell'])}
            st = s.bind(E, o, [], kw)
            st.commensurate_n = m0.attrs['_n'].elems
        else:
            reg, assume = sym_region(E, d, tf=cfg.get('tf'))
            kw['region'] = reg
            if by in ('n', 'both', 'n_len'):
                kw['n'] = tuple(inp(E, f'n{j}', 'int') for j in range(d))
                if by == 'n_len':
                    kw['n'] = kw['n'][:1]
            if by in ('cell', 'both'):
                kw['cell'] = tuple(inp(E, f'c{j}', 'float') for j in range(d))
            if by == 'cell_scalar':
                kw['cell'] = inp(E, 'c0', 'float')
            if 'bc' in cfg:
                kw['bc'] = cfg['bc']
            st = s.bind(E, o, [], kw)
        st.assume = assume
        return st

    def bind(s, E, selfobj, args, kw):
        if args:
            raise PyRaise('TypeError', note='Mesh() takes keyword arguments only')
        st = State(selfobj, args, kw)
        st.region = kw.get('region')
        st.p1, st.p2 = kw.get('p1'), kw.get('p2')
        n, cell = kw.get('n'), kw.get('cell')
        if is_real_scalar(E, n):
            n = [n]
        if is_real_scalar(E, cell):
            cell = [cell]
        st.n = seq_elems(E, n) if n is not None else None
        st.cell = seq_elems(E, cell) if cell is not None else None
        st.bc = kw.get('bc', '')
        st.subregions = kw.get('subregions')
        return st

    def frame(s, E, st):
        out = [('region', st.region)] if isinstance(st.region, Obj) else []
        if isinstance(st.subregions, dict):
            out += [(f'subregion {k}', v) for k, v in st.subregions.items() if isinstance(v, Obj)]
        return out

    def requires(s, E, st):
        return [isinstance(st.region, Obj) and st.region.cls == 'Region' and st.p1 is None and st.p2 is None,
                isinstance(st.bc, str)]

    def _edges(s, st):
        r = st.region.attrs
        return [R(b) - R(a) for a, b in zip(r['_pmin'].elems, r['_pmax'].elems)]

    def _rem(s, E, st):
        """remainder of edges by cell (np.remainder: x - c*floor(x/c)) per axis"""
        out = []
        for e, c in zip(s._edges(st), st.cell):
            d = cdiv(E, e, R(c))
            out.append(e - R(c) * z3.ToReal(z3.ToInt(d)))
        return out

    def _bc_bad(s, st):
        bc = st.bc.lower()
        if bc in ('neumann', 'dirichlet', ''):
            return False
        dims = st.region.attrs['_dims']
        return any(ch not in dims or bc.count(ch) > 1 for ch in bc)

    def raises(s, E, st):
        d = len(st.region.attrs['_pmin'].elems)
        out = []
        if st.cell is not None and st.n is None:
            if len(st.cell) != d:
                return [('ValueError', True)]
            out.append(('ValueError', disj([R(c) <= 0 for c in st.cell])))
            if getattr(E, 'call_depth', 0) > 0 and s.whole_cells(E, st):
                # use site with edges == m*cell for integer terms m >= 1 (decided): the first cell lies inside the region
                # (c <= m*c) and the remainder is exactly 0 - neither of the two remaining conditions can hold, whatever the
                # tolerance; they are not even built (they are the slow ones: tolerance formulas and floor terms)
                if s._bc_bad(st):
                    out.append(('ValueError', True))
                if st.subregions:
                    out += s.subregion_raises(E, st)
                return out
            reg = st.region
            pm = reg.attrs['_pmin'].elems
            corner = [R(a) + R(c) for a, c in zip(pm, st.cell)]
            # Region(p1=pmin, p2=pmin+cell) not in region   (p1,p2 unordered -> min/max)
            lo = [z3.If(R(a) <= k, R(a), k) for a, k in zip(pm, corner)]
            hi = [z3.If(R(a) <= k, k, R(a)) for a, k in zip(pm, corner)]
            out.append(('ValueError', z3.Not(z3.And(contains_point(E, reg, lo), contains_point(E, reg, hi)))))
            tol = cell_tol(E, st.cell)
            positive = conj([R(c) > 0 for c in st.cell])
            rem = s._rem(E, st)
            band = [z3.And(r_ > t_, r_ < R(c) - t_) for r_, c, t_ in zip(rem, st.cell, tol)]
            out.append(('ValueError', z3.And(positive, disj(band))))
        elif st.n is not None and st.cell is None:
            if len(st.n) != d:
                return [('ValueError', True)]
            if not all(kind_of(x) in ('int',) for x in st.n):
                return [('TypeError', True)]
            out.append(('ValueError', disj([I(k) <= 0 for k in st.n])))
        else:
            return [('ValueError', True)]
        if s._bc_bad(st):
            out.append(('ValueError', True))
        if st.subregions:
            out += s.subregion_raises(E, st)
        return out

    def whole_cells(s, E, st):
        """edges_j / cell_j cancels syntactically to an integer term m_j that is provably >= 1, and cell_j > 0, on every axis"""
        from pyvc.core import cancel, int_of
        for e, c in zip(s._edges(st), st.cell):
            q_ = cancel(toreal(e), toreal(R(c)))
            m = int_of(z3.simplify(q_)) if q_ is not None else None
            if m is None or E.decide(m >= 1) is not True or E.decide(R(c) > 0) is not True:
                return False
        return True

    def sub_lattice(s, E, st):
        """use sites with subregions: the lattice coordinates (a_j, b_j) of every given subregion relative to the NEW mesh,
        read off syntactically ((corner - pmin)/cell must cancel to an integer-valued term); None if that fails"""
        from pyvc.core import cancel, int_of
        reg = st.region.attrs
        if st.cell is not None:
            cells = [R(c) for c in st.cell]
        elif st.n is not None:
            # mesh requested by cell counts: the cell size is edges/n where that quotient cancels syntactically
            cells = []
            for e, k in zip(s._edges(st), st.n):
                q_ = cancel(toreal(e), toreal(R(k)))
                if q_ is None:
                    return None
                cells.append(z3.simplify(q_))
        else:
            return None
        out = {}
        for name, sr in st.subregions.items():
            if not (isinstance(name, str) and isinstance(sr, Obj) and sr.cls == 'Region'):
                return None
            a, b = [], []
            for j, c in enumerate(cells):
                def quot(num):
                    num = z3.simplify(toreal(num), som=True)
                    if z3.is_rational_value(num) and num.as_fraction() == 0:
                        return z3.IntVal(0)
                    q_ = cancel(num, toreal(c))
                    return int_of(z3.simplify(q_)) if q_ is not None else None
                ia = quot(R(sr.attrs['_pmin'].elems[j]) - R(reg['_pmin'].elems[j]))
                ib = quot(R(sr.attrs['_pmax'].elems[j]) - R(reg['_pmin'].elems[j]))
                if ia is None or ib is None:
                    return None
                a.append(z3.simplify(ia))
                b.append(z3.simplify(ib))
            out[name] = (a, b)
        return out

    def subregion_raises(s, E, st):
        """contract of the subregion setter (proved under C14) for subregions that sit on the lattice of the new mesh:
        accepted iff inside (0 <= a < b <= n); anything else is outside the modular use of this contract"""
        lat = s.sub_lattice(E, st)
        if lat is None:
            raise Unsupported('Mesh.__init__ with subregions that are not syntactically on the cell lattice: use the C14 setter contract')
        st.lat = lat
        from pyvc.core import cancel, int_of
        edges = s._edges(st)
        conds = []
        for name, (a, b) in lat.items():
            for j, (aj, bj) in enumerate(zip(a, b)):
                if st.cell is None:
                    nj = I(st.n[j])
                else:
                    q_ = cancel(toreal(edges[j]), toreal(R(st.cell[j])))
                    nj = int_of(z3.simplify(q_)) if q_ is not None else None
                if nj is None:
                    raise Unsupported('Mesh.__init__ with subregions: cell count of the new mesh not known syntactically')
                conds.append(z3.Not(z3.And(aj >= 0, aj < bj, bj <= nj)))
        return [('ValueError', disj(conds))]

    def post(s, E, st, result):
        o = st.self
        out = [('mesh keeps the very region object it was given', o.attrs.get('_region') is st.region)]
        nn = o.attrs.get('_n')
        d = len(st.region.attrs['_pmin'].elems)
        if not isinstance(nn, Vec) or len(nn) != d or nn.kind != 'int':
            return out + [('n is an integer array of length ndim', False)]
        if st.cell is not None:
            tol = cell_tol(E, st.cell)
            for j, (e, c, k) in enumerate(zip(s._edges(st), st.cell, nn.elems)):
                out.append((f'n[{j}] >= 1', I(k) >= 1))
                out.append((f'|edges[{j}] - n[{j}]*cell[{j}]| <= 1e-3*cell[{j}]', z3.And(e - R(k) * R(c) <= tol[j], R(k) * R(c) - e <= tol[j])))
            if getattr(st, 'commensurate_n', None) is not None:
                for j, (k, k0) in enumerate(zip(nn.elems, st.commensurate_n)):
                    out.append((f'edges a whole number of cells => accepted with n[{j}] = edges/cell', I(k) == I(k0)))
        else:
            for j, (k, k0) in enumerate(zip(nn.elems, st.n)):
                out.append((f'n[{j}] as given', I(k) == I(k0)))
        out.append(('bc stored in lower case', _eq(E, o.attrs.get('_bc'), st.bc.lower())))
        if not st.subregions:
            out.append(('no subregions', _eq(E, o.attrs.get('_subregions'), {})))
        return out

    def fresh_result(s, E, st):
        o = st.self
        d = len(st.region.attrs['_pmin'].elems)
        o.attrs['_region'] = st.region
        ns = [E.fresh('n', 'int', True) for _ in range(d)]
        if st.cell is not None and st.n is None and len(st.cell) == d:
            # cell path: where edges/cell cancels syntactically to an integer-valued term m, n is that term (the contract's
            # clause 'edges a whole number of cells => n == edges/cell', proved under C01; |edges - n*cell| <= cell/1000 and
            # edges == m*cell leave no other integer).  Saves a nonlinear derivation at every caller.
            from pyvc.core import cancel, int_of
            for j, (e, c) in enumerate(zip(s._edges(st), st.cell)):
                q_ = cancel(toreal(e), toreal(R(c)))
                iq = int_of(z3.simplify(q_)) if q_ is not None else None
                if iq is not None:
                    ns[j] = Sym(z3.simplify(iq), 'int', True)
        o.attrs['_n'] = Vec(ns, 'int')
        o.attrs['_bc'] = st.bc.lower()
        o.attrs['_subregions'] = {}
        if st.subregions:
            # accepted lattice subregions are re-created with the mesh's dims / units / tolerance (setter contract, C14)
            reg = st.region.attrs
            for name, sr in st.subregions.items():
                o.attrs['_subregions'][name] = Obj('Region', {'_pmin': Vec(list(sr.attrs['_pmin'].elems)), '_pmax': Vec(list(sr.attrs['_pmax'].elems)),
                                                              '_dims': reg['_dims'], '_units': reg['_units'], '_tolerance_factor': reg['_tolerance_factor']})
        return None
