"""Contracts on the real functions.

A Contract is ONE text with three uses:
  * check : the function body (real source) is executed symbolically from `pre_state`; every path's
            outcome is checked against `raises` / `post` / `frame`           (runner.check_contract)
  * use   : at call sites inside other functions under proof the callee is replaced by
            assert-requires / branch on raises / fresh result / assume post    (Contract.use)
  * replay: a counter-model is turned into concrete inputs, the REAL function is called under
            CPython/NumPy, and the same raises/post clauses are evaluated on what it did (runner.replay)
"""
import z3
from .core import *


class State:
    """what a contract talks about: receiver, arguments, (old) heap snapshot"""

    def __init__(s, selfobj=None, args=(), kw=None, **extra):
        s.self = selfobj
        s.args = list(args)
        s.kw = dict(kw or {})
        s.old = None
        s.__dict__.update(extra)


class Contract:
    qual = None          # (class or module, function name) key used at call sites
    name = None          # 'Mesh.index2point'
    role = 'property'    # 'property' (clauses from a property statement) | 'helper'
    func = None          # qualified name resolved by Source.find ; None = lemma only

    # ---- to be provided by subclasses
    def configs(s, tier):
        return [{}]

    def pre_state(s, E, cfg):
        """build the symbolic pre-state; returns State (assumptions in st.assume: list of Bool)"""
        raise NotImplementedError

    def requires(s, E, st):
        """list of python bools / z3 Bools that must hold at a call site (shape/type validity)"""
        return []

    def raises(s, E, st):
        """list of (exception name, condition) - two-sided: raised iff condition"""
        return []

    def post(s, E, st, result):
        """list of (label, Bool) on normal return; st.old = snapshot of the pre-state heap"""
        return []

    def frame(s, E, st):
        """objects whose heap must be unchanged (on every path unless listed in modifies)"""
        return []

    def fresh_result(s, E, st):
        """fresh result structure for modular use"""
        raise Unsupported(f"contract {s.name} cannot be used modularly (no fresh_result)")

    unspecified = None  # optional: function (E, st) -> Bool : region where behaviour is left unspecified

    # ---- modular use at a call site
    def bind(s, E, selfobj, args, kw):
        """call-site arguments -> State (default: positional as given)"""
        return State(selfobj, args, kw)

    def frame_on_raise(s, E, st):
        """objects that must be unchanged when the call is rejected (default: same as frame)"""
        return s.frame(E, st)

    def use(s, E, selfobj, args, kw):
        from .states import snapshot
        st = s.bind(E, selfobj, args, kw)
        st.old = {'self': snapshot(selfobj) if isinstance(selfobj, Obj) else None,
                  'args': [snapshot(a) for a in args], 'kw': {k: snapshot(v) for k, v in kw.items()}}
        for i, r in enumerate(s.requires(E, st)):
            if isinstance(r, bool):
                if not r:
                    raise Unsupported(f"call-site precondition {i} of {s.name} violated/undetermined")
            else:
                d = E.decide(r)
                if d is not True:
                    E.side('pre', f"requires#{i} of {s.name}", r)
                    E.assume(r)
        if s.unspecified is not None:
            u = s.unspecified(E, st)
            if not isinstance(u, bool) or u:
                d = E.decide(z3.Not(u)) if not isinstance(u, bool) else False
                if d is not True:
                    raise Unsupported(f"call of {s.name} may fall into its unspecified band")
        for exc, cond in s.raises(E, st):
            if isinstance(cond, bool):
                if cond:
                    raise PyRaise(exc, note=f'contract:{s.name}')
                continue
            if E.branch(cond):
                raise PyRaise(exc, note=f'contract:{s.name}')
        res = s.fresh_result(E, st)
        for label, phi in s.post(E, st, res):
            if isinstance(phi, bool):
                if not phi:
                    raise Unsupported(f"contract {s.name}: clause {label} is concretely false at use site")
                continue
            E.assume(phi)
        return res


def conj(xs):
    xs = [x for x in xs if not (isinstance(x, bool) and x)]
    if any(isinstance(x, bool) and not x for x in xs):
        return z3.BoolVal(False)
    if not xs:
        return z3.BoolVal(True)
    return z3.And(*xs) if len(xs) > 1 else xs[0]


def disj(xs):
    xs = [x for x in xs if not (isinstance(x, bool) and not x)]
    if any(isinstance(x, bool) and x for x in xs):
        return z3.BoolVal(True)
    if not xs:
        return z3.BoolVal(False)
    return z3.Or(*xs) if len(xs) > 1 else xs[0]
