"""pyvc core: value domain, path exploration (replay-based DFS), arithmetic and comparison
over z3 terms.  Floats are mathematical reals (A1), ints unbounded (A2)."""
import ast, itertools, fractions, math, time
import z3


class Unsupported(Exception):
    """construct outside the supported subset -> obligations of the function are UNDECIDED"""


class PyRaise(Exception):
    def __init__(self, exc, lineno=None, note=None):
        self.exc = exc
        self.lineno = lineno
        self.note = note

    def __str__(self):
        return f"PyRaise({self.exc}@{self.lineno})"


class _Return(Exception):
    def __init__(self, v):
        self.v = v


class _Break(Exception):
    pass


class _Continue(Exception):
    pass


class PathInfeasible(Exception):
    pass


EXC_PARENTS = {
    'ValueError': 'Exception', 'TypeError': 'Exception', 'IndexError': 'LookupError', 'KeyError': 'LookupError',
    'LookupError': 'Exception', 'AttributeError': 'Exception', 'RuntimeError': 'Exception',
    'NotImplementedError': 'RuntimeError', 'ZeroDivisionError': 'ArithmeticError', 'ArithmeticError': 'Exception',
    'AssertionError': 'Exception', 'StopIteration': 'Exception', 'Exception': 'BaseException', 'BaseException': None,
}


def exc_isinstance(name, target):
    if isinstance(target, (tuple, list)):
        return any(exc_isinstance(name, t) for t in target)
    while name is not None:
        if name == target:
            return True
        name = EXC_PARENTS.get(name)
    return False


class Sym:
    """symbolic scalar: z3 term + python kind ('int','float','bool'); np=True for numpy scalars"""
    __slots__ = ('t', 'kind', 'np')

    def __init__(s, t, kind, np=False):
        s.t = t
        s.kind = kind
        s.np = np

    def __repr__(s):
        return f"Sym<{s.kind}:{s.t}>"


class Vec:
    """1-d numpy array of concrete length (corner vectors, n, cell, index vectors)"""

    def __init__(s, elems, kind='float'):
        s.elems = list(elems)
        s.kind = kind

    def __repr__(s):
        return f"Vec{s.elems}"

    def __len__(s):
        return len(s.elems)


class Obj:
    _ids = itertools.count()

    def __init__(s, cls, attrs=None):
        s.cls = cls
        s.attrs = attrs or {}
        s.id = next(Obj._ids)

    def __repr__(s):
        return f"<{s.cls}#{s.id}>"


class OpaqueStr:
    """contents of f-strings (exception messages) are dropped by extraction"""

    def __repr__(s):
        return "<fstr>"


class TypeTag:
    def __init__(s, name):
        s.name = name

    def __repr__(s):
        return f"T({s.name})"

    def __eq__(s, o):
        return isinstance(o, TypeTag) and o.name == s.name

    def __hash__(s):
        return hash(('T', s.name))


class Closure:
    def __init__(s, fn, env, selfobj=None, cls=None, module=None):
        s.fn = fn
        s.env = env
        s.selfobj = selfobj
        s.cls = cls
        s.module = module


class Builtin:
    def __init__(s, name, f):
        s.name = name
        s.f = f

    def __repr__(s):
        return f"<builtin {s.name}>"


class Module:
    def __init__(s, name, members):
        s.name = name
        s.members = members


class PiMul:
    """rational multiple of pi: value = num * pi / den  (num may be symbolic int)"""

    def __init__(s, num, den=1):
        s.num = num
        s.den = den


class SymSeq:
    """symbolic-length sequence: length term + k-th element function (generators, product)"""

    def __init__(s, length, elem, note='', coords=None):
        s.length = length
        s.elem = elem
        s.note = note
        # coords = (sizes, fn): the sequence enumerates fn(J) for J over the full box range(sizes[0]) x ...
        # in lexicographic order (last coordinate fastest) - set by itertools.product over ranges and
        # propagated through map / zip / comprehensions / generator bodies (the map-loop rule needs it)
        s.coords = coords

    def derive(s, f, note):
        """sequence of f(element)"""
        c = None
        if s.coords is not None:
            sizes, fn = s.coords
            c = (sizes, lambda J, fn=fn: f(fn(J)))
        return SymSeq(s.length, lambda k: f(s.elem(k)), note, c)


def q(x):
    """python number -> z3 numeral (decimal meaning of float literals: A1)"""
    if isinstance(x, bool):
        return z3.BoolVal(x)
    if isinstance(x, int):
        return z3.IntVal(x)
    if isinstance(x, float):
        if x != x or x in (float('inf'), float('-inf')):
            raise Unsupported('nan/inf literal')
        fr = fractions.Fraction(repr(x))
        return z3.RealVal(str(fr))
    if isinstance(x, fractions.Fraction):
        return z3.RealVal(str(x))
    raise Unsupported(f"q({x!r})")


def is_conc_num(v):
    return isinstance(v, (int, float, fractions.Fraction)) and not isinstance(v, bool)


def kind_of(v):
    if isinstance(v, Sym):
        return v.kind
    if isinstance(v, bool):
        return 'bool'
    if isinstance(v, int):
        return 'int'
    if isinstance(v, (float, fractions.Fraction)):
        return 'float'
    raise Unsupported(f"kind_of {v!r}")


def term(v):
    if isinstance(v, Sym):
        return v.t
    if isinstance(v, z3.ExprRef):
        return v
    return q(v)


def toreal(t):
    if z3.is_bool(t):
        t = z3.If(t, z3.IntVal(1), z3.IntVal(0))
    return z3.ToReal(t) if t.sort() == z3.IntSort() else t


def toint_term(t):
    if z3.is_bool(t):
        return z3.If(t, z3.IntVal(1), z3.IntVal(0))
    return t


def R(v):
    """value -> z3 Real term"""
    return toreal(term(v))


def I(v):
    return toint_term(term(v))


def B(v):
    if isinstance(v, bool):
        return z3.BoolVal(v)
    if isinstance(v, Sym):
        return v.t if v.kind == 'bool' else (v.t != 0)
    raise Unsupported(f"B({v!r})")


def _flat_mul(t_):
    if z3.is_app(t_) and t_.decl().kind() == z3.Z3_OP_MUL:
        out = []
        for x in t_.children():
            out += _flat_mul(x)
        return out
    return [t_]


def _factor_out(term_, sb):
    """term_ = k * sb (syntactically, sb itself possibly a product with a numeric coefficient)  ->  k, else None"""
    import fractions as _fr
    isnum = lambda x: z3.is_rational_value(x) or z3.is_int_value(x)

    def split(t):
        coeff, sym = _fr.Fraction(1), []
        for x in _flat_mul(t):
            if isnum(x):
                fr = x.as_fraction()
                coeff *= _fr.Fraction(fr.numerator, fr.denominator)
            else:
                sym.append(x)
        return coeff, sym
    ca, args = split(term_)
    cb, need = split(sb)
    if cb == 0:
        return None
    for y in need:
        for i, x in enumerate(args):
            if x.eq(y):
                args = args[:i] + args[i + 1:]
                break
        else:
            return None
    k = ca / cb
    if k != 1:
        args = [z3.RealVal(str(k))] + args
    if not args:
        return z3.RealVal(1)
    return args[0] if len(args) == 1 else z3.Product(*args)


def factorize(t_):
    """t_ -> list of factors (pulls common symbolic factors out of sums-of-monomials)"""
    sa = z3.simplify(t_, som=True)
    if z3.is_app(sa) and sa.decl().kind() == z3.Z3_OP_ADD:
        first = _flat_mul(sa.children()[0])
        for f in first:
            if z3.is_rational_value(f) or z3.is_int_value(f):
                continue
            rest = cancel(sa, f)
            if rest is not None:
                return [f] + factorize(rest)
        return [sa]
    fs = _flat_mul(sa)
    return fs


def ite_lift(t, depth=5):
    """pull if-then-else out of arithmetic: f(ite(c, x, y)) -> ite(c, f(x), f(y)) (so that cancellation sees plain sums)"""
    if depth == 0:
        return t
    found = []

    def walk(u):
        if found or not z3.is_app(u):
            return
        k = u.decl().kind()
        if k == z3.Z3_OP_ITE and not z3.is_bool(u):
            found.append(u)
            return
        if k in (z3.Z3_OP_ADD, z3.Z3_OP_MUL, z3.Z3_OP_SUB, z3.Z3_OP_UMINUS, z3.Z3_OP_TO_REAL):
            for c_ in u.children():
                walk(c_)
    if z3.is_app(t) and t.decl().kind() == z3.Z3_OP_ITE and not z3.is_bool(t):
        return z3.If(t.arg(0), ite_lift(t.arg(1), depth - 1), ite_lift(t.arg(2), depth - 1))
    walk(t)
    if not found:
        return t
    i = found[0]
    c = i.arg(0)
    # case split on the condition itself: every if-then-else on the same condition is resolved in each branch
    return z3.If(c, ite_lift(z3.simplify(z3.substitute(t, (c, z3.BoolVal(True))), som=True), depth - 1),
                 ite_lift(z3.simplify(z3.substitute(t, (c, z3.BoolVal(False))), som=True), depth - 1))


def cancel(ta, tb):
    """algebraic cancellation: (k1*y + k2*y + ...) / y -> k1 + k2 + ... ; None if y is not a syntactic
    factor of every addend of the (sum-of-monomials normalised) numerator"""
    sa = ite_lift(z3.simplify(ta, som=True))
    sb = ite_lift(z3.simplify(tb, som=True))
    if z3.is_app(sb) and sb.decl().kind() == z3.Z3_OP_ITE and not z3.is_bool(sb):
        # divisor with a case split: divide case by case (the numerator is specialised to the same case)
        c = sb.arg(0)
        x = cancel(z3.substitute(sa, (c, z3.BoolVal(True))), sb.arg(1))
        y = cancel(z3.substitute(sa, (c, z3.BoolVal(False))), sb.arg(2))
        if x is not None and y is not None:
            return z3.If(c, x, y)
        return None
    if z3.is_rational_value(sa) and sa.as_fraction() == 0:
        return z3.RealVal(0)          # 0 / y = 0 (the value at y == 0 is the caller's concern, as for every quotient)
    if z3.is_app(sa) and sa.decl().kind() == z3.Z3_OP_ITE:
        x, y = cancel(sa.arg(1), sb), cancel(sa.arg(2), sb)
        if x is not None and y is not None:
            return z3.If(sa.arg(0), x, y)
        return None
    if z3.is_app(sa) and sa.decl().kind() == z3.Z3_OP_ADD:
        parts = [_factor_out(x, sb) for x in sa.children()]
        if all(p is not None for p in parts):
            return z3.simplify(z3.Sum(*parts))
        return None
    return _factor_out(sa, sb)


def int_of(t_):
    """Real-sorted term that is syntactically integer-valued (sums/products of ToReal(int) and integer
    numerals) -> the Int term; else None"""
    if t_.sort() == z3.IntSort():
        return t_
    if z3.is_rational_value(t_):
        f = t_.as_fraction()
        return z3.IntVal(f.numerator) if f.denominator == 1 else None
    if not z3.is_app(t_):
        return None
    k = t_.decl().kind()
    if k == z3.Z3_OP_TO_REAL:
        return t_.arg(0)
    if k in (z3.Z3_OP_ADD, z3.Z3_OP_MUL, z3.Z3_OP_SUB, z3.Z3_OP_UMINUS):
        parts = [int_of(c) for c in t_.children()]
        if any(p is None for p in parts):
            return None
        if k == z3.Z3_OP_ADD:
            return z3.Sum(*parts)
        if k == z3.Z3_OP_MUL:
            return z3.Product(*parts)
        if k == z3.Z3_OP_SUB:
            r = parts[0]
            for p in parts[1:]:
                r = r - p
            return r
        return -parts[0]
    if k == z3.Z3_OP_ITE:
        a, b = int_of(t_.arg(1)), int_of(t_.arg(2))
        if a is not None and b is not None:
            return z3.If(t_.arg(0), a, b)
    return None


RLIMIT_PER_MS = 9000


class Stats:
    def __init__(s):
        s.feas_queries = 0
        s.feas_seconds = 0.0
        s.simp_queries = 0


class Engine:
    """path management + scalar semantics"""
    FEAS_TIMEOUT = 4000
    SIMP_TIMEOUT = 300

    def __init__(s):
        s.counter = itertools.count()
        s.pc = []
        s.decisions = []
        s.dpos = 0
        s.newwork = []
        s.stats = Stats()
        s.obligations_side = []   # side obligations raised during execution (div0, bounds, pre of callees)
        s.concrete_mode = False
        s.simp_cache = {}

    # ---- path management (replay-based DFS)
    def explore(s, thunk, max_paths=4000):
        """thunk(): builds the pre-state and runs the code; returns value.
        Returns list of Path(decisions, outcome, pc, side, extra)."""
        results = []
        work = [[]]
        while work:
            prefix = work.pop()
            s.decisions = list(prefix)
            s.dpos = 0
            s.pc = []
            s.newwork = []
            s.counter = itertools.count()
            s.obligations_side = []
            s.simp_cache = {}
            Obj._ids = itertools.count()
            try:
                out = ('return', thunk())
            except PyRaise as e:
                out = ('raise', e.exc, e.lineno, e.note)
            except PathInfeasible:
                out = None
            work.extend(s.newwork)
            if out is not None:
                results.append(Path(list(s.decisions), out, list(s.pc), list(s.obligations_side), getattr(s, 'path_extra', None)))
            if len(results) + len(work) > max_paths:
                raise Unsupported(f"path explosion (> {max_paths})")
        return results

    def branch(s, cond):
        """cond: python bool or Sym/z3 Bool -> python bool, forking."""
        if isinstance(cond, bool):
            return cond
        if isinstance(cond, Sym):
            cond = B(cond)
        cond = z3.simplify(cond)
        if z3.is_true(cond):
            return True
        if z3.is_false(cond):
            return False
        if s.dpos < len(s.decisions):
            d = s.decisions[s.dpos]
            s.dpos += 1
        else:
            # refutations (unsat) are the cheap direction on these path conditions: ask for them first and skip the
            # satisfiability question of the other side once one side is refuted
            rf = s.oneshot(z3.Not(cond), s.FEAS_TIMEOUT)
            rt = z3.sat if rf == z3.unsat else s.oneshot(cond, s.FEAS_TIMEOUT)
            if z3.unknown in (rf, rt) and getattr(s, 'FEAS_RETRY', True):
                # a branch side that could not be refuted in time is explored (sound) - but a spurious path costs far more
                # later than a second, longer look now (time-outs under load must not create them)
                if rf == z3.unknown:
                    rf = s.oneshot(z3.Not(cond), s.FEAS_TIMEOUT * 4)
                if rt == z3.unknown and rf != z3.unsat:
                    rt = s.oneshot(cond, s.FEAS_TIMEOUT * 4)
                elif rf == z3.unsat:
                    rt = z3.sat
            # undecided feasibility never prunes: explore the branch (at worst a vacuous path)
            if rt == z3.unknown:
                rt = z3.sat
            if rf == z3.unknown:
                rf = z3.sat
            if rt == z3.sat and rf == z3.sat:
                s.newwork.append(s.decisions[:s.dpos] + [False])
                d = True
            elif rt == z3.sat:
                d = True
            elif rf == z3.sat:
                d = False
            else:
                raise PathInfeasible()
            s.decisions.append(d)
            s.dpos += 1
        s.pc.append(cond if d else z3.Not(cond))
        return d

    def fresh(s, name, kind, np=False):
        n = f"{name}!{next(s.counter)}"
        if kind == 'int':
            return Sym(z3.Int(n), 'int', np)
        if kind == 'float':
            return Sym(z3.Real(n), 'float', np)
        if kind == 'bool':
            return Sym(z3.Bool(n), 'bool', np)
        raise Unsupported(kind)

    def assume(s, c):
        if isinstance(c, bool):
            if not c:
                raise PathInfeasible()
            return
        c = z3.simplify(c)
        if z3.is_true(c):
            return          # e.g. t == t from a definitional result meeting its own post-condition
        if z3.is_false(c):
            raise PathInfeasible()
        s.pc.append(c)

    def side(s, kind, label, goal, lineno=None):
        """record a side obligation (must hold under the current path condition)"""
        s.obligations_side.append((kind, label, list(s.pc), goal, lineno))

    def oneshot(s, extra, timeout):
        t = time.time()
        so = z3.Solver()
        # budgets are z3 resource units (deterministic, independent of the load of the machine: ~9000 units per nominal
        # millisecond on this hardware); the wall-clock limit is only a safety net
        so.set('rlimit', int(timeout * RLIMIT_PER_MS))
        so.set('timeout', int(timeout * 10))
        so.add(*s.pc)
        so.add(extra)
        r = so.check()
        s.stats.feas_queries += 1
        s.stats.feas_seconds += time.time() - t
        return r

    def decide(s, c):
        """PC-aided simplification: is Bool term c implied / refuted by the current path condition?"""
        c = z3.simplify(c)
        if z3.is_true(c):
            return True
        if z3.is_false(c):
            return False
        key = (len(s.pc), c.get_id())
        hit = s.simp_cache.get(key)
        if hit is not None and hit[0].eq(c):     # the stored term is kept alive, so its id cannot be reused
            return hit[1]
        s.stats.simp_queries += 1
        r = None
        if s.oneshot(z3.Not(c), s.SIMP_TIMEOUT) == z3.unsat:
            r = True
        elif s.oneshot(c, s.SIMP_TIMEOUT) == z3.unsat:
            r = False
        s.simp_cache[key] = (c, r)
        return r

    # ---- scalar arithmetic
    def arith(s, op, a, b):
        if isinstance(a, bool):
            a = int(a)
        if isinstance(b, bool):
            b = int(b)
        if is_conc_num(a) and is_conc_num(b):
            return s.conc_arith(op, a, b)
        ka, kb = kind_of(a), kind_of(b)
        ta, tb = term(a), term(b)
        if ka == 'bool':
            ta = z3.If(ta, z3.IntVal(1), z3.IntVal(0))
            ka = 'int'
        if kb == 'bool':
            tb = z3.If(tb, z3.IntVal(1), z3.IntVal(0))
            kb = 'int'
        rk = 'float' if 'float' in (ka, kb) or op == '/' else 'int'
        npf = (isinstance(a, Sym) and a.np) or (isinstance(b, Sym) and b.np)
        if rk == 'float':
            ta, tb = toreal(ta), toreal(tb)
        if op == '+':
            return Sym(z3.simplify(ta + tb), rk, npf)
        if op == '-':
            return Sym(z3.simplify(ta - tb), rk, npf)
        if op == '*':
            return Sym(z3.simplify(ta * tb), rk, npf)
        if op == '/':
            return s.divide(ta, tb, npf)
        if op == '%':
            if rk == 'int':
                nz = s.branch(tb != 0)
                if not nz:
                    raise PyRaise('ZeroDivisionError')
                # python % : sign of divisor; z3 mod is non-negative: equal for positive divisor
                pos = s.decide(tb > 0)
                if pos is True:
                    return Sym(ta % tb, 'int', npf)
                return Sym(z3.If(tb > 0, ta % tb, -((-ta) % (-tb))), 'int', npf)
            # float remainder: a - b*floor(a/b); kept in the factored form b*(q - floor(q)) when q = a/b is explicit
            d = s.divide(ta, tb, npf)
            if int_of(z3.simplify(d.t)) is not None:
                return Sym(z3.RealVal(0), 'float', npf)
            fl = z3.ToReal(s.floor_term(d.t))
            if not (z3.is_const(d.t) and d.t.decl().name().startswith('div!')):
                return Sym(tb * (d.t - fl), 'float', npf)
            return Sym(ta - tb * fl, 'float', npf)
        if op == '//':
            if rk == 'int':
                nz = s.branch(tb != 0)
                if not nz:
                    raise PyRaise('ZeroDivisionError')
                pos = s.decide(tb > 0)
                if pos is True:
                    return Sym(ta / tb, 'int', npf)
                return Sym(z3.If(tb > 0, ta / tb, (-ta) / (-tb)), 'int', npf)
            d = s.divide(ta, tb, npf)
            return Sym(z3.ToReal(s.floor_term(d.t)), 'float', npf)
        if op == '**':
            if isinstance(b, int) and not isinstance(b, bool) and b >= 0:
                r = 1 if ka == 'int' else 1.0
                for _ in range(b):
                    r = s.arith('*', r, a)
                return r
        raise Unsupported(f"arith {op} on {a!r},{b!r}")

    def conc_arith(s, op, a, b):
        # exact rational arithmetic for concrete values (keeps float/int kinds)
        isf = isinstance(a, (float, fractions.Fraction)) or isinstance(b, (float, fractions.Fraction)) or op == '/'
        if s.concrete_mode:
            # native CPython semantics (engine cross-check mode)
            try:
                return {'+': lambda: a + b, '-': lambda: a - b, '*': lambda: a * b, '/': lambda: a / b,
                        '//': lambda: a // b, '%': lambda: a % b, '**': lambda: a ** b}[op]()
            except ZeroDivisionError:
                raise PyRaise('ZeroDivisionError')
        fa = fractions.Fraction(repr(a)) if isinstance(a, float) else fractions.Fraction(a)
        fb = fractions.Fraction(repr(b)) if isinstance(b, float) else fractions.Fraction(b)
        try:
            if op == '+':
                r = fa + fb
            elif op == '-':
                r = fa - fb
            elif op == '*':
                r = fa * fb
            elif op == '/':
                r = fa / fb
            elif op == '//':
                r = fractions.Fraction(math.floor(fa / fb))
            elif op == '%':
                r = fa - fb * math.floor(fa / fb)
            elif op == '**':
                if isinstance(b, int):
                    r = fa ** b
                else:
                    raise Unsupported('non-integer power')
            else:
                raise Unsupported(op)
        except ZeroDivisionError:
            raise PyRaise('ZeroDivisionError')
        if not isf:
            return int(r)
        return r if r.denominator != 1 or True else r

    def divide(s, ta, tb, npf=False):
        """x / y as fresh d with d*y == x; divisor != 0 is a side obligation (numpy would give inf/nan)"""
        ta, tb = toreal(ta), z3.simplify(toreal(tb))
        if z3.is_rational_value(tb) or z3.is_int_value(tb):
            if tb.as_fraction() == 0:
                raise PyRaise('ZeroDivisionError')
            return Sym(z3.simplify(ta / tb), 'float', npf)
        canc = cancel(ta, tb)
        nz = s.decide(tb != 0)
        if nz is False:
            raise PyRaise('ZeroDivisionError')
        if canc is not None:
            if nz is None:
                s.side('div0', 'divisor != 0', tb != 0)
                s.assume(tb != 0)
            return Sym(canc, 'float', npf)
        if nz is None:
            s.side('div0', 'divisor != 0', tb != 0)
            s.assume(tb != 0)
        d = s.fresh('div', 'float', npf)
        s.assume(d.t * tb == ta)
        return d

    def neg(s, a):
        if is_conc_num(a):
            return -a
        if isinstance(a, bool):
            return -int(a)
        return Sym(z3.simplify(-I(a) if a.kind != 'float' else -a.t), 'int' if a.kind != 'float' else 'float', a.np)

    def cmp(s, op, a, b):
        """scalar comparison -> python bool or Sym bool"""
        if isinstance(a, fractions.Fraction) or isinstance(b, fractions.Fraction) or \
           (isinstance(a, (int, float, bool)) and isinstance(b, (int, float, bool))):
            if not isinstance(a, Sym) and not isinstance(b, Sym):
                fa = fractions.Fraction(repr(a)) if isinstance(a, float) else a
                fb = fractions.Fraction(repr(b)) if isinstance(b, float) else b
                if s.concrete_mode:
                    fa, fb = a, b
                return {'==': fa == fb, '!=': fa != fb, '<': fa < fb, '<=': fa <= fb, '>': fa > fb, '>=': fa >= fb}[op]
        ta, tb = term(a), term(b)
        if z3.is_bool(ta) and z3.is_bool(tb):
            if op == '==':
                return Sym(z3.simplify(ta == tb), 'bool')
            if op == '!=':
                return Sym(z3.simplify(ta != tb), 'bool')
        if z3.is_bool(ta):
            ta = z3.If(ta, z3.IntVal(1), z3.IntVal(0))
        if z3.is_bool(tb):
            tb = z3.If(tb, z3.IntVal(1), z3.IntVal(0))
        if ta.sort() != tb.sort():
            ta, tb = toreal(ta), toreal(tb)
        t = {'==': ta == tb, '!=': ta != tb, '<': ta < tb, '<=': ta <= tb, '>': ta > tb, '>=': ta >= tb}[op]
        t = z3.simplify(t)
        if z3.is_true(t):
            return True
        if z3.is_false(t):
            return False
        return Sym(t, 'bool')

    def not_(s, v):
        if isinstance(v, bool):
            return not v
        if isinstance(v, Sym):
            return Sym(z3.simplify(z3.Not(B(v))), 'bool')
        raise Unsupported(f"not_ {v!r}")

    def and_(s, a, b):
        if isinstance(a, bool):
            return b if a else False
        if isinstance(b, bool):
            return a if b else False
        return Sym(z3.And(B(a), B(b)), 'bool')

    def or_(s, a, b):
        if isinstance(a, bool):
            return True if a else b
        if isinstance(b, bool):
            return True if b else a
        return Sym(z3.Or(B(a), B(b)), 'bool')

    def ite(s, c, a, b):
        if isinstance(c, bool):
            return a if c else b
        d = s.decide(B(c))
        if d is not None:
            return a if d else b
        if isinstance(a, bool) or isinstance(b, bool) or (isinstance(a, Sym) and a.kind == 'bool'):
            return Sym(z3.If(B(c), B(a), B(b)), 'bool')
        k = 'float' if 'float' in (kind_of(a), kind_of(b)) else 'int'
        ta, tb = term(a), term(b)
        if k == 'float':
            ta, tb = toreal(ta), toreal(tb)
        else:
            ta, tb = toint_term(ta), toint_term(tb)
        npf = (isinstance(a, Sym) and a.np) or (isinstance(b, Sym) and b.np)
        return Sym(z3.If(B(c), ta, tb), k, npf)

    def absv(s, a):
        if is_conc_num(a):
            return abs(a)
        if isinstance(a, Sym) and a.kind == 'float':
            # |x*y*...| = |x|*|y|*... : factors of known sign (from the path condition) drop their abs
            fs = factorize(a.t)
            if len(fs) > 1:
                out = []
                for f in fs:
                    if z3.is_rational_value(f) or z3.is_int_value(f):
                        fr = f.as_fraction()
                        out.append(z3.RealVal(str(abs(fr))))
                        continue
                    ge = s.decide(f >= 0)
                    if ge is True:
                        out.append(f)
                    elif s.decide(f <= 0) is True:
                        out.append(-f)
                    else:
                        it = int_of(f)
                        if it is not None:
                            out.append(z3.ToReal(z3.If(it >= 0, it, -it)))
                        else:
                            out.append(z3.If(f >= 0, f, -f))
                return Sym(z3.Product(*out), 'float', a.np)
        return s.ite(s.cmp('>=', a, 0), a, s.neg(a))

    def minv(s, a, b):
        c = s.cmp('<=', a, b)
        return s.ite(c, a, b)

    def maxv(s, a, b):
        c = s.cmp('>=', a, b)
        return s.ite(c, a, b)

    def floor_term(s, t_):
        """Int term equal to floor(t_) for a Real term: floor(I + r) = I + floor(r) for integer-valued I;
        floor(r) is resolved to -1 / 0 when the path condition pins r into [-1,0) / [0,1)"""
        sa = z3.simplify(t_, som=True)
        it = int_of(sa)
        if it is not None:
            return z3.simplify(it)
        addends = sa.children() if (z3.is_app(sa) and sa.decl().kind() == z3.Z3_OP_ADD) else [sa]
        ints, rest = [], []
        for x in addends:
            ix = int_of(x)
            (ints if ix is not None else rest).append(ix if ix is not None else x)
        r = z3.Sum(*rest) if len(rest) > 1 else rest[0]
        base = z3.Sum(*ints) if len(ints) > 1 else (ints[0] if ints else z3.IntVal(0))
        fl = None
        if ints or True:
            for lo in (0, -1):
                if s.decide(z3.And(r >= lo, r < lo + 1)) is True:
                    fl = z3.IntVal(lo)
                    break
        if fl is None:
            fl = z3.ToInt(r)
        return z3.simplify(base + fl)

    def floor(s, a):
        if isinstance(a, bool):
            return int(a)
        if isinstance(a, int):
            return a
        if isinstance(a, float):
            return float(math.floor(a))
        if isinstance(a, fractions.Fraction):
            return fractions.Fraction(math.floor(a))
        if a.kind != 'float':
            return a
        return Sym(z3.ToReal(s.floor_term(a.t)), 'float', a.np)

    def ceil(s, a):
        if isinstance(a, Sym):
            if a.kind != 'float':
                return a
            return Sym(z3.ToReal(-s.floor_term(-a.t)), 'float', a.np)
        if isinstance(a, int):
            return a
        if isinstance(a, fractions.Fraction):
            return fractions.Fraction(math.ceil(a))
        return float(math.ceil(a))

    def trunc_int(s, a):
        """astype(int) / int(): truncation toward zero"""
        if isinstance(a, Sym):
            if a.kind == 'int':
                return a
            if a.kind == 'bool':
                return Sym(z3.If(a.t, z3.IntVal(1), z3.IntVal(0)), 'int', a.np)
            t = a.t
            # a term of the form ToReal(i) truncates to i
            it = int_of(z3.simplify(t))
            if it is not None:
                return Sym(z3.simplify(it), 'int', a.np)
            nonneg = s.decide(t >= 0)
            if nonneg is True:
                return Sym(s.floor_term(t), 'int', a.np)
            if s.decide(t <= 0) is True:
                return Sym(-s.floor_term(-t), 'int', a.np)
            return Sym(z3.If(t >= 0, z3.ToInt(t), -z3.ToInt(-t)), 'int', a.np)
        if isinstance(a, fractions.Fraction):
            return int(a)
        return int(a)

    def to_float(s, a):
        if isinstance(a, Sym):
            if a.kind == 'float':
                return a
            return Sym(toreal(a.t), 'float', a.np)
        if isinstance(a, bool):
            return float(a)
        if isinstance(a, int):
            return float(a)
        return a

    def round_(s, a):
        """np.round / round: some integer within 1/2 (ties unspecified: over-approximation)"""
        if isinstance(a, Sym):
            if a.kind != 'float':
                return a
            if int_of(z3.simplify(a.t)) is not None:
                return a
            # round defined through floor: r = fl if frac < 1/2, fl+1 if frac > 1/2, either on a tie
            fl = s.floor_term(a.t)
            fr = a.t - z3.ToReal(fl)
            tie = s.fresh('tie', 'int')
            s.assume(z3.Or(tie.t == fl, tie.t == fl + 1))
            half = z3.RealVal('1/2')
            r = Sym(z3.If(fr < half, fl, z3.If(fr > half, fl + 1, tie.t)), 'int')
            return Sym(z3.ToReal(r.t), 'float', a.np)
        if isinstance(a, fractions.Fraction):
            return fractions.Fraction(round(a))
        if isinstance(a, int):
            return a
        return float(round(a))


class Path:
    def __init__(s, decisions, outcome, pc, side, extra):
        s.decisions = decisions
        s.outcome = outcome
        s.pc = pc
        s.side = side
        s.extra = extra

    @property
    def kind(s):
        return s.outcome[0]
