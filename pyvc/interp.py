"""pyvc interpreter: executes the real function bodies (ast of /repo sources, re-read on every
run) over the symbolic value domain of core.py.  Modular at call boundaries: a callee with a
registered contract is replaced by assert-pre / assume-post (see contracts.py)."""
import ast, itertools, fractions, os
import z3
from .core import *
from .core import _Return, _Break, _Continue

REPO = os.environ.get('PYVC_REPO', '/repo')
SRC_FILES = {
    'region': 'discretisedfield/region.py',
    'mesh': 'discretisedfield/mesh.py',
    'field': 'discretisedfield/field.py',
    'operators': 'discretisedfield/operators.py',
    'util': 'discretisedfield/util/util.py',
}


class Source:
    """mechanical extraction of the functions under contract from the working tree"""

    def __init__(s, repo=None, overrides=None):
        s.repo = repo or REPO
        s.text = {}
        s.mods = {}
        for m, p in SRC_FILES.items():
            t = open(os.path.join(s.repo, p)).read()
            if overrides and m in overrides:
                t = overrides[m](t)
            s.text[m] = t
            s.mods[m] = ast.parse(t)
        s.classes = {}   # clsname -> dict(methods, props, setters, classmethods, module, consts)
        s.funcs = {}     # (module, name) -> FunctionDef
        s.dispatch = {}  # (cls, fname) -> list of (typename, FunctionDef)
        for mn, m in s.mods.items():
            s._scan(mn, m)

    def _scan(s, mn, m):
        for node in m.body:
            if isinstance(node, ast.ClassDef):
                d = s.classes.setdefault(node.name, {'methods': {}, 'props': {}, 'setters': {}, 'classmethods': {},
                                                     'module': mn, 'consts': {}, 'slots': None})
                for b in node.body:
                    if isinstance(b, ast.FunctionDef):
                        decs = [ast.unparse(x) for x in b.decorator_list]
                        if 'property' in decs:
                            d['props'][b.name] = b
                        elif any(x.endswith('.setter') for x in decs):
                            d['setters'][b.name] = b
                        elif any('.register(' in x for x in decs):
                            for x in b.decorator_list:
                                src = ast.unparse(x)
                                if '.register(' in src:
                                    base = src.split('.register(')[0]
                                    s.dispatch.setdefault((node.name, base), []).append((ast.unparse(x.args[0]).split('.')[-1], b))
                        elif 'classmethod' in decs:
                            d['classmethods'][b.name] = b
                        else:
                            d['methods'][b.name] = b
                            if any('singledispatchmethod' in x for x in decs):
                                s.dispatch.setdefault((node.name, b.name), []).append(('object', b))
                    elif isinstance(b, ast.Assign) and len(b.targets) == 1 and isinstance(b.targets[0], ast.Name):
                        try:
                            d['consts'][b.targets[0].id] = ast.literal_eval(b.value)
                        except Exception:
                            pass
            elif isinstance(node, ast.FunctionDef):
                decs = [ast.unparse(x) for x in node.decorator_list]
                reg = [x for x in node.decorator_list if '.register(' in ast.unparse(x)]
                if reg:
                    for x in reg:
                        src = ast.unparse(x)          # Field._as_array.register(Field)
                        base = src.split('.register(')[0]
                        cls, fname = base.split('.')[-2:]
                        s.dispatch.setdefault((cls, fname), []).append((ast.unparse(x.args[0]).split('.')[-1], node))
                else:
                    s.funcs[(mn, node.name)] = node

    def find(s, qual):
        """'Mesh.index2point' | 'operators:_1d_diff' -> (FunctionDef, cls, module)"""
        if ':' in qual:
            mn, fn = qual.split(':')
            return s.funcs[(mn, fn)], None, mn
        cls, fn = qual.split('.', 1)
        c = s.classes[cls]
        if fn.endswith('.setter'):
            return c['setters'][fn[:-7]], cls, c['module']
        for k in ('methods', 'props', 'classmethods'):
            if fn in c[k]:
                return c[k][fn], cls, c['module']
        if fn.endswith('.setter'):
            return c['setters'][fn[:-7]], cls, c['module']
        raise KeyError(qual)


DROPPED = ["docstrings", "type annotations", "contents of f-strings in exception messages (opaque strings)",
           "warnings.warn(...) calls (no-op)", "html/plotting accessors"]


class Interp(Engine):
    def __init__(s, source):
        super().__init__()
        s.src = source
        s.classes = source.classes
        s.contracts = {}     # (cls or module, fname) -> Contract
        s.inline_only = set()
        s.call_depth = 0
        s.np = Module('np', s.np_members())
        numbers_m = Module('numbers', {k: TypeTag(k) for k in ['Real', 'Integral', 'Number', 'Complex']})
        abc = Module('abc', {'Iterable': TypeTag('Iterable'), 'Callable': TypeTag('Callable')})
        dfmod = Module('df', {c: TypeTag(c) for c in source.classes})
        dfmod.members['Line'] = TypeTag('Line')
        util_members = {n: Closure(f, None, module='util') for (m, n), f in source.funcs.items() if m == 'util'}
        g = {
            'np': s.np, 'numbers': numbers_m, 'Integral': TypeTag('Integral'), 'Number': TypeTag('Number'),
            'df': dfmod, 'dfu': Module('dfu', util_members),
            'collections': Module('collections', {'abc': abc, 'namedtuple': Builtin('namedtuple', s.namedtuple_)}),
            'itertools': Module('itertools', {'product': Builtin('product', s.it_product)}),
            'spfft': Module('spfft', {'fftfreq': Builtin('fftfreq', lambda a, k: s.fftfreq_(a, k, False)),
                                      'rfftfreq': Builtin('rfftfreq', lambda a, k: s.fftfreq_(a, k, True))}),
            'warnings': Module('warnings', {'warn': Builtin('warn', lambda a, k: None)}),
            'contextlib': Module('contextlib', {'suppress': Builtin('suppress', lambda a, k: ('suppress', a))}),
            'functools': Module('functools', {}),
            'tuple': TypeTag('tuple'), 'list': TypeTag('list'), 'str': TypeTag('str'), 'int': TypeTag('int'),
            'dict': TypeTag('dict'), 'float': TypeTag('float'), 'bool': TypeTag('bool'), 'set': TypeTag('set'),
            'complex': TypeTag('complex'), 'object': TypeTag('object'), 'slice': Builtin('slice', lambda a, k: slice(*a)),
            'len': Builtin('len', lambda a, k: s.len_(a[0])), 'all': Builtin('all', lambda a, k: s.all_(a[0])),
            'any': Builtin('any', lambda a, k: s.any_(a[0])),
            'isinstance': Builtin('isinstance', lambda a, k: s.isinstance_(a[0], a[1])),
            'range': Builtin('range', lambda a, k: s.range_(a)),
            'zip': Builtin('zip', lambda a, k: s.zip_(a)),
            'enumerate': Builtin('enumerate', lambda a, k: [(i, x) for i, x in enumerate(s.iter_(a[0]))]),
            'reversed': Builtin('reversed', lambda a, k: s.reversed_(a[0])),
            'abs': Builtin('abs', lambda a, k: s.unop_abs(a[0])),
            'min': Builtin('min', lambda a, k: s.minmax(a, 'min')), 'max': Builtin('max', lambda a, k: s.minmax(a, 'max')),
            'sum': Builtin('sum', lambda a, k: s.sum_(a)),
            'sorted': Builtin('sorted', lambda a, k: s.sorted_(a[0])),
            'type': Builtin('type', lambda a, k: s.type_(a[0])),
            'getattr': Builtin('getattr', lambda a, k: s.getattr_(a[0], a[1]) if len(a) == 2 else s.getattr_default(a[0], a[1], a[2])),
            'hasattr': Builtin('hasattr', lambda a, k: s.hasattr_(a[0], a[1])),
            'callable': Builtin('callable', lambda a, k: isinstance(a[0], (Closure, Builtin))),
            'map': Builtin('map', lambda a, k: s.map_(a[0], a[1:])),
            'round': Builtin('round', lambda a, k: s.round_(a[0])),
            'print': Builtin('print', lambda a, k: None),
            'dir': Builtin('dir', lambda a, k: []),
            'ValueError': 'ValueError', 'TypeError': 'TypeError', 'IndexError': 'IndexError', 'KeyError': 'KeyError',
            'AttributeError': 'AttributeError', 'RuntimeError': 'RuntimeError', 'NotImplementedError': 'NotImplementedError',
            'Exception': 'Exception', 'DeprecationWarning': 'DeprecationWarning', 'ZeroDivisionError': 'ZeroDivisionError',
            'Ellipsis': Ellipsis,
        }
        for c in source.classes:
            g[c] = TypeTag(c)
        for (m, n), f in source.funcs.items():
            if m == 'operators':
                g.setdefault(n, Closure(f, None, module='operators'))
        s.globals = g

    # ------------------------------------------------------------------ helpers
    def namedtuple_(s, a, k):
        names = list(a[1])
        return Builtin('namedtuple_ctor', lambda aa, kk, names=names: NamedTuple(names, list(aa)))

    def it_product(s, a, k):
        if 'repeat' in k:
            seqs = [s.iter_(x) for x in a] * k['repeat']
            return [tuple(x) for x in itertools.product(*seqs)]
        if all(isinstance(x, (list, tuple)) for x in a):
            return [tuple(x) for x in itertools.product(*a)]
        # factors of symbolic length (ranges): lexicographic order, last factor fastest  [A] itertools.product
        facs = [x if isinstance(x, SymSeq) else SymSeq(len(x), (lambda j, x=x: s.select_list(list(x), j))) for x in a]
        total = 1
        for f_ in facs:
            total = s.arith('*', total, f_.length)

        def elem(kk, facs=facs):
            out = [None] * len(facs)
            rest = kk
            for j in range(len(facs) - 1, -1, -1):
                m = facs[j].length
                if j == 0:
                    out[j] = facs[j].elem(rest)
                else:
                    out[j] = facs[j].elem(s.arith('%', rest, m))
                    rest = s.arith('//', rest, m)
            return tuple(out)
        ranges = all(getattr(f_, 'note', '') == 'range' for f_ in facs)
        return SymSeq(total, elem, 'product', ([f_.length for f_ in facs], lambda J: tuple(J)) if ranges else None)

    def select_list(s, lst, j):
        if isinstance(j, int):
            return lst[j]
        r = lst[-1]
        for i in range(len(lst) - 2, -1, -1):
            r = s.ite(s.cmp('==', j, i), lst[i], r)
        return r

    def range_(s, a):
        if all(isinstance(x, int) and not isinstance(x, bool) for x in a):
            return list(range(*a))
        if len(a) == 1:
            return SymSeq(a[0], lambda j: j, 'range')
        raise Unsupported('symbolic range with start/step')

    def zip_(s, a):
        its = [s.call_method(x, '__iter__', [], {}) if isinstance(x, Obj) else x for x in a]
        a = its
        if any(isinstance(x, SymSeq) for x in its):
            if not all(isinstance(x, SymSeq) for x in its):
                raise Unsupported('zip of symbolic and concrete sequences')
            co = None
            if all(x.coords is not None for x in its) and all(len(x.coords[0]) == len(its[0].coords[0]) for x in its):
                co = (its[0].coords[0], lambda J: tuple(x.coords[1](J) for x in its))
            return SymSeq(its[0].length, lambda j: tuple(x.elem(j) for x in its), 'zip', co)
        return [tuple(x) for x in zip(*[s.iter_(y) for y in a])]

    def reversed_(s, v):
        if isinstance(v, Vec):
            return list(reversed(v.elems))
        return list(reversed(s.iter_(v)))

    def map_(s, f, seqs):
        if len(seqs) == 1 and isinstance(seqs[0], SymSeq):
            q_ = seqs[0]
            return q_.derive(lambda e: s.call(f, [e], {}), 'map')
        lists = [s.iter_(x) for x in seqs]
        return [s.call(f, list(xs), {}) for xs in zip(*lists)]

    def type_(s, v):
        if isinstance(v, Obj):
            return TypeTag(v.cls)
        if isinstance(v, Sym):
            return TypeTag({'int': 'int', 'float': 'float', 'bool': 'bool'}[v.kind])
        if isinstance(v, bool):
            return TypeTag('bool')
        if isinstance(v, int):
            return TypeTag('int')
        if isinstance(v, (float, fractions.Fraction)):
            return TypeTag('float')
        if isinstance(v, str):
            return TypeTag('str')
        if isinstance(v, (list, tuple, dict)):
            return TypeTag(type(v).__name__)
        if isinstance(v, Vec):
            return TypeTag('ndarray')
        return TypeTag('typeof')

    def fftfreq_(s, a, k, real):
        """[A] scipy.fft.fftfreq(n, d): n sample frequencies [0, 1, .., (n-1)//2, -(n//2), .., -1] / (n d);
        rfftfreq(n, d): [0, 1, .., n//2] / (n d).  A symbolic-length sequence with its extremes known in closed form."""
        n = s.pyscalar(a[0])
        d = a[1] if len(a) > 1 else k.get('d', 1.0)
        nd = s.arith('*', n, d)
        half = s.arith('//', n, 2)
        if real:
            seq = SymSeq(s.arith('+', half, 1), lambda j: s.arith('/', s.to_float(j), nd), 'rfftfreq')
            seq.min_term, seq.max_term = 0.0, s.arith('/', s.to_float(half), nd)
        else:
            top = s.arith('//', s.arith('-', n, 1), 2)           # (n-1)//2 : index of the largest frequency

            def elem(j):
                neg = s.arith('-', j, n)
                return s.arith('/', s.to_float(s.ite(s.cmp('<=', j, top), j, neg)), nd)
            seq = SymSeq(n, elem, 'fftfreq')
            seq.min_term = s.arith('/', s.to_float(s.neg(half)), nd)
            seq.max_term = s.arith('/', s.to_float(top), nd)
        return seq

    def minmax(s, a, which):
        if len(a) == 1 and isinstance(a[0], SymSeq) and hasattr(a[0], 'min_term'):
            return a[0].min_term if which == 'min' else a[0].max_term
        xs = s.iter_(a[0]) if len(a) == 1 else list(a)
        if any(isinstance(x, TypeTag) for x in xs):
            order = ['bool', 'int', 'float', 'complex']
            names = [x.name for x in xs]
            if all(n in order for n in names):
                return TypeTag(max(names, key=order.index) if which == 'max' else min(names, key=order.index))
            raise Unsupported('min/max of types')
        r = xs[0]
        for x in xs[1:]:
            r = s.minv(r, x) if which == 'min' else s.maxv(r, x)
        return r

    def sum_(s, a):
        xs = s.iter_(a[0])
        r = a[1] if len(a) > 1 else 0
        for x in xs:
            r = s.binop('+', r, x)
        return r

    def sorted_(s, xs):
        xs = s.iter_(xs)
        if all(isinstance(x, (str, int, float)) for x in xs):
            return sorted(xs)
        if len(xs) == 2:
            c = s.truthy(s.compare('<=', xs[0], xs[1]))
            return [xs[0], xs[1]] if c else [xs[1], xs[0]]
        raise Unsupported('sorted symbolic')

    def len_(s, v):
        if isinstance(v, (list, tuple, dict, str, set, frozenset)):
            return len(v)
        if isinstance(v, Vec):
            return len(v.elems)
        if isinstance(v, NamedTuple):
            return len(v.vals)
        if isinstance(v, SymSeq):
            return v.length
        h = s.ext('len', v)
        if h is not NotImplemented:
            return h
        if isinstance(v, (int, float, Sym, fractions.Fraction)):
            raise PyRaise('TypeError')
        raise Unsupported(f"len {v!r}")

    def iter_(s, v):
        if isinstance(v, (list, tuple)):
            return list(v)
        if isinstance(v, Vec):
            return list(v.elems)
        if isinstance(v, dict):
            return list(v.keys())
        if isinstance(v, str):
            return list(v)
        if isinstance(v, NamedTuple):
            return list(v.vals)
        if isinstance(v, DictView):
            return v.items()
        if isinstance(v, (set, frozenset)):
            return sorted(v)
        h = s.ext('iter', v)
        if h is not NotImplemented:
            return h
        if isinstance(v, SymSeq):
            raise Unsupported('iteration over a symbolic-length sequence outside the map-loop rule')
        if v is None:
            raise PyRaise('TypeError', note="'NoneType' object is not iterable")
        raise Unsupported(f"iter {v!r}")

    def ext(s, what, *a):
        """extension hook (ndarray model)"""
        return NotImplemented

    def all_(s, it):
        r = True
        for x in s.iter_(it):
            r = s.and_(r, s.asbool(x))
        return r

    def any_(s, it):
        r = False
        for x in s.iter_(it):
            r = s.or_(r, s.asbool(x))
        return r

    def asbool(s, x):
        if isinstance(x, bool):
            return x
        if isinstance(x, Sym):
            return x if x.kind == 'bool' else Sym(x.t != 0, 'bool')
        if is_conc_num(x):
            return x != 0
        return s.truthy(x)

    def truthy(s, v):
        if isinstance(v, (bool, int, float, str, type(None), list, tuple, dict, fractions.Fraction, set)):
            return bool(v)
        if isinstance(v, Sym):
            return s.branch(v)
        if isinstance(v, Vec):
            if len(v) == 1:
                return s.truthy(v.elems[0])
            raise PyRaise('ValueError', note='truth value of an array')
        if isinstance(v, (Obj, TypeTag, Closure, Builtin, NamedTuple)):
            return True
        if isinstance(v, OpaqueStr):
            return True
        raise Unsupported(f"truthy {v!r}")

    def isinstance_(s, v, t):
        if isinstance(t, tuple):
            return any(s.isinstance_(v, x) for x in t)
        name = t.name if isinstance(t, TypeTag) else str(t)
        h = s.ext('isinstance', v, name)
        if h is not NotImplemented:
            return h
        if name == 'ndarray':
            return isinstance(v, Vec)
        if name == 'tuple':
            return isinstance(v, (tuple, NamedTuple))
        if name == 'list':
            return isinstance(v, list)
        if name == 'str':
            return isinstance(v, (str, OpaqueStr))
        if name == 'dict':
            return isinstance(v, dict)
        if name == 'bool':
            return isinstance(v, bool) or (isinstance(v, Sym) and v.kind == 'bool' and not v.np)
        if name in ('Number', 'Complex'):
            return is_conc_num(v) or isinstance(v, (Sym, bool))
        if name == 'Real':
            # np.bool_ is not a numbers.Real; python bool is
            return is_conc_num(v) or isinstance(v, bool) or (isinstance(v, Sym) and not (v.kind == 'bool' and v.np))
        if name in ('Integral', 'int'):
            if isinstance(v, Sym):
                if name == 'int' and v.np:
                    return False
                return v.kind == 'int' or (v.kind == 'bool' and not v.np)
            return isinstance(v, int)
        if name == 'float':
            return isinstance(v, (float, fractions.Fraction)) or (isinstance(v, Sym) and v.kind == 'float')
        if name == 'Iterable':
            return isinstance(v, (list, tuple, Vec, dict, str, NamedTuple, SymSeq))
        if name == 'Callable':
            return isinstance(v, (Closure, Builtin, TypeTag))
        if name in s.classes:
            return isinstance(v, Obj) and s.issubclass_(v.cls, name)
        if name in ('Line',):
            return False
        raise Unsupported(f"isinstance {name}")

    def issubclass_(s, c, name):
        return c == name

    def hasattr_(s, o, name):
        if isinstance(o, Obj):
            c = s.classes[o.cls]
            if name in c['props'] or name in c['methods'] or name in o.attrs or name in c['classmethods'] or name in c['consts']:
                return True
            if o.cls in IO_MIXIN_ATTRS and name in IO_MIXIN_ATTRS[o.cls]:
                return True
            if '__getattr__' in c['methods']:
                try:
                    s.call_method(o, '__getattr__', [name], {})
                    return True
                except PyRaise as e:
                    if exc_isinstance(e.exc, 'AttributeError'):
                        return False
                    raise
            return False
        raise Unsupported(f"hasattr {o!r}")

    def getattr_default(s, o, name, default):
        try:
            return s.getattr_(o, name)
        except PyRaise as e:
            if exc_isinstance(e.exc, 'AttributeError'):
                return default
            raise

    def getattr_(s, o, name):
        if isinstance(o, Module):
            if name in o.members:
                return o.members[name]
            raise Unsupported(f"{o.name}.{name}")
        if isinstance(o, Obj):
            if name == '__class__':
                return TypeTag(o.cls)
            if name in o.attrs:
                return o.attrs[name]
            c = s.classes[o.cls]
            if name in c['props']:
                return s.call_function(c['props'][name], [o], {}, cls=o.cls, qual=(o.cls, name))
            if name in c['methods']:
                return Closure(c['methods'][name], None, selfobj=o, cls=o.cls)
            if name in c['classmethods']:
                return Closure(c['classmethods'][name], None, selfobj=TypeTag(o.cls), cls=o.cls)
            if name in c['consts']:
                return c['consts'][name]
            slots = c['consts'].get('__slots__') or []
            if name in slots and getattr(o, 'modelled_state', False):
                # the class declares state that the symbolic pre-state (class invariant of DESIGN §3) does not describe:
                # nothing can be concluded about code that reads it - undecided, never a violation
                raise Unsupported(f"{o.cls}.{name}: state attribute outside the modelled class invariant")
            if '__getattr__' in c['methods']:
                return s.call_method(o, '__getattr__', [name], {})
            raise PyRaise('AttributeError', note=f"{o.cls}.{name}")
        if isinstance(o, TypeTag) and o.name in s.classes:
            c = s.classes[o.name]
            if name in c['classmethods']:
                return Closure(c['classmethods'][name], None, selfobj=o, cls=o.name)
            if name in c['methods']:
                return Closure(c['methods'][name], None, selfobj=None, cls=o.name)
            if name == '__name__':
                return o.name
        if isinstance(o, NamedTuple):
            if name in o.names:
                return o.vals[o.names.index(name)]
            raise PyRaise('AttributeError')
        if isinstance(o, Vec):
            if name == 'dtype':
                return TypeTag(o.kind)
            if name == 'size':
                return len(o.elems)
            if name == 'shape':
                return (len(o.elems),)
            if name == 'ndim':
                return 1
            if name == 'reshape':
                def vreshape(a, k, o=o):
                    shp = a[0] if len(a) == 1 else tuple(a)
                    shp = (shp,) if isinstance(shp, int) else tuple(shp)
                    if len(shp) == 1 and (shp[0] == len(o.elems) or shp[0] == -1):
                        return o
                    raise PyRaise('ValueError', note='cannot reshape array')
                return Builtin('vec.reshape', vreshape)
            if name in ('copy', 'astype', 'any', 'all', 'round', 'tolist', 'item', 'min', 'max', 'sum', 'prod'):
                return Builtin('vec.' + name, lambda a, k, o=o, name=name: s.vec_method(o, name, a, k))
        if isinstance(o, Sym) or is_conc_num(o):
            if name == 'item':
                return Builtin('item', lambda a, k: o)
            if name == 'dtype':
                return TypeTag(kind_of(o))
            if name == 'real':
                return o
            if name in ('round',):
                return Builtin('round', lambda a, k: s.round_(o))
            if name == 'astype':
                return Builtin('astype', lambda a, k: s.cast(o, a[0]))
            if name == 'reshape':
                def sreshape(a, k, o=o):
                    shp = a[0] if len(a) == 1 else tuple(a)
                    shp = (shp,) if isinstance(shp, int) else tuple(shp)
                    if shp in ((1,), (-1,)):
                        return Vec([s.npscalar(o)], kind_of(o))
                    if shp == ():
                        return o
                    raise PyRaise('ValueError', note='cannot reshape array of size 1')
                return Builtin('scalar.reshape', sreshape)
        if isinstance(o, list):
            if name == 'append':
                return Builtin('append', lambda a, k: o.append(a[0]))
            if name == 'index':
                return Builtin('index', lambda a, k: s.index_(o, a[0]))
            if name == 'copy':
                return Builtin('copy', lambda a, k: list(o))
            if name == 'extend':
                return Builtin('extend', lambda a, k: o.extend(s.iter_(a[0])))
        if isinstance(o, tuple) and name == 'index':
            return Builtin('index', lambda a, k: s.index_(o, a[0]))
        if isinstance(o, tuple) and name == 'count':
            return Builtin('count', lambda a, k: sum(1 for x in o if x == a[0]))
        if isinstance(o, dict) and name in ('items', 'keys', 'values', 'get', 'copy', 'update', 'pop'):
            def dm(a, k, o=o, name=name):
                if name == 'items':
                    return DictView(o, 'items')
                if name == 'keys':
                    return DictView(o, 'keys')
                if name == 'values':
                    return DictView(o, 'values')
                if name == 'get':
                    return o.get(a[0], a[1] if len(a) > 1 else None)
                if name == 'copy':
                    return dict(o)
                if name == 'update':
                    o.update(a[0] if a else {})
                    o.update(k)
                    return None
                if name == 'pop':
                    if a[0] in o:
                        return o.pop(a[0])
                    if len(a) > 1:
                        return a[1]
                    raise PyRaise('KeyError')
            return Builtin(name, dm)
        if isinstance(o, str) and name in ('lower', 'count', 'startswith', 'endswith', 'upper'):
            return Builtin(name, lambda a, k: getattr(o, name)(*a))
        if isinstance(o, slice) and name in ('start', 'stop', 'step'):
            return getattr(o, name)
        h = s.ext('getattr', o, name)
        if h is not NotImplemented:
            return h
        if isinstance(o, TypeTag) and name == '__name__':
            return o.name
        raise Unsupported(f"getattr {type(o).__name__}.{name}")

    def cast(s, v, t):
        tn = t.name if isinstance(t, TypeTag) else t
        if tn in ('int',):
            return s.trunc_int(v)
        if tn in ('float', 'float64'):
            return s.to_float(v)
        if tn == 'bool':
            return s.asbool(v)
        raise Unsupported(f"cast {tn}")

    def index_(s, seq, x):
        for i, e in enumerate(seq):
            r = s.compare('==', e, x)
            if s.truthy(r):
                return i
        raise PyRaise('ValueError', note='x not in sequence')

    def vec_method(s, o, name, a, k):
        if name == 'copy':
            return Vec(list(o.elems), o.kind)
        if name == 'astype':
            t = a[0]
            tn = t.name if isinstance(t, TypeTag) else t
            if tn in ('int',):
                return Vec([s.trunc_int(e) for e in o.elems], 'int')
            if tn in ('float', 'float64'):
                return Vec([s.to_float(e) for e in o.elems], 'float')
            if tn == 'bool':
                return Vec([s.asbool(e) for e in o.elems], 'bool')
            raise Unsupported(f"astype {tn}")
        if name == 'any':
            return s.any_(o.elems)
        if name == 'all':
            return s.all_(o.elems)
        if name == 'tolist':
            return [s.pyscalar(e) for e in o.elems]
        if name == 'item':
            if len(o.elems) != 1:
                raise PyRaise('ValueError')
            return s.pyscalar(o.elems[0])
        if name == 'round':
            return Vec([s.round_(e) for e in o.elems], o.kind)
        if name == 'min':
            return s.minmax([o.elems], 'min')
        if name == 'max':
            return s.minmax([o.elems], 'max')
        if name == 'sum':
            return s.sum_([o.elems])
        if name == 'prod':
            r = 1
            for e in o.elems:
                r = s.arith('*', r, e)
            return r
        raise Unsupported(name)

    def pyscalar(s, e):
        if isinstance(e, Sym) and e.np:
            return Sym(e.t, e.kind, False)
        return e

    def npscalar(s, e):
        if isinstance(e, Sym) and not e.np:
            return Sym(e.t, e.kind, True)
        return e

    def unop_abs(s, v):
        if isinstance(v, Vec):
            return Vec([s.absv(e) for e in v.elems], v.kind)
        h = s.ext('abs', v)
        if h is not NotImplemented:
            return h
        if isinstance(v, Obj):
            return s.call_method(v, '__abs__', [], {})
        return s.absv(v)

    # ------------------------------------------------------------------ vectors / numpy model (1-d, concrete length)
    def asvec(s, v):
        if isinstance(v, Vec):
            return v
        if isinstance(v, NamedTuple):
            v = v.vals
        if isinstance(v, (list, tuple)):
            if v and isinstance(v[0], (list, tuple, Vec)):
                return Vec([s.asvec(r) for r in v], 'row')
            kinds = {kind_of(e) for e in v} if v else {'float'}
            k = 'float' if 'float' in kinds else ('int' if 'int' in kinds else 'bool')
            return Vec([s.npscalar(s.to_float(e) if k == 'float' else e) for e in v], k)
        return v

    def vec_bin(s, f, a, b, kind=None):
        la = a.elems if isinstance(a, Vec) else (list(a) if isinstance(a, (list, tuple)) else None)
        lb = b.elems if isinstance(b, Vec) else (list(b) if isinstance(b, (list, tuple)) else None)
        n = len(la) if la is not None else len(lb)
        if la is None:
            la = [a] * n
        if lb is None:
            lb = [b] * n
        if len(la) != len(lb):
            if len(la) == 1:
                la = la * len(lb)
            elif len(lb) == 1:
                lb = lb * len(la)
            else:
                raise PyRaise('ValueError', note='operands could not be broadcast')
        out = [f(x, y) for x, y in zip(la, lb)]
        if kind is None:
            kinds = {kind_of(e) for e in out} if out else {'float'}
            kind = 'float' if 'float' in kinds else ('int' if 'int' in kinds else 'bool')
        return Vec([s.npscalar(e) for e in out], kind)

    def is_arr(s, v):
        return isinstance(v, Vec)

    def binop(s, op, a, b):
        """python binary operator semantics on arbitrary values"""
        h = s.ext('binop', op, a, b)
        if h is not NotImplemented:
            return h
        if isinstance(a, PiMul) or isinstance(b, PiMul) or a is PI or b is PI:
            return s.pi_arith(op, a, b)
        if isinstance(a, Obj) or isinstance(b, Obj):
            return s.obj_binop(op, a, b)
        if isinstance(a, Vec) or isinstance(b, Vec):
            if op in ('|', '&'):
                f = s.or_ if op == '|' else s.and_
                return s.vec_bin(lambda x, y: f(s.asbool(x), s.asbool(y)), a, b, 'bool')
            if op == '@':
                raise Unsupported('matmul')
            return s.vec_bin(lambda x, y: s.arith(op, x, y), a, b)
        if isinstance(a, (list, tuple)) and isinstance(b, (list, tuple)) and op == '+':
            return type(a)(list(a) + list(b))
        if isinstance(a, (list, tuple)) and isinstance(b, int) and op == '*':
            return type(a)(list(a) * b)
        if isinstance(a, str) and isinstance(b, str) and op == '+':
            return a + b
        if isinstance(a, str) and op == '%':
            return OpaqueStr()
        if op in ('|', '&'):
            if isinstance(a, (bool, Sym)) and isinstance(b, (bool, Sym)):
                return (s.or_ if op == '|' else s.and_)(s.asbool(a), s.asbool(b))
            if isinstance(a, int) and isinstance(b, int):
                return a | b if op == '|' else a & b
        if isinstance(a, (list, tuple)) or isinstance(b, (list, tuple)):
            raise PyRaise('TypeError', note=f'unsupported operand types for {op}')
        if isinstance(a, (set, frozenset)) and isinstance(b, (set, frozenset)):
            return {'|': a | b, '&': a & b, '-': a - b}[op]
        return s.arith(op, a, b)

    def obj_binop(s, op, a, b):
        names = {'+': 'add', '-': 'sub', '*': 'mul', '/': 'truediv', '**': 'pow', '@': 'matmul', '&': 'and', '<<': 'lshift', '|': 'or'}
        n = names[op]
        if isinstance(a, Obj) and f'__{n}__' in s.classes[a.cls]['methods']:
            return s.call_method(a, f'__{n}__', [b], {})
        if isinstance(b, Obj) and f'__r{n}__' in s.classes[b.cls]['methods']:
            return s.call_method(b, f'__r{n}__', [a], {})
        raise PyRaise('TypeError')

    def pi_arith(s, op, a, b):
        if b is PI and op == '*':
            return PiMul(a, 1)
        if a is PI and op == '*':
            return PiMul(b, 1)
        if isinstance(a, PiMul) and op == '/' and isinstance(b, int):
            return PiMul(a.num, a.den * b)
        if isinstance(a, PiMul) and op == '*' and not isinstance(b, PiMul):
            return PiMul(s.arith('*', a.num, b), a.den)
        if isinstance(b, PiMul) and op == '*' and not isinstance(a, PiMul):
            return PiMul(s.arith('*', a, b.num), b.den)
        raise Unsupported('arithmetic with pi outside k*pi/2')

    def trig(s, arg, which):
        """cos/sin of k*pi/2 with integer k: exact quarter-turn table (A-trig)"""
        if isinstance(arg, PiMul) and arg.den == 2 and kind_of(arg.num) in ('int', 'bool'):
            kk = arg.num
            tab = {'cos': [1.0, 0.0, -1.0, 0.0], 'sin': [0.0, 1.0, 0.0, -1.0]}[which]
            if isinstance(kk, int):
                return tab[kk % 4]
            m = Sym(kk.t % 4, 'int')
            r = tab[3]
            for i in (2, 1, 0):
                r = s.ite(s.cmp('==', m, i), tab[i], r)
            return r
        if is_conc_num(arg) and arg == 0:
            return 1.0 if which == 'cos' else 0.0
        raise Unsupported('trig of a non-quarter-turn argument')

    def compare(s, op, a, b):
        if op in ('in', 'not in'):
            r = s.contains(b, a)
            return r if op == 'in' else s.not_(r) if isinstance(r, (Sym, bool)) else (not r)
        if op in ('is', 'is not'):
            if isinstance(a, Obj) and isinstance(b, Obj):
                r = a is b
            elif a is None or b is None:
                r = a is None and b is None
            elif isinstance(a, TypeTag) or isinstance(b, TypeTag):
                r = a == b
            else:
                r = a is b
            return r if op == 'is' else not r
        h = s.ext('compare', op, a, b)
        if h is not NotImplemented:
            return h
        if isinstance(a, Vec) or isinstance(b, Vec):
            if isinstance(a, str) or isinstance(b, str):
                return op == '!='
            return s.vec_bin(lambda x, y: s.cmp(op, x, y), a, b, kind='bool')
        if isinstance(a, Obj) and op in ('==', '!='):
            if '__eq__' in s.classes[a.cls]['methods']:
                r = s.call_method(a, '__eq__', [b], {})
                return r if op == '==' else (s.not_(r) if isinstance(r, (Sym, bool)) else not s.truthy(r))
            return (a is b) if op == '==' else (a is not b)
        if isinstance(a, TypeTag) or isinstance(b, TypeTag):
            if op == '==':
                return a == b
            if op == '!=':
                return a != b
        strlike = (str, type(None), OpaqueStr, dict, slice, set, frozenset)
        if isinstance(a, strlike) or isinstance(b, strlike):
            if op == '==':
                return a == b
            if op == '!=':
                return a != b
            if isinstance(a, str) and isinstance(b, str):
                return {'<': a < b, '<=': a <= b, '>': a > b, '>=': a >= b}[op]
            raise PyRaise('TypeError')
        if isinstance(a, (tuple, list, NamedTuple)) or isinstance(b, (tuple, list, NamedTuple)):
            la = a.vals if isinstance(a, NamedTuple) else a
            lb = b.vals if isinstance(b, NamedTuple) else b
            if not isinstance(la, (tuple, list)) or not isinstance(lb, (tuple, list)):
                return op == '!='
            if op in ('==', '!='):
                if len(la) != len(lb) or (isinstance(la, list) != isinstance(lb, list)):
                    return op == '!='
                r = True
                for x, y in zip(la, lb):
                    r = s.and_(r, s.asbool(s.compare('==', x, y)))
                return r if op == '==' else s.not_(r)
            raise Unsupported('ordering of sequences')
        return s.cmp(op, a, b)

    def contains(s, container, item):
        if isinstance(container, DictView):
            container = container.items()
        if isinstance(container, (list, tuple, set, frozenset)):
            if all(isinstance(x, (str, type(None))) for x in container) and isinstance(item, (str, type(None))):
                return item in container
            r = False
            for x in container:
                r = s.or_(r, s.asbool(s.compare('==', x, item)))
            return r
        if isinstance(container, dict):
            return item in container
        if isinstance(container, str):
            if isinstance(item, str):
                return item in container
            raise PyRaise('TypeError')
        if isinstance(container, Obj):
            return s.asbool_or_val(s.call_method(container, '__contains__', [item], {}))
        if isinstance(container, Vec):
            return s.any_([s.cmp('==', x, item) for x in container.elems])
        if isinstance(container, NamedTuple):
            return s.contains(tuple(container.vals), item)
        raise Unsupported(f"contains {container!r}")

    def asbool_or_val(s, v):
        # `x in obj` coerces __contains__'s result to bool
        if isinstance(v, (bool, Sym)):
            return s.asbool(v)
        return s.truthy(v)

    # ------------------------------------------------------------------ numpy members
    def np_members(s):
        def E(op):
            return Builtin('np.' + op, lambda a, k: s.binop(op, s.asarr(a[0]), s.asarr(a[1])))

        def C(op):
            return Builtin('np.cmp' + op, lambda a, k: s.compare(op, s.asarr(a[0]), s.asarr(a[1])))

        def logical(f):
            def g(a, k):
                x, y = s.asarr(a[0]), s.asarr(a[1])
                h = s.ext('logical', f, x, y)
                if h is not NotImplemented:
                    return h
                if isinstance(x, Vec) or isinstance(y, Vec):
                    return s.vec_bin(lambda p, q_: f(s.asbool(p), s.asbool(q_)), x, y, 'bool')
                return f(s.asbool(x), s.asbool(y))
            return Builtin('np.logical', g)

        def isclose(a, k):
            rtol = k.get('rtol', 1e-5)
            atol = k.get('atol', 1e-8)
            if len(a) > 2:
                rtol = a[2]
            if len(a) > 3:
                atol = a[3]

            def f(x, y, at=None, rt=None):
                return s.cmp('<=', s.absv(s.arith('-', x, y)), s.arith('+', atol if at is None else at, s.arith('*', rtol if rt is None else rt, s.absv(y))))
            x, y = s.asarr(a[0]), s.asarr(a[1])
            if isinstance(atol, (Vec, tuple, list)) or isinstance(rtol, (Vec, tuple, list)):
                # per-element tolerances (numpy broadcasts them): 1-d operands of one length only
                ln = lambda v: len(v.elems) if isinstance(v, Vec) else (len(v) if isinstance(v, (tuple, list)) else None)
                el = lambda v, j: (v.elems[j] if isinstance(v, Vec) else (v[j] if isinstance(v, (tuple, list)) else v))
                L = [ln(v) for v in (x, y, atol, rtol) if ln(v) is not None]
                if not L or len(set(L)) != 1 or any(not isinstance(v, (Vec, tuple, list, int, float, Sym)) and type(v).__name__ != 'Fraction' for v in (x, y, atol, rtol)):
                    raise Unsupported('np.isclose with array-valued tolerances on these operands')
                return Vec([f(el(x, j), el(y, j), el(atol, j), el(rtol, j)) for j in range(L[0])], 'bool')
            h = s.ext('map2', f, x, y, 'bool')
            if h is not NotImplemented:
                return h
            if isinstance(x, Vec) or isinstance(y, Vec):
                return s.vec_bin(f, x, y, 'bool')
            return f(x, y)

        def allclose(a, k):
            r = isclose(a, k)
            return s.all_(r.elems) if isinstance(r, Vec) else r

        def npmin(a, k):
            return s.minmax([s.iter_(a[0])], 'min')

        def npmax(a, k):
            return s.minmax([s.iter_(a[0])], 'max')

        def clip(a, k):
            x = s.asarr(a[0])
            lo = s.vec_bin(lambda p, l: s.ite(s.cmp('<', p, l), l, p), x, s.asarr(a[1]))
            return s.vec_bin(lambda p, h_: s.ite(s.cmp('>', p, h_), h_, p), lo, s.asarr(a[2]))

        def remainder(a, k):
            x, y = s.asarr(a[0]), s.asarr(a[1])
            if isinstance(x, Vec) or isinstance(y, Vec):
                return s.vec_bin(lambda p, c: s.arith('%', s.to_float(p), s.to_float(c)), x, y)
            return s.arith('%', x, y)

        def prod(a, k):
            r = 1
            for e in s.iter_(a[0]):
                r = s.arith('*', r, e)
            return r

        def array(a, k):
            v = a[0]
            h = s.ext('array', v, k)
            if h is not NotImplemented:
                return h
            if isinstance(v, SymSeq):
                raise Unsupported('np.array of symbolic sequence')
            if isinstance(v, (Sym, int, float, fractions.Fraction)):
                return s.npscalar(v) if isinstance(v, Sym) else v
            r = s.asvec(v)
            if isinstance(r, Vec):
                r = Vec(list(r.elems), r.kind)
            dt = k.get('dtype')
            if dt is not None and isinstance(r, Vec):
                r = s.vec_method(r, 'astype', [dt], {})
            return r

        def array_equal(a, k):
            x, y = a
            h = s.ext('array_equal', x, y)
            if h is not NotImplemented:
                return h
            xs = s.iter_(x)
            ys = s.iter_(y)
            if len(xs) != len(ys):
                return False
            r = True
            for p, q_ in zip(xs, ys):
                if p is q_ or (isinstance(p, Sym) and isinstance(q_, Sym) and p.t.eq(q_.t)):
                    continue
                r = s.and_(r, s.asbool(s.compare('==', p, q_)))
            return r

        def dot(a, k):
            M, v = s.asvec(a[0]), s.asvec(a[1])
            if M.kind == 'row':
                out = []
                for row in M.elems:
                    r = 0
                    for x, y in zip(s.iter_(row), s.iter_(v)):
                        r = s.arith('+', r, s.arith('*', x, y))
                    out.append(r)
                return Vec(out)
            r = 0
            for x, y in zip(M.elems, v.elems):
                r = s.arith('+', r, s.arith('*', x, y))
            return r

        def un(f):
            def g(a, k):
                v = s.asarr(a[0])
                h = s.ext('map1', f, v)
                if h is not NotImplemented:
                    return h
                if isinstance(v, Vec):
                    return Vec([f(e) for e in v.elems], v.kind)
                return f(v)
            return Builtin('np.un', g)

        def linspace(a, k):
            start, stop, num = a[0], a[1], a[2]
            # [A] np.linspace(start, stop, num)[j] = start + j*(stop-start)/(num-1)   (num >= 2; num == 1 -> [start])
            def elem(j):
                one = s.decide(I(num) == 1) if not isinstance(num, int) else (num == 1)
                if one is None:
                    one = s.branch(I(num) == 1)
                if one is True:
                    return start
                step = s.arith('/', s.arith('-', stop, start), s.arith('-', num, 1))
                return s.arith('+', start, s.arith('*', j, step))
            return SymSeq(num, elem, 'linspace')

        def zeros(a, k):
            shp = a[0]
            if isinstance(shp, int):
                return Vec([0 if k.get('dtype') == TypeTag('int') else 0.0] * shp, 'int' if k.get('dtype') == TypeTag('int') else 'float')
            h = s.ext('full', shp, 0.0, k)
            if h is not NotImplemented:
                return h
            raise Unsupported('np.zeros shape')

        def npsum(a, k):
            v = a[0]
            h = s.ext('sum', v, k, a)
            if h is not NotImplemented:
                return h
            return s.sum_([s.iter_(v)])

        def where1(a, k):
            raise Unsupported('np.where')

        m = {
            'add': E('+'), 'subtract': E('-'), 'multiply': E('*'), 'divide': E('/'), 'power': E('**'),
            'less': C('<'), 'less_equal': C('<='), 'greater': C('>'), 'greater_equal': C('>='), 'equal': C('=='),
            'logical_and': logical(s.and_), 'logical_or': logical(s.or_),
            'isclose': Builtin('np.isclose', isclose), 'allclose': Builtin('np.allclose', allclose),
            # [A] np.result_type on (dtype, scalar type) pairs = join in the 4-point lattice bool < int < float < complex
            'result_type': Builtin('np.result_type', lambda a, k: s.minmax([TypeTag(x.dtype) if hasattr(x, 'dtype') and isinstance(getattr(x, 'dtype'), str) else x for x in a], 'max')),
            'min': Builtin('np.min', npmin), 'max': Builtin('np.max', npmax),
            'all': Builtin('np.all', lambda a, k: s.np_all(a[0])), 'any': Builtin('np.any', lambda a, k: s.np_any(a[0])),
            'floor': un(s.floor), 'ceil': un(s.ceil), 'abs': un(s.absv), 'absolute': un(s.absv),
            'round': un(s.round_), 'around': un(s.round_), 'invert': un(lambda x: s.not_(s.asbool(x))),
            'logical_not': un(lambda x: s.not_(s.asbool(x))),
            'negative': un(s.neg),
            'clip': Builtin('np.clip', clip), 'remainder': Builtin('np.remainder', remainder), 'mod': Builtin('np.mod', remainder),
            'prod': Builtin('np.prod', prod),
            'minimum': Builtin('np.minimum', lambda a, k: s.vec_bin(s.minv, s.asarr(a[0]), s.asarr(a[1]))),
            'maximum': Builtin('np.maximum', lambda a, k: s.vec_bin(s.maxv, s.asarr(a[0]), s.asarr(a[1]))),
            'array': Builtin('np.array', array), 'asarray': Builtin('np.asarray', array),
            'array_equal': Builtin('np.array_equal', array_equal),
            'ndarray': TypeTag('ndarray'), 'pi': PI, 'cos': Builtin('cos', lambda a, k: s.trig(a[0], 'cos')),
            'sin': Builtin('sin', lambda a, k: s.trig(a[0], 'sin')), 'dot': Builtin('np.dot', dot),
            'linspace': Builtin('np.linspace', linspace), 'zeros': Builtin('np.zeros', zeros),
            'sum': Builtin('np.sum', npsum), 'float64': TypeTag('float'),
            # [A] the dtype lattice has kinds only, no widths: float32 is 'a floating type' (floats are reals in the encoding anyway)
            'float32': TypeTag('float'), 'newaxis': None, 'nan': 'NAN',
            'int64': TypeTag('int'), 'bool_': TypeTag('bool'), 'complex128': TypeTag('complex'),
            'shape': Builtin('np.shape', lambda a, k: s.np_shape(a[0])),
        }
        return m

    def np_shape(s, v):
        h = s.ext('shape', v)
        if h is not NotImplemented:
            return h
        if isinstance(v, Vec):
            return (len(v.elems),)
        if isinstance(v, (list, tuple)):
            if v and isinstance(v[0], (list, tuple, Vec)):
                return (len(v),) + tuple(s.np_shape(v[0]))
            return (len(v),)
        if isinstance(v, (Sym, int, float, bool, fractions.Fraction)):
            return ()
        raise Unsupported(f'np.shape {v!r}')

    def np_all(s, v):
        h = s.ext('all', v)
        if h is not NotImplemented:
            return h
        if isinstance(v, (Vec, list, tuple)):
            return s.all_(s.iter_(v))
        return s.asbool(v)

    def np_any(s, v):
        h = s.ext('any', v)
        if h is not NotImplemented:
            return h
        if isinstance(v, (Vec, list, tuple)):
            return s.any_(s.iter_(v))
        return s.asbool(v)

    def asarr(s, v):
        if isinstance(v, (list, tuple, NamedTuple)):
            return s.asvec(v)
        return v

    # ------------------------------------------------------------------ expressions
    def ev(s, node, env):
        m = getattr(s, 'ev_' + type(node).__name__, None)
        if m is None:
            raise Unsupported(f"expr {type(node).__name__} @{getattr(node, 'lineno', '?')}")
        return m(node, env)

    def ev_Constant(s, n, env):
        return n.value

    def ev_Name(s, n, env):
        e = env
        while e is not None:
            if n.id in e.vars:
                return e.vars[n.id]
            e = e.parent
        if n.id in s.globals:
            return s.globals[n.id]
        raise Unsupported(f"name {n.id}")

    def ev_Tuple(s, n, env):
        return tuple(s.ev_elts(n.elts, env))

    def ev_List(s, n, env):
        return list(s.ev_elts(n.elts, env))

    def ev_elts(s, elts, env):
        out = []
        for e in elts:
            if isinstance(e, ast.Starred):
                out.extend(s.iter_(s.ev(e.value, env)))
            else:
                out.append(s.ev(e, env))
        return out

    def ev_Set(s, n, env):
        v = s.ev_elts(n.elts, env)
        if all(isinstance(x, (str, int)) for x in v):
            return frozenset(v)
        return list(v)

    def ev_Dict(s, n, env):
        out = {}
        for k, v in zip(n.keys, n.values):
            if k is None:
                out.update(s.ev(v, env))
            else:
                out[s.hashable(s.ev(k, env))] = s.ev(v, env)
        return out

    def hashable(s, k):
        if isinstance(k, (str, int, tuple, type(None), bool)):
            return k
        raise Unsupported(f'dict key {k!r}')

    def ev_JoinedStr(s, n, env):
        parts = []
        for v in n.values:
            if isinstance(v, ast.Constant):
                parts.append(v.value)
            else:
                try:
                    x = s.ev(v.value, env)
                except (Unsupported, PyRaise):
                    return OpaqueStr()
                if isinstance(x, (str, int)) and not isinstance(x, bool) and v.format_spec is None and v.conversion == -1 \
                        and not (isinstance(v.value, ast.Name) and False):
                    parts.append(str(x))
                else:
                    return OpaqueStr()
        return ''.join(parts)

    def ev_Attribute(s, n, env):
        return s.getattr_(s.ev(n.value, env), n.attr)

    BINOPS = {ast.Add: '+', ast.Sub: '-', ast.Mult: '*', ast.Div: '/', ast.Mod: '%', ast.FloorDiv: '//', ast.Pow: '**',
              ast.BitOr: '|', ast.BitAnd: '&', ast.LShift: '<<', ast.MatMult: '@'}

    def ev_BinOp(s, n, env):
        op = s.BINOPS[type(n.op)]
        a, b = s.ev(n.left, env), s.ev(n.right, env)
        return s.binop(op, a, b)

    def ev_UnaryOp(s, n, env):
        v = s.ev(n.operand, env)
        if isinstance(n.op, ast.Not):
            if isinstance(v, (Sym, bool)):
                return s.not_(s.asbool(v))
            return not s.truthy(v)
        h = s.ext('unary', type(n.op).__name__, v)
        if h is not NotImplemented:
            return h
        if isinstance(n.op, ast.USub):
            if isinstance(v, Vec):
                return Vec([s.neg(e) for e in v.elems], v.kind)
            if isinstance(v, Obj):
                return s.call_method(v, '__neg__', [], {})
            return s.neg(v)
        if isinstance(n.op, ast.UAdd):
            if isinstance(v, Obj):
                return s.call_method(v, '__pos__', [], {})
            return v
        if isinstance(n.op, ast.Invert):
            if isinstance(v, Vec):
                return Vec([s.not_(s.asbool(e)) for e in v.elems], 'bool')
            if isinstance(v, (Sym, bool)):
                return s.not_(s.asbool(v))
        raise Unsupported('unary')

    def ev_BoolOp(s, n, env):
        if isinstance(n.op, ast.And):
            v = True
            for e in n.values:
                v = s.ev(e, env)
                if not s.truthy(v):
                    return v
            return v
        else:
            v = False
            for e in n.values:
                v = s.ev(e, env)
                if s.truthy(v):
                    return v
            return v

    CMPOPS = {ast.Eq: '==', ast.NotEq: '!=', ast.Lt: '<', ast.LtE: '<=', ast.Gt: '>', ast.GtE: '>=', ast.Is: 'is',
              ast.IsNot: 'is not', ast.In: 'in', ast.NotIn: 'not in'}

    def ev_Compare(s, n, env):
        left = s.ev(n.left, env)
        for i, (op, c) in enumerate(zip(n.ops, n.comparators)):
            right = s.ev(c, env)
            r = s.compare(s.CMPOPS[type(op)], left, right)
            if len(n.ops) == 1:
                return r
            if i == len(n.ops) - 1:
                return r
            if not s.truthy(r):
                return False
            left = right
        return True

    def ev_IfExp(s, n, env):
        return s.ev(n.body, env) if s.truthy(s.ev(n.test, env)) else s.ev(n.orelse, env)

    def ev_Subscript(s, n, env):
        o = s.ev(n.value, env)
        i = s.ev(n.slice, env)
        return s.getitem(o, i)

    def ev_Slice(s, n, env):
        return slice(*(s.ev(x, env) if x is not None else None for x in (n.lower, n.upper, n.step)))

    def ev_Starred(s, n, env):
        raise Unsupported('starred')

    def getitem(s, o, i):
        h = s.ext('getitem', o, i)
        if h is not NotImplemented:
            return h
        if isinstance(o, NamedTuple):
            o = tuple(o.vals)
        if isinstance(o, Vec):
            if isinstance(i, slice):
                return Vec(o.elems[i], o.kind)
            if isinstance(i, int) and not isinstance(i, bool):
                try:
                    return o.elems[i]
                except IndexError:
                    raise PyRaise('IndexError')
            if isinstance(i, Sym) and i.kind == 'int':
                return s.sym_index(o.elems, i)
            if isinstance(i, tuple) and len(i) == 1:
                return s.getitem(o, i[0])
        if isinstance(o, (list, tuple, str)):
            if isinstance(i, (int, slice)) and not isinstance(i, bool):
                try:
                    return o[i]
                except IndexError:
                    raise PyRaise('IndexError')
            if isinstance(i, Sym) and i.kind == 'int':
                return s.sym_index(list(o), i)
        if isinstance(o, dict):
            if isinstance(i, (str, int, tuple, type(None))) and i in o:
                return o[i]
            raise PyRaise('KeyError')
        if isinstance(o, SymSeq):
            if isinstance(i, int) and i < 0:
                return o.elem(s.arith('+', o.length, i))
            if isinstance(i, (int, Sym)):
                return o.elem(i)
        if isinstance(o, Obj) and '__getitem__' in s.classes[o.cls]['methods']:
            return s.call_method(o, '__getitem__', [i], {})
        raise Unsupported(f"getitem {type(o).__name__}[{i!r}]")

    def sym_index(s, elems, i):
        # symbolic index into a concrete-length sequence: bounds are a side obligation
        n = len(elems)
        inb = z3.And(i.t >= -n, i.t < n)
        d = s.decide(inb)
        if d is False:
            raise PyRaise('IndexError')
        if d is None:
            if not s.branch(inb):
                raise PyRaise('IndexError')
        r = elems[n - 1]
        for j in range(n - 2, -1, -1):
            r = s.ite(s.or_(s.cmp('==', i, j), s.cmp('==', i, j - n)), elems[j], r)
        return r

    def ev_ListComp(s, n, env):
        return s.comp(n, env)

    def ev_GeneratorExp(s, n, env):
        return s.comp(n, env)

    def ev_SetComp(s, n, env):
        return s.comp(n, env)

    def comp(s, n, env):
        # map over a symbolic sequence (single generator, no filter): element-wise rule
        if len(n.generators) == 1 and not n.generators[0].ifs:
            g = n.generators[0]
            it = s.ev(g.iter, env)
            if isinstance(it, SymSeq):
                def fe(e, g=g):
                    e2 = Env(env)
                    s.assign(g.target, e, e2)
                    return s.ev(n.elt, e2)
                return it.derive(fe, 'comp')
            its = s.iter_(it)
            out = []
            for x in its:
                e2 = Env(env)
                s.assign(g.target, x, e2)
                out.append(s.ev(n.elt, e2))
            return out
        out = []

        def rec(gi, env_):
            if gi == len(n.generators):
                out.append(s.ev(n.elt, env_))
                return
            g = n.generators[gi]
            for x in s.iter_(s.ev(g.iter, env_)):
                e2 = Env(env_)
                s.assign(g.target, x, e2)
                if all(s.truthy(s.ev(c, e2)) for c in g.ifs):
                    rec(gi + 1, e2)
        rec(0, env)
        return out

    def ev_DictComp(s, n, env):
        out = {}
        g = n.generators[0]
        for x in s.iter_(s.ev(g.iter, env)):
            e2 = Env(env)
            s.assign(g.target, x, e2)
            if all(s.truthy(s.ev(c, e2)) for c in g.ifs):
                out[s.hashable(s.ev(n.key, e2))] = s.ev(n.value, e2)
        return out

    def ev_Lambda(s, n, env):
        return Closure(n, env)

    def ev_Call(s, n, env):
        f = s.ev(n.func, env)
        args = s.ev_elts(n.args, env)
        kw = {}
        for k in n.keywords:
            if k.arg is None:
                kw.update(s.ev(k.value, env))
            else:
                kw[k.arg] = s.ev(k.value, env)
        return s.call(f, args, kw, n)

    # ------------------------------------------------------------------ calls
    def call(s, f, args, kw, node=None):
        if isinstance(f, Builtin):
            return f.f(args, kw)
        if isinstance(f, Obj) and '__call__' in s.classes[f.cls]['methods']:
            return s.call_method(f, '__call__', list(args), dict(kw))
        if isinstance(f, Closure):
            if isinstance(f.fn, ast.Lambda):
                env = Env(f.env)
                s.bind_args(f.fn.args, args, kw, env, 'lambda')
                return s.ev(f.fn.body, env)
            a = list(args)
            if f.selfobj is not None:
                a = [f.selfobj] + a
            qual = (f.cls or f.module, f.fn.name)
            return s.call_function(f.fn, a, kw, cls=f.cls, qual=qual, closure_env=f.env)
        if isinstance(f, TypeTag):
            if f.name in s.classes:
                return s.construct(f.name, args, kw)
            if f.name == 'list':
                return list(s.iter_(args[0])) if args else []
            if f.name == 'tuple':
                return tuple(s.iter_(args[0])) if args else ()
            if f.name == 'dict':
                if args and isinstance(args[0], dict):
                    d = dict(args[0])
                elif args:
                    d = {s.hashable(k): v for k, v in s.iter_(args[0])}
                else:
                    d = {}
                d.update(kw)
                return d
            if f.name == 'set':
                v = s.iter_(args[0]) if args else []
                if all(isinstance(x, (str, int)) for x in v):
                    return frozenset(v)
                raise Unsupported('set of symbolic values')
            if f.name in ('int',):
                return s.pyscalar(s.trunc_int(args[0]))
            if f.name in ('float',):
                return s.pyscalar(s.to_float(args[0]))
            if f.name == 'bool':
                return s.truthy(args[0])
            if f.name == 'str':
                return str(args[0]) if isinstance(args[0], (str, int)) else OpaqueStr()
            if f.name == 'typeof':
                return TypeTag('typeof')
        if isinstance(f, str) and f in EXC_PARENTS:
            return ExcVal(f, args)
        if isinstance(f, str) and f.endswith('Warning'):
            return None
        raise Unsupported(f"call {f!r}")

    def construct(s, cls, args, kw):
        o = Obj(cls)
        key = (cls, '__init__')
        if key in s.contracts and s.call_depth > 0 and key not in s.inline_only:
            s.contracts[key].use(s, o, args, kw)
            return o
        s.call_function(s.classes[cls]['methods']['__init__'], [o] + list(args), kw, cls=cls, qual=key)
        return o

    def call_method(s, o, name, args, kw):
        c = s.classes[o.cls]
        fn = c['methods'].get(name)
        if fn is None:
            raise PyRaise('AttributeError', note=name)
        return s.call_function(fn, [o] + list(args), kw, cls=o.cls, qual=(o.cls, name))

    def bind_args(s, a, args, kw, env, fname):
        params = [x.arg for x in a.posonlyargs + a.args]
        defaults = [None] * (len(params) - len(a.defaults)) + list(a.defaults)
        kw = dict(kw)
        if len(args) > len(params) and not a.vararg:
            raise PyRaise('TypeError', note=f'too many positional arguments for {fname}')
        for i, p in enumerate(params):
            if i < len(args):
                if p in kw:
                    raise PyRaise('TypeError', note='multiple values')
                env.vars[p] = args[i]
            elif p in kw and i >= len(a.posonlyargs):
                env.vars[p] = kw.pop(p)
            elif defaults[i] is not None:
                env.vars[p] = s.ev(defaults[i], Env(None))
            else:
                raise PyRaise('TypeError', note=f'missing argument {p} for {fname}')
        for p, d in zip(a.kwonlyargs, a.kw_defaults):
            if p.arg in kw:
                env.vars[p.arg] = kw.pop(p.arg)
            elif d is not None:
                env.vars[p.arg] = s.ev(d, Env(None))
            else:
                raise PyRaise('TypeError', note=f'missing keyword argument {p.arg}')
        if a.vararg:
            env.vars[a.vararg.arg] = tuple(args[len(params):])
        if a.kwarg:
            env.vars[a.kwarg.arg] = kw
        elif kw:
            raise PyRaise('TypeError', note=f'unexpected keyword arguments {list(kw)} for {fname}')

    def call_function(s, fn, args, kw, cls=None, qual=None, closure_env=None):
        # modular call: a callee under contract is replaced by its contract (never at depth 0 = function under proof)
        if qual in s.contracts and s.call_depth > 0 and qual not in s.inline_only:
            return s.contracts[qual].use(s, args[0] if cls else None, args[1:] if cls else args, kw)
        if cls is not None and (cls, fn.name) in s.src.dispatch and len(args) > 1 and not getattr(fn, '_pyvc_overload', False):
            fn = s.dispatch_overload(cls, fn.name, args[1])
        if s.is_generator(fn):
            return s.call_generator(fn, args, kw, cls, qual, closure_env)
        env = Env(closure_env)
        env.vars['__class__'] = TypeTag(cls) if cls else None
        s.bind_args(fn.args, args, kw, env, fn.name)
        s.call_depth += 1
        if s.call_depth > 40:
            raise Unsupported('recursion depth')
        try:
            s.exec_block(fn.body, env)
        except _Return as r:
            return r.v
        finally:
            s.call_depth -= 1
        return None

    def dispatch_kind(s, v):
        """functools.singledispatch resolution for the value kinds of the model (most specific registered class)"""
        if isinstance(v, (str, OpaqueStr)):
            return ['str']
        if isinstance(v, dict):
            return ['dict', 'Iterable']
        if isinstance(v, Obj):
            return [v.cls] + (['Iterable'] if '__iter__' in s.classes[v.cls]['methods'] else []) + (['Callable'] if '__call__' in s.classes[v.cls]['methods'] else [])
        if isinstance(v, bool) or is_conc_num(v):
            return ['Complex']
        if isinstance(v, Sym):
            return ['Complex'] if not (v.kind == 'bool' and v.np) else []
        if isinstance(v, (Closure, Builtin)):
            return ['Callable']
        if isinstance(v, (list, tuple, Vec, NamedTuple, SymSeq)) or s.ext('isinstance', v, 'Iterable') is True:
            return ['Iterable']
        return []

    def dispatch_overload(s, cls, fname, v):
        table = s.src.dispatch[(cls, fname)]
        for kind in s.dispatch_kind(v) + ['object']:
            for tn, fn in table:
                if tn == kind:
                    fn._pyvc_overload = True
                    return fn
        raise Unsupported('singledispatch: no overload')

    _gen_cache = {}

    def is_generator(s, fn):
        k = id(fn)
        if k not in s._gen_cache:
            s._gen_cache[k] = any(isinstance(x, (ast.Yield, ast.YieldFrom)) for x in ast.walk(fn))
        return s._gen_cache[k]

    def call_generator(s, fn, args, kw, cls, qual, closure_env):
        """generator functions: (a) body = [stmts...; for x in SEQ: yield EXPR]  -> map-loop rule;
        (b) body = yield from EXPR; (c) concrete-length loops are unrolled."""
        env = Env(closure_env)
        env.vars['__class__'] = TypeTag(cls) if cls else None
        s.bind_args(fn.args, args, kw, env, fn.name)
        body = [st for st in fn.body if not (isinstance(st, ast.Expr) and isinstance(st.value, ast.Constant))]
        s.call_depth += 1
        try:
            *pre, last = body
            try:
                s.exec_block(pre, env)
            except _Return:
                return []
            if isinstance(last, ast.Expr) and isinstance(last.value, ast.YieldFrom):
                return s.ev(last.value.value, env)
            if isinstance(last, ast.For) and len(last.body) == 1 and isinstance(last.body[0], ast.Expr) \
                    and isinstance(last.body[0].value, ast.Yield) and not last.orelse:
                it = s.iterable_of(s.ev(last.iter, env))
                yexpr = last.body[0].value.value
                if isinstance(it, SymSeq):
                    def fe(e):
                        e2 = Env(env)
                        s.assign(last.target, e, e2)
                        return s.ev(yexpr, e2)
                    return it.derive(fe, f'gen:{fn.name}')
                out = []
                for x in s.iter_(it):
                    s.assign(last.target, x, env)
                    out.append(s.ev(yexpr, env))
                return out
            raise Unsupported(f'generator {fn.name} outside the map-loop rule')
        finally:
            s.call_depth -= 1

    # ------------------------------------------------------------------ statements
    def exec_block(s, stmts, env):
        for st in stmts:
            s.exec(st, env)

    def exec(s, st, env):
        m = getattr(s, 'ex_' + type(st).__name__, None)
        if m is None:
            raise Unsupported(f"stmt {type(st).__name__} @{st.lineno}")
        try:
            m(st, env)
        except PyRaise as e:
            if e.lineno is None:
                e.lineno = st.lineno
            raise

    def ex_Expr(s, st, env):
        if isinstance(st.value, ast.Constant):
            return
        s.ev(st.value, env)

    def ex_Pass(s, st, env):
        pass

    def ex_Return(s, st, env):
        raise _Return(s.ev(st.value, env) if st.value else None)

    def ex_Raise(s, st, env):
        if st.exc is None:
            raise env.lookup('__active_exc__')
        e = s.ev(st.exc, env)
        if isinstance(e, ExcVal):
            raise PyRaise(e.name, st.lineno, note=e.args)
        if isinstance(e, str):
            raise PyRaise(e, st.lineno)
        raise Unsupported('raise of non-exception')

    def ex_If(s, st, env):
        c = s.truthy(s.ev(st.test, env))
        if c:
            s.exec_block(st.body, env)
        else:
            s.exec_block(st.orelse, env)

    def iterable_of(s, it):
        """objects of repository classes are iterated through their own __iter__"""
        if isinstance(it, Obj) and '__iter__' in s.classes[it.cls]['methods']:
            return s.call_method(it, '__iter__', [], {})
        return it

    def ex_For(s, st, env):
        it = s.iterable_of(s.ev(st.iter, env))
        if isinstance(it, SymSeq):
            return s.map_loop(st, it, env)
        broke = False
        for x in s.iter_(it):
            s.assign(st.target, x, env)
            try:
                s.exec_block(st.body, env)
            except _Break:
                broke = True
                break
            except _Continue:
                continue
        if not broke:
            s.exec_block(st.orelse, env)

    def map_loop(s, st, it, env):
        """map-loop rule (DESIGN §2.2 ii): a loop over a full index box whose body only writes out[index] for the
        loop's own index.  Justified by: the sequence enumerates fn(J) for every J of the box exactly once
        (itertools.product over ranges [A]) and the written index is a permutation of J."""
        h = s.ext('map_loop', st, it, env)
        if h is NotImplemented or h is None:
            raise Unsupported('loop over a symbolic-length sequence outside the map-loop rule')

    def ex_While(s, st, env):
        n = 0
        while s.truthy(s.ev(st.test, env)):
            n += 1
            if n > 64:
                raise Unsupported('while loop without invariant')
            try:
                s.exec_block(st.body, env)
            except _Break:
                break
            except _Continue:
                continue

    def ex_Break(s, st, env):
        raise _Break()

    def ex_Continue(s, st, env):
        raise _Continue()

    def ex_Assign(s, st, env):
        v = s.ev(st.value, env)
        for t in st.targets:
            s.assign(t, v, env)

    def ex_AnnAssign(s, st, env):
        if st.value is not None:
            s.assign(st.target, s.ev(st.value, env), env)

    AUGOPS = {ast.Add: '+', ast.Sub: '-', ast.Mult: '*', ast.Div: '/', ast.FloorDiv: '//', ast.Mod: '%', ast.BitOr: '|', ast.BitAnd: '&'}

    def ex_AugAssign(s, st, env):
        op = s.AUGOPS[type(st.op)]
        if isinstance(st.target, ast.Subscript):
            o = s.ev(st.target.value, env)
            i = s.ev(st.target.slice, env)
            h = s.ext('augstore', o, i, op, s.ev(st.value, env)) if not isinstance(o, (Vec, list, dict)) else NotImplemented
            if h is not NotImplemented:
                return
            cur = s.getitem(o, i)
            s.setitem(o, i, s.binop(op, cur, s.ev(st.value, env)))
            return
        cur = s.ev(st.target, env)
        val = s.ev(st.value, env)
        h = s.ext('auginplace', cur, op, val)
        if h is not NotImplemented:
            return
        if isinstance(cur, list) and op == '+':
            cur.extend(s.iter_(val))
            return
        if isinstance(cur, Vec) and isinstance(st.target, (ast.Name, ast.Attribute)):
            new = s.binop(op, cur, val)
            cur.elems[:] = new.elems   # ndarray in-place operator
            return
        s.assign(st.target, s.binop(op, cur, val), env)

    def ex_Assert(s, st, env):
        if not s.truthy(s.ev(st.test, env)):
            raise PyRaise('AssertionError', st.lineno)

    def ex_Try(s, st, env):
        try:
            s.exec_block(st.body, env)
        except PyRaise as e:
            for h in st.handlers:
                tn = None if h.type is None else s.ev(h.type, env)
                if tn is None or exc_isinstance(e.exc, tn):
                    if h.name:
                        env.vars[h.name] = ExcVal(e.exc, e.note)
                    env.vars['__active_exc__'] = e
                    try:
                        s.exec_block(h.body, env)
                    finally:
                        s.exec_block(st.finalbody, env)
                    break
            else:
                s.exec_block(st.finalbody, env)
                raise
        else:
            s.exec_block(st.orelse, env)
            s.exec_block(st.finalbody, env)

    def ex_With(s, st, env):
        if len(st.items) == 1:
            cm = s.ev(st.items[0].context_expr, env)
            if isinstance(cm, tuple) and cm and cm[0] == 'suppress':
                try:
                    s.exec_block(st.body, env)
                except PyRaise as e:
                    if not any(exc_isinstance(e.exc, t) for t in cm[1]):
                        raise
                return
        raise Unsupported('with')

    def ex_FunctionDef(s, st, env):
        env.vars[st.name] = Closure(st, env)

    def ex_Delete(s, st, env):
        raise Unsupported('del')

    def assign(s, t, v, env):
        if isinstance(t, ast.Name):
            env.vars[t.id] = v
        elif isinstance(t, (ast.Tuple, ast.List)):
            vs = s.iter_(v)
            if any(isinstance(x, ast.Starred) for x in t.elts):
                raise Unsupported('starred assignment')
            if len(vs) != len(t.elts):
                raise PyRaise('ValueError', note='unpack arity')
            for tt, vv in zip(t.elts, vs):
                s.assign(tt, vv, env)
        elif isinstance(t, ast.Attribute):
            o = s.ev(t.value, env)
            if not isinstance(o, Obj):
                raise Unsupported('attribute store on non-object')
            c = s.classes[o.cls]
            if t.attr in c['setters']:
                s.call_function(c['setters'][t.attr], [o, v], {}, cls=o.cls, qual=(o.cls, t.attr + '.setter'))
            elif t.attr in c['props']:
                raise PyRaise('AttributeError', note='read-only property')
            else:
                o.attrs[t.attr] = v
        elif isinstance(t, ast.Subscript):
            o = s.ev(t.value, env)
            i = s.ev(t.slice, env)
            s.setitem(o, i, v)
        else:
            raise Unsupported('assign target')

    def setitem(s, o, i, v):
        h = s.ext('setitem', o, i, v)
        if h is not NotImplemented:
            return
        if isinstance(o, Vec):
            if isinstance(i, int):
                if o.kind == 'float':
                    v = s.to_float(v)
                elif o.kind == 'int':
                    v = s.trunc_int(v)
                try:
                    o.elems[i] = s.npscalar(v)
                except IndexError:
                    raise PyRaise('IndexError')
                return
            if isinstance(i, Sym):
                n = len(o.elems)
                for j in range(n):
                    o.elems[j] = s.ite(s.or_(s.cmp('==', i, j), s.cmp('==', i, j - n)), v, o.elems[j])
                return
        if isinstance(o, list):
            if isinstance(i, int):
                try:
                    o[i] = v
                except IndexError:
                    raise PyRaise('IndexError')
                return
            if isinstance(i, Sym):
                n = len(o)
                if s.decide(z3.And(i.t >= -n, i.t < n)) is not True:
                    if not s.branch(z3.And(i.t >= -n, i.t < n)):
                        raise PyRaise('IndexError')
                for j in range(n):
                    o[j] = s.ite(s.or_(s.cmp('==', i, j), s.cmp('==', i, j - n)), v, o[j])
                return
        if isinstance(o, dict):
            o[s.hashable(i)] = v
            return
        raise Unsupported(f'setitem {type(o).__name__}')


class Env:
    __slots__ = ('vars', 'parent')

    def __init__(s, parent):
        s.vars = {}
        s.parent = parent

    def lookup(s, n):
        e = s
        while e is not None:
            if n in e.vars:
                return e.vars[n]
            e = e.parent
        raise KeyError(n)


class ExcVal:
    def __init__(s, name, args=None):
        s.name = name
        s.args = args


class NamedTuple:
    def __init__(s, names, vals):
        s.names = names
        s.vals = vals


class DictView:
    def __init__(s, d, what):
        s.d = d
        s.what = what

    def items(s):
        if s.what == 'items':
            return [(k, v) for k, v in s.d.items()]
        if s.what == 'keys':
            return list(s.d.keys())
        return list(s.d.values())


class _Pi:
    def __repr__(s):
        return 'pi'


PI = _Pi()

# attributes that the IO mixins (not extracted) add to the classes: needed by hasattr() in the vdims setter
IO_MIXIN_ATTRS = {'Field': {'to_file', 'from_file', '_to_ovf', '_to_vtk', '_to_hdf5', 'write'},
                  'Mesh': {'save_subregions', 'load_subregions'}, 'Region': set()}
