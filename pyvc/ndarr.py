"""pyvc n-d array model: buffers + strided views (DESIGN §2.2).

Buf  = (id, symbolic shape, element function idx -> scalar term, dtype tag)
NDArr = view of a Buf: per view axis ('ax', base_axis, start, step, length) or ('new',); fixed base axes.
Basic indexing, expand_dims, squeeze, [..., None] are VIEWS of the same buffer (stores through them
rewrite the buffer's element function); ufuncs, np.full, pad, stack, rot90(copy), .copy() allocate FRESH
buffers.  This is what makes freshness ("result's validity is its own") and frame clauses checkable."""
import itertools, fractions
import z3
from .core import *
from .interp import Interp, NamedTuple

DT_ORDER = ['bool', 'int', 'float', 'complex']


class Buf:
    def __init__(s, E, shape, get, dtype='float', note=''):
        s.id = next(E.buf_ids)
        s.shape = list(shape)
        s.get = get
        s.dtype = dtype
        s.note = note
        s.version = 0


class NDArr:
    def __init__(s, buf, axes=None, fixed=None):
        s.buf = buf
        s.fixed = dict(fixed or {})
        s.axes = axes if axes is not None else [('ax', i, 0, 1, n) for i, n in enumerate(buf.shape)]

    @property
    def shape(s):
        return [a[4] if a[0] == 'ax' else 1 for a in s.axes]

    @property
    def ndim(s):
        return len(s.axes)

    @property
    def dtype(s):
        return s.buf.dtype

    def base_index(s, E, idx):
        b = [None] * len(s.buf.shape)
        for k, v in s.fixed.items():
            b[k] = v
        for a, i in zip(s.axes, idx):
            if a[0] == 'ax':
                b[a[1]] = E.arith('+', a[2], E.arith('*', a[3], i)) if not (a[2] == 0 and a[3] == 1) else i
        return b

    def at(s, E, idx):
        idx = list(idx)
        if len(idx) != len(s.axes):
            raise Unsupported(f'NDArr.at rank mismatch {len(idx)} vs {len(s.axes)}')
        return s.buf.get(s.base_index(E, idx))

    # snapshot / frame support (states.snapshot)
    def __snapshot__(s):
        return ('nd', s, s.buf, s.buf.get, list(s.axes), dict(s.fixed))

    def to_numpy(s, E):
        """concrete contents (all shape entries and elements must be ground)"""
        import numpy as np
        shape = [int(tofloat_(d)) for d in s.shape]
        out = np.zeros(shape, dtype={'bool': bool, 'int': int, 'float': float, 'complex': complex}[s.dtype])
        for idx in itertools.product(*[range(d) for d in shape]):
            out[idx] = tofloat_(s.at(E, list(idx)))
        return out


    def frozen(s):
        """the same view over the CURRENT contents of the buffer (later stores do not show through):
        every lazily evaluated result must read its operands as they were when it was computed"""
        b = Buf.__new__(Buf)
        b.id, b.shape, b.get, b.dtype, b.note, b.version = s.buf.id, s.buf.shape, s.buf.get, s.buf.dtype, s.buf.note, s.buf.version
        b.data = getattr(s.buf, 'data', None)
        return NDArr(b, list(s.axes), dict(s.fixed))

    def is_whole(s):
        return not s.fixed and all(a[0] == 'ax' and a[2] == 0 and a[3] == 1 for a in s.axes) and \
            [a[1] for a in s.axes] == list(range(len(s.buf.shape)))


def _t(v):
    return term(v)


def dim_eq(E, a, b):
    """are two (possibly symbolic) dimension sizes equal?  python bool or None"""
    if isinstance(a, int) and isinstance(b, int):
        return a == b
    ta, tb = z3.simplify(I(a)), z3.simplify(I(b))
    if ta.eq(tb):
        return True
    return E.decide(ta == tb)


class NDInterp(Interp):
    """Interp + the n-d array model, hooked in through Interp.ext"""

    def __init__(s, source):
        super().__init__(source)
        s.buf_ids = itertools.count()
        s.uf = {}
        s.ghost = {}
        m = s.np.members
        m['full'] = Builtin('np.full', s.np_full)
        old_allclose = m['allclose']
        m['allclose'] = Builtin('np.allclose', lambda a, k: s.np_allclose(a, k, old_allclose))
        m['zeros_like'] = Builtin('np.zeros_like', lambda a, k: s.like(a[0], 0.0 if k.get('dtype') is None else 0, k))
        m['ones_like'] = Builtin('np.ones_like', lambda a, k: s.like(a[0], 1.0 if k.get('dtype') is None else 1, k))
        m['empty'] = Builtin('np.empty', lambda a, k: s.np_full([a[0], 0.0], k))
        m['expand_dims'] = Builtin('np.expand_dims', s.np_expand_dims)
        m['squeeze'] = Builtin('np.squeeze', lambda a, k: s.squeeze(a[0], k.get('axis', a[1] if len(a) > 1 else None)))
        m['stack'] = Builtin('np.stack', s.np_stack)
        m['einsum'] = Builtin('np.einsum', s.np_einsum)
        m['cross'] = Builtin('np.cross', s.np_cross)
        m['cumsum'] = Builtin('np.cumsum', s.np_cumsum)
        m['rot90'] = Builtin('np.rot90', s.np_rot90)
        m['pad'] = Builtin('np.pad', s.np_pad)
        m['gradient'] = Builtin('np.gradient', s.np_gradient)
        m['where'] = Builtin('np.where', s.np_where)
        m['concatenate'] = Builtin('np.concatenate', s.np_concatenate)
        m['convolve'] = Builtin('np.convolve', s.np_convolve)
        m['linalg'] = Module('linalg', {'norm': Builtin('norm', s.np_norm)})
        m['power'] = Builtin('np.power', lambda a, k: s.map2(lambda x, y: s.uf_app('power', x, y), s.asarr(a[0]), s.asarr(a[1])))
        m['arccos'] = Builtin('np.arccos', lambda a, k: s.map1(lambda x: s.uf_app('arccos', x), a[0]))
        m['angle'] = Builtin('np.angle', lambda a, k: s.map1(lambda x: s.uf_app('angle', x), a[0]))
        old_divide = m['divide']
        m['divide'] = Builtin('np.divide', lambda a, k: s.np_divide(a, k, old_divide))
        old_asarray = m['asarray']
        def asarray_(a, k):
            # [A] np.asarray returns its argument ITSELF (no copy) when it already is an array of the requested kind
            dt = k.get('dtype', a[1] if len(a) > 1 else None)
            dn = {'float64': 'float', 'bool_': 'bool', 'int64': 'int'}.get(dt.name, dt.name) if isinstance(dt, TypeTag) else dt
            if isinstance(a[0], NDArr) and (dt is None or dn == a[0].dtype):
                return a[0]
            return old_asarray.f(a, k)
        m['asarray'] = Builtin('np.asarray', asarray_)
        m['isnan'] = Builtin('np.isnan', lambda a, k: s.map1(lambda x: False, a[0]))
        m['ndim'] = Builtin('np.ndim', lambda a, k: len(s.np_shape(a[0])))
        s.globals['np'] = s.np

    # ------------------------------------------------------------------ symbols
    def uf_app(s, name, *args):
        """uninterpreted cell-wise function (ufunc whose values are not modelled)"""
        if all(is_conc_num(a) for a in args) and name == 'power' and isinstance(args[1], int):
            return s.arith('**', args[0], args[1])
        if all(is_conc_num(a) or isinstance(a, bool) for a in args) and getattr(s, 'valuation', None) is not None:
            # concrete replay / cross-check: evaluate natively
            import math
            xs = [float(a) for a in args]
            try:
                if name == 'power':
                    r = xs[0] ** xs[1]
                elif name == 'div':
                    r = xs[0] / xs[1]
                elif name == 'arccos':
                    r = math.acos(xs[0])
                else:
                    raise Unsupported(f'concrete {name}')
                if isinstance(r, complex) or r != r or r in (float('inf'), float('-inf')):
                    raise Unsupported('non-real concrete value')
            except (ZeroDivisionError, ValueError, OverflowError):
                raise Unsupported('concrete evaluation outside the real-number model')
            return fractions.Fraction(r)
        key = (name, len(args))
        if key not in s.uf:
            s.uf[key] = z3.Function(f'uf_{name}', *([z3.RealSort()] * len(args)), z3.RealSort())
        return Sym(s.uf[key](*[R(a) if not isinstance(a, bool) else R(int(a)) for a in args]), 'float', True)

    def fresh_buf(s, shape, get, dtype='float', note=''):
        return NDArr(Buf(s, shape, get, dtype, note))

    def sym_array(s, name, shape, dtype='float'):
        """input array = uninterpreted function of the index"""
        val = getattr(s, 'valuation', None)
        if val is not None:
            if name not in val:
                raise KeyError(f'valuation lacks array {name}')
            return s.data_array(val[name], dtype, name)
        sort = z3.BoolSort() if dtype == 'bool' else (z3.IntSort() if dtype == 'int' else z3.RealSort())
        f = z3.Function(name, *([z3.IntSort()] * len(shape)), sort)
        s.inputs[name] = ('array', dtype, len(shape))
        s.array_inputs = getattr(s, 'array_inputs', {})
        s.array_inputs[name] = (f, list(shape), dtype)

        def get(idx, f=f, dtype=dtype):
            return Sym(f(*[I(i) for i in idx]), dtype, True)
        return s.fresh_buf(shape, get, dtype, name)

    def data_array(s, data, dtype, name='data'):
        """array over concrete numpy data (replay of counter-models, concrete cross-check)"""
        import numpy as np
        data = np.asarray(data)

        def getc(idx, data=data, dtype=dtype):
            v = data[tuple(int(tofloat_(i)) for i in idx)]
            if dtype == 'bool':
                return bool(v)
            if dtype == 'int':
                return int(v)
            return fractions.Fraction(float(v))
        arr = s.fresh_buf(list(data.shape), getc, dtype, name)
        arr.buf.data = data
        return arr

    def skolem(s, shape, name='ix'):
        """a generic in-range index (fresh ints constrained to the shape)"""
        if getattr(s, 'valuation', None) is not None and getattr(s, '_sk_choice', None) is not None:
            # replay on concrete data: the clause is evaluated for every index (runner.replay enumerates the choices)
            k = s._sk_n
            s._sk_n += 1
            dims = [int(tofloat_(n)) for n in shape]
            s._sk_shapes[k] = dims
            ch = s._sk_choice.get(k)
            return list(ch) if ch is not None else [0] * len(dims)
        out = []
        for j, n in enumerate(shape):
            i = s.fresh(f'{name}{j}', 'int')
            s.assume(z3.And(i.t >= 0, i.t < I(n)))
            out.append(i)
        return out

    # ------------------------------------------------------------------ ext hook
    def ext(s, what, *a):
        h = getattr(s, 'x_' + what, None)
        if h is None:
            return NotImplemented
        return h(*a)

    def x_len(s, v):
        if isinstance(v, NDArr):
            return v.shape[0]
        return NotImplemented

    def x_iter(s, v):
        if isinstance(v, NDArr):
            n = v.shape[0]
            if isinstance(n, int):
                return [s.nd_getitem(v, j) for j in range(n)]
            raise Unsupported('iteration over a symbolic-length array axis')
        return NotImplemented

    def x_isinstance(s, v, name):
        if isinstance(v, NDArr):
            return name in ('ndarray', 'Iterable')
        return NotImplemented

    def x_shape(s, v):
        if isinstance(v, NDArr):
            return tuple(v.shape)
        return NotImplemented

    def x_getattr(s, o, name):
        if not isinstance(o, NDArr):
            return NotImplemented
        if name == 'shape':
            return tuple(o.shape)
        if name == 'dtype':
            return TypeTag(o.dtype)
        if name == 'ndim':
            return len(o.axes)
        if name == 'size':
            r = 1
            for d in o.shape:
                r = s.arith('*', r, d)
            return r
        if name == 'real':
            return o if o.dtype != 'complex' else s.map1(lambda x: s.uf_app('real', x), o)
        if name == 'imag':
            return s.map1(lambda x: 0.0, o) if o.dtype != 'complex' else s.map1(lambda x: s.uf_app('imag', x), o)
        if name == 'T':
            raise Unsupported('transpose')
        meths = {
            'copy': lambda a, k: s.map1(lambda x: x, o, dtype=o.dtype),
            'astype': lambda a, k: s.astype(o, a[0]),
            'conjugate': lambda a, k: s.map1(lambda x: x, o, dtype=o.dtype) if o.dtype != 'complex' else s.map1(lambda x: s.uf_app('conj', x), o),
            'mean': lambda a, k: s.reduce_('mean', o, k.get('axis', a[0] if a else None)),
            'sum': lambda a, k: s.reduce_('sum', o, k.get('axis', a[0] if a else None)),
            'squeeze': lambda a, k: s.squeeze(o, k.get('axis', a[0] if a else None)),
            'reshape': lambda a, k: s.reshape(o, a[0] if len(a) == 1 and isinstance(a[0], (tuple, list)) else a),
            'any': lambda a, k: s.x_any(o),
            'all': lambda a, k: s.x_all(o),
            'item': lambda a, k: s.item(o),
            'tolist': lambda a, k: s.x_iter(o),
        }
        if name in meths:
            return Builtin('nd.' + name, meths[name])
        raise Unsupported(f'ndarray.{name}')

    def item(s, o):
        if all(isinstance(d, int) and d == 1 for d in o.shape):
            return s.pyscalar(o.at(s, [0] * len(o.axes)))
        raise Unsupported('item of a non-singleton array')

    def x_any(s, v):
        if isinstance(v, NDArr):
            raise Unsupported('any() over an n-d array (needs a quantifier)')
        return NotImplemented

    def x_all(s, v):
        if isinstance(v, NDArr):
            raise Unsupported('all() over an n-d array (needs a quantifier)')
        return NotImplemented

    def x_array(s, v, k):
        if isinstance(v, NDArr):
            dt = k.get('dtype')
            if dt is not None:
                return s.astype(v, dt, copy=True)
            return s.map1(lambda x: x, v, dtype=v.dtype)      # np.array copies; np.asarray handled in x_asarray
        return NotImplemented

    def x_array_equal(s, x, y):
        if isinstance(x, NDArr) or isinstance(y, NDArr):
            raise Unsupported('array_equal over n-d arrays')
        return NotImplemented

    def x_abs(s, v):
        if isinstance(v, NDArr):
            return s.map1(s.absv, v)
        return NotImplemented

    def x_unary(s, op, v):
        if not isinstance(v, NDArr):
            return NotImplemented
        if op == 'USub':
            return s.map1(s.neg, v)
        if op == 'UAdd':
            return s.map1(lambda x: x, v)
        if op == 'Invert':
            return s.map1(lambda x: s.not_(s.asbool(x)), v, dtype='bool')
        return NotImplemented

    def x_map1(s, f, v):
        if isinstance(v, NDArr):
            return s.map1(f, v)
        return NotImplemented

    def x_map2(s, f, x, y, dtype=None):
        if isinstance(x, NDArr) or isinstance(y, NDArr):
            return s.map2(f, x, y, dtype=dtype)
        return NotImplemented

    def x_logical(s, f, x, y):
        if isinstance(x, NDArr) or isinstance(y, NDArr):
            return s.map2(lambda p, q_: f(s.asbool(p), s.asbool(q_)), x, y, dtype='bool')
        return NotImplemented

    def x_binop(s, op, a, b):
        if not (isinstance(a, NDArr) or isinstance(b, NDArr)):
            return NotImplemented
        if isinstance(a, Obj) or isinstance(b, Obj):
            return NotImplemented
        if op in ('|', '&'):
            f = s.or_ if op == '|' else s.and_
            return s.map2(lambda x, y: f(s.asbool(x), s.asbool(y)), a, b, dtype='bool')
        if op == '**':
            return s.map2(lambda x, y: s.uf_app('power', x, y), a, b)
        if op == '/':
            # true division: the quotient of integer (Boolean) arrays is a floating array
            dt = s.result_dtype(a, b)
            return s.map2(s.cell_div, a, b, dtype=dt if dt in ('float', 'complex') else 'float')
        return s.map2(lambda x, y: s.arith(op, x, y), a, b)

    def cell_div(s, x, y):
        """cell-wise division of array elements: exact for a concrete non-zero divisor, otherwise a total
        uninterpreted function (numpy gives inf/nan for zero divisors, which is outside the real-number model)"""
        if is_conc_num(y) and y != 0:
            return s.arith('/', x, y)
        if isinstance(y, Sym) and s.decide(R(y) != 0) is True:
            return s.arith('/', x, y)
        return s.uf_app('div', x, y)

    def x_compare(s, op, a, b):
        if isinstance(a, NDArr) or isinstance(b, NDArr):
            if isinstance(a, (tuple, list)) or isinstance(b, (tuple, list)):
                a, b = s.asarr(a), s.asarr(b)
            return s.map2(lambda x, y: s.cmp(op, x, y), a, b, dtype='bool')
        return NotImplemented

    def x_getitem(s, o, i):
        if isinstance(o, NDArr):
            return s.nd_getitem(o, i)
        return NotImplemented

    def x_setitem(s, o, i, v):
        if isinstance(o, NDArr):
            if isinstance(i, NDArr) and i.dtype == 'bool':
                s.mask_store(o, i, v)
                return True
            s.nd_store(s.nd_getitem(o, i, for_store=True), v)
            return True
        return NotImplemented

    def x_augstore(s, o, i, op, v):
        if isinstance(o, NDArr):
            s.nd_store(s.nd_getitem(o, i, for_store=True), v, op)
            return True
        return NotImplemented

    def x_auginplace(s, cur, op, val):
        if isinstance(cur, NDArr):
            s.nd_store(cur, val, op)
            return True
        return NotImplemented

    def x_sum(s, v, k, a):
        if isinstance(v, NDArr):
            return s.reduce_('sum', v, k.get('axis', a[1] if len(a) > 1 else None))
        return NotImplemented

    def x_full(s, shp, val, k):
        return s.np_full([shp, val], k)

    def x_map_loop(s, st, it, env):
        import ast
        from .interp import Env
        if it.coords is None or st.orelse:
            s._ml_why(1)
            return None
        sizes, fn = it.coords
        # body: [pure local assignments ...] + one or more stores  ARR[INDEXEXPR] = VALUE
        body = s.flatten_inner_loops(list(st.body), env)
        if body is None:
            s._ml_why(2)
            return None
        cand = [b for b in body if isinstance(b, ast.Assign) and len(b.targets) == 1 and isinstance(b.targets[0], ast.Subscript)]
        if not cand or any(isinstance(x, (ast.Break, ast.Continue, ast.Return)) for b in body for x in ast.walk(b)):
            s._ml_why(3)
            return None
        stores = []         # filled while planning: subscript assignments whose target is an n-d array (others are local list/dict updates)
        # symbolic placeholders for the box coordinates
        J = [Sym(z3.Int(f'J!{j}!{next(s.counter)}'), 'int') for j in range(len(sizes))]
        saved_pc = list(s.pc)
        for Jj, sz in zip(J, sizes):
            s.assume(z3.And(Jj.t >= 0, Jj.t < I(sz)))
        e2 = Env(env)
        s.assign(st.target, fn(J), e2)
        plans = []
        for b in body:
            if b in cand and isinstance(s.ev(b.targets[0].value, e2), NDArr):
                stores.append(b)
            if b not in stores:
                ok_local = isinstance(b, ast.Assign) and all(isinstance(t_, ast.Name) or
                                                              (isinstance(t_, ast.Subscript) and isinstance(t_.value, ast.Name) and
                                                               isinstance(e2.vars.get(t_.value.id), (list, dict))) for t_ in b.targets)
                if not ok_local:
                    s.pc[:] = saved_pc
                    s._ml_why(4)
                    return None
                s.exec(b, e2)
                continue
            tgt = b.targets[0]
            arr = s.ev(tgt.value, e2)
            if not isinstance(arr, NDArr) or not arr.is_whole():
                s.pc[:] = saved_pc
                s._ml_why(5)
                return None
            index = s.ev(tgt.slice, e2)
            index = list(index) if isinstance(index, (tuple, list)) else [index]
            # the written cell index: symbolic components must be a permutation of the box coordinates J
            perm = {}
            for pos, comp in enumerate(index):
                if isinstance(comp, slice):
                    continue
                if isinstance(comp, Sym):
                    hit = [j for j, Jj in enumerate(J) if z3.simplify(comp.t).eq(Jj.t)]
                    if len(hit) != 1 or hit[0] in perm.values():
                        s.pc[:] = saved_pc
                        s._ml_why(6)
                        return None
                    perm[pos] = hit[0]
                elif not isinstance(comp, int):
                    s.pc[:] = saved_pc
                    s._ml_why(7)
                    return None
            missing = [j for j in range(len(J)) if j not in perm.values()]
            if any(dim_eq(s, sizes[j], 1) is not True for j in missing):
                # a box coordinate may be absent from the written index only when its extent is 1
                s.pc[:] = saved_pc
                s._ml_why(8)
                return None
            for pos, j in perm.items():
                if dim_eq(s, arr.shape[pos], sizes[j]) is not True:
                    s.pc[:] = saved_pc
                    s._ml_why(9)
                    return None
            plans.append((b, arr, index, perm))
        s.pc[:] = saved_pc
        for b, arr, index, perm in plans:
            old = arr.buf.get
            tgt = b.targets[0]

            depth0 = s.call_depth

            def get(bidx, b=b, arr=arr, index=index, perm=perm, old=old, tgt=tgt, depth0=depth0):
                # lazily evaluated: runs with the call depth of the loop (callees under contract stay modular)
                saved_depth = s.call_depth
                s.call_depth = max(saved_depth, depth0)
                try:
                    return get_(bidx, b, arr, index, perm, old, tgt)
                finally:
                    s.call_depth = saved_depth

            def get_(bidx, b, arr, index, perm, old, tgt):
                # the iteration that writes cell bidx: J_j := bidx[pos] for perm[pos] = j
                Jv = [0] * len(J)          # coordinates of extent 1 (absent from the index) are 0
                for pos, j in perm.items():
                    Jv[j] = bidx[pos]
                e3 = Env(env)
                s.assign(st.target, fn(Jv), e3)
                for bb in body:
                    if bb is b:
                        break
                    if bb not in stores:
                        s.exec(bb, e3)
                idx_now = s.ev(tgt.slice, e3)
                idx_now = list(idx_now) if isinstance(idx_now, (tuple, list)) else [idx_now]
                # concrete components of the index restrict which cells are written by this store
                cond = True
                for pos, comp in enumerate(idx_now):
                    if isinstance(comp, int) and pos not in perm:
                        cond = s.and_(cond, s.cmp('==', bidx[pos], comp))
                val = s.ev(b.value, e3)
                # value broadcast into the sub-array arr[index]
                sub_axes = [pos for pos in range(len(arr.shape)) if pos >= len(idx_now) or isinstance(idx_now[pos], slice)]
                vs, gv = s.as_operand(val)
                sub_idx = [bidx[pos] for pos in sub_axes]
                off = len(sub_idx) - len(vs)
                if off < 0:
                    raise Unsupported('map-loop: value of higher rank than the target slot')
                vi = [0 if (isinstance(d, int) and d == 1) else i for i, d in zip(sub_idx[off:], vs)]
                conv = {'bool': s.asbool, 'int': s.trunc_int, 'float': s.to_float, 'complex': (lambda x: x)}[arr.dtype]
                new = conv(gv(vi))
                if cond is True:
                    return new
                return s.ite(cond, new, old(bidx))
            arr.buf.get = get
            arr.buf.version += 1
        return True

    def _ml_why(s, k):
        import os
        if os.environ.get('PYVC_DEBUG'):
            print('map-loop rule not applicable: exit point', k)

    def flatten_inner_loops(s, body, env):
        """`for v in <concrete range>: <stores / local assignments>` inside a map-loop body is unrolled into
        `v = c0; ...; v = c1; ...` (fresh copies of the statements per iteration); None if the shape does not fit"""
        import ast, copy
        out = []
        for b in body:
            if isinstance(b, ast.For):
                if b.orelse or not isinstance(b.target, ast.Name):
                    return None
                if not (isinstance(b.iter, ast.Call) and isinstance(b.iter.func, ast.Name) and b.iter.func.id == 'range' and len(b.iter.args) == 1):
                    return None
                try:
                    n = s.ev(b.iter.args[0], env)
                except (Unsupported, PyRaise, KeyError):
                    return None
                if isinstance(n, bool) or not isinstance(n, int):
                    return None
                for c in range(n):
                    asg = ast.Assign(targets=[ast.Name(id=b.target.id, ctx=ast.Store())], value=ast.Constant(value=c), lineno=b.lineno, col_offset=0)
                    ast.fix_missing_locations(asg)
                    out.append(asg)
                    inner = s.flatten_inner_loops([copy.deepcopy(x) for x in b.body], env)
                    if inner is None:
                        return None
                    out += inner
            else:
                out.append(b)
        return out

    # ------------------------------------------------------------------ helpers
    def asarr(s, v):
        if isinstance(v, NDArr):
            return v
        return super().asarr(v)

    def astype(s, o, t, copy=True):
        tn = t.name if isinstance(t, TypeTag) else t
        tn = {'float64': 'float', 'bool_': 'bool', 'int64': 'int'}.get(tn, tn)
        if tn == 'bool':
            return s.map1(s.asbool, o, dtype='bool')
        if tn == 'int':
            return s.map1(s.trunc_int, o, dtype='int')
        if tn == 'float':
            return s.map1(s.to_float, o, dtype='float')
        if tn == 'complex':
            return s.map1(lambda x: x, o, dtype='complex')
        raise Unsupported(f'astype {tn}')

    def result_dtype(s, *vals):
        ks = []
        for v in vals:
            if isinstance(v, NDArr):
                ks.append(v.dtype)
            elif isinstance(v, Vec):
                ks.append(v.kind if v.kind in DT_ORDER else 'float')
            elif isinstance(v, (bool,)):
                ks.append('bool')
            elif isinstance(v, Sym):
                ks.append(v.kind)
            elif isinstance(v, int):
                ks.append('int')
            else:
                ks.append('float')
        return max(ks, key=DT_ORDER.index)

    def bshape(s, sa, sb):
        """numpy broadcasting of two shapes (trailing alignment); returns (shape, mapa, mapb) where map* give for
        every result axis the operand axis or None (broadcast)"""
        n = max(len(sa), len(sb))
        pa = [None] * (n - len(sa)) + list(range(len(sa)))
        pb = [None] * (n - len(sb)) + list(range(len(sb)))
        shape, ma, mb = [], [], []
        for j in range(n):
            da = sa[pa[j]] if pa[j] is not None else 1
            db = sb[pb[j]] if pb[j] is not None else 1
            one_a = isinstance(da, int) and da == 1
            one_b = isinstance(db, int) and db == 1
            if one_a and one_b:
                shape.append(1); ma.append(None); mb.append(None)
            elif one_a:
                shape.append(db); ma.append(None); mb.append(pb[j])
            elif one_b:
                shape.append(da); ma.append(pa[j]); mb.append(None)
            else:
                eq = dim_eq(s, da, db)
                if eq is None:
                    eq = s.branch(I(da) == I(db))
                if not eq:
                    raise PyRaise('ValueError', note='operands could not be broadcast together')
                shape.append(da); ma.append(pa[j]); mb.append(pb[j])
        return shape, ma, mb

    def as_operand(s, v):
        """(shape, getter(idx)) of an elementwise operand"""
        if isinstance(v, NDArr):
            fv = v.frozen()
            return fv.shape, (lambda idx, fv=fv: fv.at(s, idx))
        if isinstance(v, Vec):
            if v.kind == 'row':
                raise Unsupported('2-d list operand')
            return [len(v.elems)], (lambda idx, v=v: s.select_list(v.elems, idx[0]))
        if isinstance(v, (list, tuple)):
            return s.as_operand(s.asvec(v))
        return [], (lambda idx, v=v: v)

    def map1(s, f, v, dtype=None):
        if not isinstance(v, NDArr):
            if isinstance(v, Vec):
                return Vec([f(e) for e in v.elems], v.kind)
            return f(v)
        dt = dtype or ('float' if v.dtype in ('float', 'int', 'bool') and dtype is None and f not in (s.neg, s.absv) else v.dtype)
        if dtype is None and f in (s.neg, s.absv):
            dt = v.dtype if v.dtype != 'bool' else 'int'
        fv = v.frozen()
        return s.fresh_buf(fv.shape, lambda idx, fv=fv: f(fv.at(s, idx)), dt)

    def map2(s, f, a, b, dtype=None):
        sa, ga = s.as_operand(a)
        sb, gb = s.as_operand(b)
        shape, ma, mb = s.bshape(sa, sb)

        def get(idx):
            ia = [0] * len(sa)
            ib = [0] * len(sb)
            for j, i in enumerate(idx):
                if ma[j] is not None:
                    ia[ma[j]] = i
                if mb[j] is not None:
                    ib[mb[j]] = i
            return f(ga(ia), gb(ib))
        return s.fresh_buf(shape, get, dtype or s.result_dtype(a, b))

    # ------------------------------------------------------------------ creation
    def np_full(s, a, k):
        shape, val = a[0], a[1]
        dtype = k.get('dtype', a[2] if len(a) > 2 else None)
        if isinstance(shape, (int, Sym)):
            shape = [shape]
        shape = list(shape.elems) if isinstance(shape, Vec) else list(shape)
        shape = [s.pyscalar(d) for d in shape]
        dt = (dtype.name if isinstance(dtype, TypeTag) else dtype) if dtype is not None else s.result_dtype(val)
        dt = {'float64': 'float', 'bool_': 'bool'}.get(dt, dt)
        vs, gv = s.as_operand(val)
        _, mv, _ = s.bshape(vs, shape)       # raises ValueError if val does not broadcast into shape
        if len(vs) > len(shape):
            raise PyRaise('ValueError', note='could not broadcast input array into shape')
        off = len(shape) - len(vs)
        for j, d in enumerate(vs):
            if not (isinstance(d, int) and d == 1):
                eq = dim_eq(s, d, shape[off + j])
                if eq is None:
                    eq = s.branch(I(d) == I(shape[off + j]))
                if not eq:
                    raise PyRaise('ValueError', note='could not broadcast input array into shape')
        conv = {'bool': s.asbool, 'int': s.trunc_int, 'float': s.to_float, 'complex': (lambda x: x)}[dt]

        def get(idx):
            vi = [0 if (isinstance(d, int) and d == 1) else i for i, d in zip(idx[off:], vs)]
            return conv(gv(vi))
        return s.fresh_buf(shape, get, dt, 'full')

    def like(s, arr, val, k):
        if not isinstance(arr, NDArr):
            if isinstance(arr, Vec):
                return Vec([val] * len(arr.elems), arr.kind)
            raise Unsupported('zeros_like of non-array')
        dt = k.get('dtype')
        dt = (dt.name if isinstance(dt, TypeTag) else dt) or arr.dtype
        v = {'bool': bool(val), 'int': int(val), 'float': float(val), 'complex': float(val)}[dt]
        return s.fresh_buf(arr.shape, lambda idx: v, dt, 'like')

    def np_expand_dims(s, a, k):
        arr = a[0]
        axis = k.get('axis', a[1] if len(a) > 1 else None)
        if not isinstance(arr, NDArr):
            # np.expand_dims of a nested list etc.
            arr = s.to_ndarr(arr)
        n = len(arr.axes)
        if axis < 0:
            axis = n + 1 + axis
        axes = list(arr.axes)
        axes.insert(axis, ('new',))
        return NDArr(arr.buf, axes, arr.fixed)        # a VIEW of the same buffer

    def to_ndarr(s, v):
        if isinstance(v, NDArr):
            return v
        if isinstance(v, Vec) and v.kind != 'row':
            el = list(v.elems)
            return s.fresh_buf([len(el)], lambda idx: s.select_list(el, idx[0]), v.kind)
        if isinstance(v, (list, tuple)):
            return s.to_ndarr(s.asvec(v))
        raise Unsupported('to_ndarr')

    def squeeze(s, arr, axis):
        n = len(arr.axes)
        if axis is None:
            drop = [j for j, d in enumerate(arr.shape) if isinstance(d, int) and d == 1]
        else:
            ax = [axis] if isinstance(axis, int) else list(axis)
            drop = [x % n for x in ax]
        axes, fixed = [], dict(arr.fixed)
        for j, a in enumerate(arr.axes):
            if j in drop:
                if a[0] == 'ax':
                    if not (isinstance(a[4], int) and a[4] == 1):
                        if dim_eq(s, a[4], 1) is not True:
                            raise PyRaise('ValueError', note='cannot select an axis to squeeze out which has size not equal to one')
                    fixed[a[1]] = a[2]
            else:
                axes.append(a)
        return NDArr(arr.buf, axes, fixed)

    def reshape(s, arr, shape):
        shape = list(shape)
        # only the trivial reshapes used in the code base: same shape, or appending/removing unit axes
        cur = arr.shape
        if len(shape) == len(cur) and all(dim_eq(s, a, b) is True for a, b in zip(shape, cur) if not (isinstance(a, int) and a == -1)):
            return arr
        raise Unsupported('general reshape (may alias)')

    # ------------------------------------------------------------------ indexing
    def norm_index(s, arr, index):
        if not isinstance(index, tuple):
            index = (index,)
        if any(isinstance(i, (NDArr, Vec, list)) for i in index):
            raise Unsupported('advanced (mask / integer-array) indexing')
        n_explicit = sum(1 for i in index if i is not None and i is not Ellipsis)
        nfill = len(arr.axes) - n_explicit
        if nfill < 0:
            raise PyRaise('IndexError', note='too many indices for array')
        full = []
        seen_ell = False
        for i in index:
            if i is Ellipsis:
                if seen_ell:
                    raise PyRaise('IndexError')
                seen_ell = True
                full += [slice(None)] * nfill
            else:
                full.append(i)
        if not seen_ell:
            full += [slice(None)] * nfill
        return full

    def nd_getitem(s, arr, index, for_store=False):
        full = s.norm_index(arr, index)
        axes = []
        fixed = dict(arr.fixed)
        va = iter(arr.axes)
        scalar_new = {}
        for i in full:
            if i is None:
                axes.append(('new',))
                continue
            a = next(va)
            if isinstance(i, slice):
                if a[0] == 'new':
                    axes.append(a)
                    continue
                st, ln = s.norm_slice(i, a[4])
                start = s.arith('+', a[2], s.arith('*', a[3], st)) if not (isinstance(st, int) and st == 0) else a[2]
                axes.append(('ax', a[1], start, a[3], ln))
            else:
                ii = s.pyscalar(i)
                if isinstance(ii, bool) or not (isinstance(ii, int) or (isinstance(ii, Sym) and ii.kind == 'int')):
                    raise PyRaise('IndexError', note='only integers, slices, ellipsis and None are valid indices')
                if a[0] == 'ax':
                    n = a[4]
                    if isinstance(ii, int) and ii < 0:
                        ii = s.arith('+', n, ii)
                    inb = s.and_(s.cmp('>=', ii, 0), s.cmp('<', ii, n))
                    if inb is not True:
                        d = s.decide(B(inb)) if not isinstance(inb, bool) else inb
                        if d is False:
                            raise PyRaise('IndexError', note='index out of bounds')
                        if d is None:
                            # negative symbolic indices are not modelled: bounds become a side obligation
                            s.side('bounds', 'array index within bounds', B(inb))
                            s.assume(B(inb))
                    fixed[a[1]] = s.arith('+', a[2], s.arith('*', a[3], ii)) if not (a[2] == 0 and a[3] == 1) else ii
                else:
                    if not (isinstance(ii, int) and ii in (0, -1)):
                        raise PyRaise('IndexError')
        view = NDArr(arr.buf, axes, fixed)
        if not axes and not for_store:
            return view.buf.get(view.base_index(s, []))     # all axes fixed: a scalar
        return view

    def norm_slice(s, sl, n):
        if sl.step not in (None, 1):
            raise Unsupported('slice step')
        st = 0 if sl.start is None else s.pyscalar(sl.start)
        sp = n if sl.stop is None else s.pyscalar(sl.stop)
        if isinstance(st, int) and st < 0:
            st = s.arith('+', n, st)
        if isinstance(sp, int) and sp < 0:
            sp = s.arith('+', n, sp)
        # numpy clips slices to [0, n]: in-range is required here (side obligation when symbolic)
        for v, lab in ((st, 'slice start'), (sp, 'slice stop')):
            if isinstance(v, Sym):
                c = z3.And(I(v) >= 0, I(v) <= I(n))
                if s.decide(c) is not True:
                    s.side('bounds', f'{lab} within [0, n]', c)
                    s.assume(c)
            elif isinstance(n, int) and not (0 <= v <= n):
                v2 = min(max(v, 0), n)
                if lab == 'slice start':
                    st = v2
                else:
                    sp = v2
        ln = s.arith('-', sp, st)
        if isinstance(ln, Sym):
            if s.decide(I(ln) >= 0) is not True:
                s.side('bounds', 'slice stop >= start', I(ln) >= 0)
                s.assume(I(ln) >= 0)
        elif ln < 0:
            ln = 0
        return st, ln

    def nd_store(s, target, rhs, op=None):
        """write rhs (broadcast) through the view `target` into its buffer (rewrites the element function)"""
        buf = target.buf
        old = buf.get
        rs, gr = s.as_operand(rhs)
        tshape = target.shape
        if len(rs) > len(tshape):
            # leading unit axes of the rhs are dropped by numpy when they are 1
            extra = len(rs) - len(tshape)
            if not all(isinstance(d, int) and d == 1 for d in rs[:extra]):
                raise PyRaise('ValueError', note='could not broadcast input array')
            gr0 = gr
            gr = (lambda idx, gr0=gr0, extra=extra: gr0([0] * extra + list(idx)))
            rs = rs[extra:]
        shape, mt, mr = s.bshape(tshape, rs)
        for j, d in enumerate(shape):
            if mt[j] is None and not (isinstance(d, int) and d == 1):
                raise PyRaise('ValueError', note='could not broadcast input array into the target shape')
        conv = {'bool': s.asbool, 'int': s.trunc_int, 'float': s.to_float, 'complex': (lambda x: x)}[buf.dtype]
        axes, fixed = list(target.axes), dict(target.fixed)

        def get(b):
            conds = []
            vidx = []
            for k, v in fixed.items():
                conds.append(s.cmp('==', b[k], v))
            for a in axes:
                if a[0] == 'ax':
                    if a[3] != 1:
                        raise Unsupported('store through a strided view')
                    off = s.arith('-', b[a[1]], a[2]) if not (isinstance(a[2], int) and a[2] == 0) else b[a[1]]
                    vidx.append(off)
                    conds.append(s.and_(s.cmp('>=', off, 0), s.cmp('<', off, a[4])))
                else:
                    vidx.append(0)
            c = True
            for x in conds:
                c = s.and_(c, x)
            ri = [0] * len(rs)
            off_r = len(vidx) - len(rs)
            for j in range(len(rs)):
                ri[j] = 0 if (isinstance(rs[j], int) and rs[j] == 1) else vidx[off_r + j]
            new = gr(ri)
            if op:
                new = s.arith(op, old(b), new)
            new = conv(new)
            if isinstance(c, bool):
                return new if c else old(b)
            return s.ite(c, new, old(b))
        buf.get = get
        buf.version += 1

    # ------------------------------------------------------------------ numpy functions
    def bcast(s, shapes):
        """numpy broadcasting of several shapes; returns (shape, maps): maps[o][j] = operand axis of result axis j or None"""
        n = max(len(x) for x in shapes)
        shape = []
        maps = [[None] * n for _ in shapes]
        for j in range(n):
            cur = None
            for o, sh in enumerate(shapes):
                oj = j - (n - len(sh))
                if oj < 0:
                    continue
                d = sh[oj]
                if isinstance(d, int) and d == 1:
                    continue
                if cur is None:
                    cur = d
                else:
                    eq = dim_eq(s, cur, d)
                    if eq is None:
                        eq = s.branch(I(cur) == I(d))
                    if not eq:
                        raise PyRaise('ValueError', note='operands could not be broadcast together')
                maps[o][j] = oj
            shape.append(cur if cur is not None else 1)
        return shape, maps

    def mapn(s, f, ops, dtype=None):
        sg = [s.as_operand(o) for o in ops]
        shape, maps = s.bcast([x[0] for x in sg])

        def get(idx):
            vals = []
            for (sh, g), m in zip(sg, maps):
                ii = [0] * len(sh)
                for j, i in enumerate(idx):
                    if m[j] is not None:
                        ii[m[j]] = i
                vals.append(g(ii))
            return f(*vals)
        return s.fresh_buf(shape, get, dtype or s.result_dtype(*ops))

    def np_divide(s, a, k, plain):
        if 'where' not in k and 'out' not in k:
            return plain.f(a, k)
        x, y = s.asarr(a[0]), s.asarr(a[1])
        where, out = k.get('where', True), k.get('out')
        if out is None or not isinstance(out, NDArr):
            raise Unsupported('np.divide(where=) needs an array out=')
        if not out.is_whole():
            # out= is a view: the quotient (the previous contents of the view where not selected) is stored THROUGH the view
            if out.dtype in ('int', 'bool'):
                raise PyRaise('TypeError', note="Cannot cast ufunc 'divide' output to an integer array")
            prev = s.map1(lambda v: v, out, dtype=out.dtype)          # contents before the write

            def f2(p, q_, w, o):
                if isinstance(w, bool):
                    return s.cell_div(p, q_) if w else o
                d = s.fresh('gdiv', 'float', True)
                s.assume(z3.Implies(B(w), d.t * R(q_) == R(p)))
                return s.ite(w, d, o)
            res2 = s.mapn(f2, [x, y, where, prev], dtype=out.dtype)
            s.nd_store(out, res2)
            return out
        if out.dtype in ('int', 'bool'):
            # [A] numpy: true division yields a floating result, which cannot be cast into an integer / Boolean out= array
            # under the default same_kind rule (numpy.core._exceptions._UFuncOutputCastingError, a TypeError)
            raise PyRaise('TypeError', note="Cannot cast ufunc 'divide' output to an integer array")
        old_out = out.buf.get

        def f(p, q_, w, o):
            if isinstance(w, bool):
                return s.cell_div(p, q_) if w else o
            # the quotient is only evaluated where selected: guarded definition + guarded side obligation
            d = s.fresh('gdiv', 'float', True)
            s.assume(z3.Implies(B(w), d.t * R(q_) == R(p)))
            return s.ite(w, d, o)
        snap = NDArr(Buf(s, out.shape, old_out, out.dtype))      # the previous contents of out (read before the write)
        res = s.mapn(f, [x, y, where, snap], dtype=out.dtype)
        out.buf.get = res.buf.get
        out.buf.version += 1
        return out          # np.divide(..., out=arr) returns arr itself

    def np_stack(s, a, k):
        arrs = s.iter_(a[0])
        axis = k.get('axis', a[1] if len(a) > 1 else 0)
        arrs = [s.to_ndarr(x).frozen() for x in arrs]
        base = arrs[0].shape
        for x in arrs[1:]:
            if len(x.shape) != len(base) or not all(dim_eq(s, p, q_) is True for p, q_ in zip(x.shape, base)):
                raise PyRaise('ValueError', note='all input arrays must have the same shape')
        n = len(base)
        if axis < 0:
            axis = n + 1 + axis
        shape = list(base)
        shape.insert(axis, len(arrs))

        def get(idx):
            j = idx[axis]
            rest = list(idx[:axis]) + list(idx[axis + 1:])
            vals = [x.at(s, rest) for x in arrs]
            return s.select_list(vals, j)
        return s.fresh_buf(shape, get, s.result_dtype(*arrs), 'stack')

    def np_einsum(s, a, k):
        spec = a[0]
        if spec != '...l,...l->...':
            raise Unsupported(f'einsum {spec}')
        x, y = s.asarr(a[1]), s.asarr(a[2])
        sx, gx = s.as_operand(x)
        sy, gy = s.as_operand(y)
        shape, mx, my = s.bshape(sx, sy)
        L = shape[-1]
        if not isinstance(L, int):
            raise Unsupported('einsum over a symbolic component axis')

        def get(idx):
            r = 0
            for l in range(L):
                full = list(idx) + [l]
                ix = [0] * len(sx)
                iy = [0] * len(sy)
                for j, i in enumerate(full):
                    if mx[j] is not None:
                        ix[mx[j]] = i
                    if my[j] is not None:
                        iy[my[j]] = i
                r = s.arith('+', r, s.arith('*', gx(ix), gy(iy)))
            return r
        return s.fresh_buf(shape[:-1], get, s.result_dtype(x, y), 'einsum')

    def np_cross(s, a, k):
        x, y = s.asarr(a[0]), s.asarr(a[1])
        sx, gx = s.as_operand(x)
        sy, gy = s.as_operand(y)
        shape, mx, my = s.bshape(sx, sy)
        if shape[-1] != 3:
            raise PyRaise('ValueError', note='incompatible dimensions for cross product')

        def comp(idx, l, g, m, sh):
            full = list(idx[:-1]) + [l]
            ii = [0] * len(sh)
            for j, i in enumerate(full):
                if m[j] is not None:
                    ii[m[j]] = i
            return g(ii)

        def get(idx):
            c = idx[-1]
            out = []
            for l in range(3):
                l1, l2 = (l + 1) % 3, (l + 2) % 3
                out.append(s.arith('-', s.arith('*', comp(idx, l1, gx, mx, sx), comp(idx, l2, gy, my, sy)),
                                   s.arith('*', comp(idx, l2, gx, mx, sx), comp(idx, l1, gy, my, sy))))
            return s.select_list(out, c)
        return s.fresh_buf(shape, get, s.result_dtype(x, y), 'cross')

    def np_norm(s, a, k):
        arr = a[0]
        axis = k.get('axis')
        keep = k.get('keepdims', False)
        if not isinstance(arr, NDArr) or axis != -1:
            raise Unsupported('linalg.norm only along the last axis of an n-d array')
        arr = arr.frozen()
        L = arr.shape[-1]
        if not isinstance(L, int):
            raise Unsupported('norm over symbolic axis')
        key = ('norm', arr.buf.id, arr.buf.version)
        # [A] np.linalg.norm(x, axis=-1): r >= 0 and r^2 = sum x_l^2   (instantiated at every use)
        F = z3.Function(f'norm_b{arr.buf.id}v{arr.buf.version}!{next(s.counter)}', *([z3.IntSort()] * (len(arr.shape) - 1)), z3.RealSort())
        shape = arr.shape[:-1] + ([1] if keep else [])

        def get(idx):
            ii = list(idx[:-1]) if keep else list(idx)
            xs = [arr.at(s, ii + [l]) for l in range(L)]
            if all(is_conc_num(x) or isinstance(x, bool) for x in xs):
                import math
                return fractions.Fraction(math.sqrt(sum(float(x) ** 2 for x in xs)))
            r = F(*[I(i) for i in ii]) if ii else F()
            sq = z3.RealVal(0)
            for l in range(L):
                x = R(arr.at(s, ii + [l]))
                sq = sq + x * x
            s.assume(z3.And(r >= 0, r * r == sq))
            if L == 1:
                x = R(arr.at(s, ii + [0]))
                s.assume(r == z3.If(x >= 0, x, -x))
            return Sym(r, 'float', True)
        return s.fresh_buf(shape, get, 'float', 'norm')

    def axes_list(s, arr, axis):
        n = len(arr.axes)
        if axis is None:
            return list(range(n))
        if isinstance(axis, int):
            return [axis % n]
        if isinstance(axis, (tuple, list, Vec)):
            return [int(tofloat_(x)) % n for x in s.iter_(axis)]
        if isinstance(axis, Sym):
            raise Unsupported('symbolic reduction axis')
        raise Unsupported(f'axis {axis!r}')

    def reduce_(s, kind, arr, axis):
        """sum/mean over axes: ghost function SUM[arr, axes](remaining index)  ([A] np.sum / ndarray.mean contract:
        sum over the reduced axes; mean = sum / count).  Two reductions of extensionally different arrays get
        different symbols; the symbol is keyed by (buffer, version, view, axes) so that a contract can name the
        same sum the code computed."""
        ax = sorted(s.axes_list(arr, axis))
        rest = [j for j in range(len(arr.axes)) if j not in ax]
        G = s.ghost_sum(arr, tuple(ax))
        shape = [arr.shape[j] for j in rest]
        cnt = 1
        for j in ax:
            cnt = s.arith('*', cnt, arr.shape[j])

        farr = arr.frozen()

        def get(idx):
            if getattr(s, 'valuation', None) is not None and all(isinstance(d, int) for d in farr.shape):
                # concrete data (replay / cross-check / conformance): the sum itself
                tot = fractions.Fraction(0)
                for red in itertools.product(*[range(farr.shape[j]) for j in ax]):
                    full, ri, ki = [], iter(red), iter(idx)
                    for j in range(len(farr.shape)):
                        full.append(next(ri) if j in ax else next(ki))
                    x = farr.at(s, full)
                    tot += fractions.Fraction(tofloat_(x)) if not isinstance(x, fractions.Fraction) else x
                return tot / (cnt if kind == 'mean' else 1)
            v = Sym(G(*[I(i) for i in idx]) if idx else G(), 'float', True)
            if kind == 'mean':
                return s.arith('/', v, s.to_float(cnt))
            return v
        if not rest:
            return get([])
        return s.fresh_buf(shape, get, 'float', kind)

    def view_key(s, arr):
        def k(x):
            return str(z3.simplify(term(x))) if isinstance(x, Sym) else x
        return (arr.buf.id, arr.buf.version, tuple((a[0],) + tuple(k(x) for x in a[1:]) for a in arr.axes),
                tuple(sorted((kk, k(v)) for kk, v in arr.fixed.items())))

    def ghost_sum(s, arr, axes):
        key = ('sum', s.view_key(arr), axes)
        if key not in s.ghost:
            nrest = len(arr.axes) - len(axes)
            s.ghost[key] = z3.Function(f'SUM_{len(s.ghost)}', *([z3.IntSort()] * nrest), z3.RealSort())
        return s.ghost[key]

    def np_cumsum(s, a, k):
        arr = a[0]
        axis = k.get('axis', a[1] if len(a) > 1 else None)
        if not isinstance(arr, NDArr) or axis is None:
            raise Unsupported('cumsum')
        axis = s.pyscalar(axis)
        if not isinstance(axis, int):
            raise Unsupported('cumsum over a symbolic axis')
        axis %= len(arr.axes)
        key = ('prefix', s.view_key(arr), axis)
        arr = arr.frozen()
        if key not in s.ghost:
            s.ghost[key] = z3.Function(f'PRE_{len(s.ghost)}', *([z3.IntSort()] * len(arr.axes)), z3.RealSort())
        P = s.ghost[key]
        # [A] np.cumsum: out[..k..] = P(k+1) with the ghost prefix sum P(0)=0, P(j+1)=P(j)+a[j] (instantiated at use)

        def get(idx):
            if getattr(s, 'valuation', None) is not None and all(isinstance(i, int) or is_conc_num(i) for i in idx):
                tot = fractions.Fraction(0)
                for t in range(int(tofloat_(idx[axis])) + 1):
                    ii = list(idx)
                    ii[axis] = t
                    x = arr.at(s, ii)
                    tot += fractions.Fraction(tofloat_(x)) if not isinstance(x, fractions.Fraction) else x
                return tot
            up = list(idx)
            up[axis] = s.arith('+', idx[axis], 1)
            lo = list(idx)
            z0 = list(idx)
            z0[axis] = 0
            tu = P(*[I(i) for i in up])
            tl = P(*[I(i) for i in lo])
            s.assume(tu == tl + R(arr.at(s, idx)))
            s.assume(P(*[I(i) for i in z0]) == 0)
            return Sym(tu, 'float', True)
        out = s.fresh_buf(arr.shape, get, 'float', 'cumsum')
        out.ghost_prefix = (P, axis, arr)
        return out

    def concrete_mask(s, v):
        """1-d Boolean array all of whose elements are concrete -> python list of bools; else None"""
        if not isinstance(v, NDArr) or len(v.shape) != 1 or not isinstance(v.shape[0], int):
            return None
        out = []
        for j in range(v.shape[0]):
            x = v.at(s, [j])
            if isinstance(x, Sym):
                t = z3.simplify(x.t)
                if z3.is_true(t) or z3.is_false(t):
                    x = z3.is_true(t)
                else:
                    return None
            if not isinstance(x, bool):
                return None
            out.append(x)
        return out

    def np_where(s, a, k):
        """np.where(cond) with one argument, for a 1-d mask whose entries are concrete: the tuple (indices of True,)"""
        if len(a) != 1:
            raise Unsupported('np.where with three arguments')
        m = s.concrete_mask(a[0])
        if m is None:
            raise Unsupported('np.where on a mask with symbolic entries (needs rank/select reasoning)')
        return (Vec([j for j, b in enumerate(m) if b], 'int'),)

    def np_concatenate(s, a, k):
        """np.concatenate of 1-d pieces of concrete lengths (lists / vectors / 1-d arrays)"""
        parts = s.iter_(a[0])
        if all(isinstance(p, (list, tuple, Vec)) for p in parts):
            el = []
            for p in parts:
                el += list(p.elems) if isinstance(p, Vec) else list(p)
            kind = 'int' if all(isinstance(x, int) and not isinstance(x, bool) or (isinstance(x, Sym) and x.kind == 'int') for x in el) else 'float'
            return Vec(el, kind)
        arrs = [s.to_ndarr(p).frozen() for p in parts]
        if any(len(x.shape) != 1 or not isinstance(x.shape[0], int) for x in arrs):
            raise Unsupported('np.concatenate of pieces with symbolic length')
        offs, tot = [], 0
        for x in arrs:
            offs.append(tot)
            tot += x.shape[0]

        def get(idx):
            kk = idx[0]
            if isinstance(kk, int):
                for x, o in zip(arrs, offs):
                    if o <= kk < o + x.shape[0]:
                        return x.at(s, [kk - o])
                raise PyRaise('IndexError')
            r = None
            for x, o in reversed(list(zip(arrs, offs))):
                for t in reversed(range(x.shape[0])):
                    v = x.at(s, [t])
                    r = v if r is None else s.ite(s.cmp('==', kk, o + t), v, r)
            return r
        return s.fresh_buf([tot], get, s.result_dtype(*arrs) if arrs else 'float', 'concatenate')

    def np_allclose(s, a, k, plain):
        """np.allclose = every entry of np.isclose.  Arrays of concrete shape: the finite conjunction.  Symbolic shape: the
        universally quantified statement over the index box (the body must be side-effect free: plain reads and arithmetic)"""
        r = plain.f(a, k)
        if not isinstance(r, NDArr):
            return r
        shape = [s.pyscalar(d) for d in r.shape]
        if all(isinstance(d, int) for d in shape):
            tot = 1
            for d in shape:
                tot *= d
            if tot <= 256:
                import itertools
                acc = True
                for idx in itertools.product(*[range(d) for d in shape]):
                    acc = s.and_(acc, s.asbool(r.at(s, list(idx))))
                return acc
        qs = [s.fresh('q', 'int') for _ in shape]
        npc = len(s.pc)
        body = s.asbool(r.at(s, qs))
        if len(s.pc) != npc:
            raise Unsupported('np.allclose over a symbolic shape: the element test has side conditions')
        if isinstance(body, bool):
            return body
        box = z3.And(*[z3.And(q.t >= 0, q.t < I(d)) for q, d in zip(qs, shape)])
        return Sym(z3.ForAll([q.t for q in qs], z3.Implies(box, B(body))), 'bool', False)

    def mask_store(s, o, mask, rhs):
        """o[mask] = rhs for a 1-d array o and a mask with concrete entries: the k-th True position receives rhs[k];
        o[mask] = <one number> for a whole array o and a (symbolic) mask of the same shape: element-wise choice"""
        rs0, gr0 = s.as_operand(rhs)
        if len(rs0) == 0 and isinstance(mask, NDArr) and o.is_whole() and len(mask.shape) == len(o.shape) \
                and all(dim_eq(s, p, q_) is True for p, q_ in zip(mask.shape, o.shape)) and s.concrete_mask(mask) is None:
            old0 = o.buf.get
            conv0 = {'bool': s.asbool, 'int': s.trunc_int, 'float': s.to_float, 'complex': (lambda x: x)}[o.buf.dtype]
            val0 = conv0(gr0([]))
            mk = mask.frozen()
            o.buf.get = lambda b: s.ite(mk.at(s, list(b)), val0, old0(b))
            o.buf.version += 1
            return
        m = s.concrete_mask(mask)
        if m is None or not o.is_whole() or len(o.shape) != 1:
            raise Unsupported('Boolean-mask store with symbolic mask entries')
        pos = [j for j, b in enumerate(m) if b]
        rs, gr = s.as_operand(rhs)
        if len(rs) > 1 or (len(rs) == 1 and not (isinstance(rs[0], int) and rs[0] in (1, len(pos)))):
            raise PyRaise('ValueError', note='NumPy boolean array indexing assignment cannot assign the input values')
        old = o.buf.get
        conv = {'bool': s.asbool, 'int': s.trunc_int, 'float': s.to_float, 'complex': (lambda x: x)}[o.buf.dtype]
        vals = [conv(gr([kq] if (len(rs) == 1 and rs[0] != 1) else ([0] if len(rs) == 1 else []))) for kq in range(len(pos))]

        def get(b):
            kk = b[0]
            if isinstance(kk, int):
                return vals[pos.index(kk)] if kk in pos else old(b)
            r = old(b)
            for pq, v in zip(pos, vals):
                r = s.ite(s.cmp('==', kk, pq), v, r)
            return r
        o.buf.get = get
        o.buf.version += 1

    def np_gradient(s, a, k):
        """[A] np.gradient(f, dx, edge_order=e) of a 1-d array of length m >= e + 1 with uniform spacing dx:
          interior  (f[k+1] - f[k-1]) / (2 dx)
          e = 1:    (f[1] - f[0]) / dx                          and  (f[m-1] - f[m-2]) / dx
          e = 2:    (-3 f[0] + 4 f[1] - f[2]) / (2 dx)          and  (3 f[m-1] - 4 f[m-2] + f[m-3]) / (2 dx)"""
        arr = a[0]
        if not isinstance(arr, NDArr) or len(arr.shape) != 1 or len(a) != 2:
            raise Unsupported('np.gradient: only 1-d arrays with one uniform spacing')
        dx = a[1]
        e = k.get('edge_order', 1)
        if e not in (1, 2) or any(kk not in ('edge_order',) for kk in k):
            raise Unsupported('np.gradient options')
        arr = arr.frozen()
        m = arr.shape[0]
        ok = s.cmp('>=', m, e + 1)
        if ok is not True and (ok is False or s.decide(B(ok)) is not True):
            if ok is False or not s.branch(B(ok)):
                raise PyRaise('ValueError', note='Shape of array too small to calculate a numerical gradient')
        A = lambda i: arr.at(s, [i])
        sub = lambda x, y: s.arith('-', x, y)
        mul = lambda c, x: s.arith('*', c, x)
        two_dx = s.arith('*', 2, dx)

        def get(idx):
            kk = idx[0]
            last = sub(m, 1)
            if e == 1:
                first = s.cell_div(sub(A(1), A(0)), dx)
                end = s.cell_div(sub(A(last), A(sub(m, 2))), dx)
            else:
                first = s.cell_div(sub(s.arith('+', mul(-3, A(0)), mul(4, A(1))), A(2)), two_dx)
                end = s.cell_div(s.arith('+', sub(mul(3, A(last)), mul(4, A(sub(m, 2)))), A(sub(m, 3))), two_dx)
            is_first, is_last = s.cmp('==', kk, 0), s.cmp('==', kk, last)
            if is_first is True:
                return first
            if is_last is True:
                return end
            # the interior formula is only read for 0 < k < m-1 (indices k-1, k+1 in range there)
            inner = s.cell_div(sub(A(s.arith('+', kk, 1)), A(sub(kk, 1))), two_dx)
            r = inner
            if is_last is not False:
                r = s.ite(is_last, end, r)
            if is_first is not False:
                r = s.ite(is_first, first, r)
            return r
        return s.fresh_buf([m], get, 'float', 'gradient')

    def np_convolve(s, a, k):
        """[A] np.convolve(f, v, 'same') for a 1-d array f of length m >= 3 and a 3-element kernel v:
        out[k] = v[0] f[k+1] + v[1] f[k] + v[2] f[k-1] with f = 0 outside [0, m)"""
        arr, v = a[0], a[1]
        mode = a[2] if len(a) > 2 else k.get('mode', 'full')
        v = [s.pyscalar(x) for x in s.iter_(v)]
        if not isinstance(arr, NDArr) or len(arr.shape) != 1 or mode != 'same' or len(v) != 3:
            raise Unsupported('np.convolve: only (1-d array, 3-element kernel, "same")')
        arr = arr.frozen()
        m = arr.shape[0]
        if s.decide(B(s.cmp('>=', m, 3))) is not True if not isinstance(m, int) else m < 3:
            raise Unsupported('np.convolve "same" with an array shorter than the kernel')

        def get(idx):
            kk = idx[0]
            up, dn = s.arith('+', kk, 1), s.arith('-', kk, 1)
            has_up, has_dn = s.cmp('<', up, m), s.cmp('>=', dn, 0)
            # guarded reads: the neighbour is only read where it exists (in-range index otherwise)
            fu = arr.at(s, [s.ite(has_up, up, kk) if has_up is not True else up])
            fd = arr.at(s, [s.ite(has_dn, dn, kk) if has_dn is not True else dn])
            t_up = s.ite(has_up, fu, 0.0) if has_up is not True else fu
            t_dn = s.ite(has_dn, fd, 0.0) if has_dn is not True else fd
            r = s.arith('*', v[0], t_up)
            r = s.arith('+', r, s.arith('*', v[1], arr.at(s, [kk])))
            return s.arith('+', r, s.arith('*', v[2], t_dn))
        return s.fresh_buf([m], get, 'float', 'convolve')

    # ------------------------------------------------------------------ lines as mathematical functions
    def line_lambda(s, view, kind='float'):
        """a 1-d view as a z3 array value (lambda j. view[j]): lets an abstract operator be applied to a whole line;
        two applications agree when z3 proves the argument lines extensionally equal (congruence is derived)"""
        if not isinstance(view, NDArr) or len(view.shape) != 1:
            raise Unsupported('line_lambda of a non-1-d array')
        fv = view.frozen()
        j = z3.Int('j!line')        # one canonical bound name: alpha-equivalent lines become syntactically identical terms
        body = fv.at(s, [Sym(j, 'int')])
        body = B(body) if kind == 'bool' else R(body)
        return z3.Lambda([j], body)

    def np_pad(s, a, k):
        """[A] np.pad(arr, ((a0, b0), ...), mode=): a fresh array of shape n_j + a_j + b_j with
        out[i] = arr[src(i - a)] where, per axis, src(t) = t inside [0, n) and outside it
          constant: the fill value (default 0)      edge: clip(t, 0, n-1)       wrap: t mod n
          symmetric: n-1-t' / -1-t (mirror incl. the edge)   reflect: mirror excl. the edge   (both only for widths <= n / n-1)"""
        arr = a[0]
        widths = a[1] if len(a) > 1 else k.get('pad_width')
        mode = k.get('mode', a[2] if len(a) > 2 else 'constant')
        if not isinstance(arr, NDArr) or not isinstance(mode, str):
            raise Unsupported('np.pad of non-array / callable mode')
        if mode not in ('constant', 'edge', 'wrap', 'symmetric', 'reflect'):
            raise Unsupported(f'np.pad mode {mode}')
        extra = {kk for kk in k if kk not in ('mode', 'pad_width', 'constant_values')}
        if extra:
            raise Unsupported(f'np.pad keyword {sorted(extra)}')
        fill = k.get('constant_values', 0)
        if not (is_conc_num(fill) or isinstance(fill, (Sym, bool))):
            raise Unsupported('np.pad constant_values per axis')
        arr = arr.frozen()
        ws = [list(s.iter_(w)) for w in s.iter_(widths)]
        if len(ws) != len(arr.shape) or any(len(w) != 2 for w in ws):
            raise PyRaise('ValueError', note='pad_width must be one (before, after) pair per axis')
        ws = [[s.pyscalar(x) for x in w] for w in ws]
        for w in ws:
            for x in w:
                if isinstance(x, Sym):
                    if x.kind != 'int':
                        raise PyRaise('TypeError', note='pad_width must be of integral type')
                    if s.decide(I(x) >= 0) is not True:
                        if not s.branch(I(x) >= 0):
                            raise PyRaise('ValueError', note="index can't contain negative values")
                elif isinstance(x, bool) or not isinstance(x, int):
                    raise PyRaise('TypeError', note='pad_width must be of integral type')
                elif x < 0:
                    raise PyRaise('ValueError', note="index can't contain negative values")
        shape = [s.arith('+', s.arith('+', n, w[0]), w[1]) for n, w in zip(arr.shape, ws)]
        if mode in ('symmetric', 'reflect'):
            for n, w in zip(arr.shape, ws):
                lim = n if mode == 'symmetric' else s.arith('-', n, 1)
                for x in w:
                    c = s.cmp('<=', x, lim)
                    if c is not True and (c is False or s.decide(B(c)) is not True):
                        raise Unsupported(f'np.pad mode {mode} with a width larger than the array (repeated reflection)')
        conv = {'bool': s.asbool, 'int': s.trunc_int, 'float': s.to_float, 'complex': (lambda x: x)}[arr.dtype]

        def get(idx):
            src, inside = [], True
            for i, n, w in zip(idx, arr.shape, ws):
                t = s.arith('-', i, w[0]) if not (isinstance(w[0], int) and w[0] == 0) else i
                nopad = all(isinstance(x, int) and x == 0 for x in w)
                if nopad:
                    src.append(t)
                    continue
                lo_ok, hi_ok = s.cmp('>=', t, 0), s.cmp('<', t, n)
                ok = s.and_(lo_ok, hi_ok)
                if mode == 'constant':
                    inside = s.and_(inside, ok)
                    # any in-range index serves where the fill value is used (never read there)
                    src.append(s.ite(ok, t, 0) if ok is not True else t)
                elif mode == 'edge':
                    src.append(s.ite(lo_ok, s.ite(hi_ok, t, s.arith('-', n, 1)), 0))
                elif mode == 'wrap':
                    src.append(s.arith('%', t, n) if not (isinstance(t, int) and isinstance(n, int)) else t % n)
                elif mode == 'symmetric':
                    src.append(s.ite(lo_ok, s.ite(hi_ok, t, s.arith('-', s.arith('-', s.arith('*', 2, n), 1), t)), s.arith('-', s.neg(t), 1)))
                else:
                    src.append(s.ite(lo_ok, s.ite(hi_ok, t, s.arith('-', s.arith('-', s.arith('*', 2, n), 2), t)), s.neg(t)))
            v = arr.at(s, src)
            if mode == 'constant' and inside is not True:
                return s.ite(inside, v, conv(fill))
            return v
        return s.fresh_buf(shape, get, arr.dtype, 'pad')

    def np_rot90(s, a, k):
        arr = a[0]
        kk = k.get('k', a[1] if len(a) > 1 else 1)
        axes = k.get('axes', a[2] if len(a) > 2 else (0, 1))
        if not isinstance(arr, NDArr):
            raise Unsupported('rot90 of non-array')
        a1, a2 = [s.pyscalar(x) for x in s.iter_(axes)]
        if not isinstance(a1, int) or not isinstance(a2, int):
            raise Unsupported('rot90 with symbolic axes')
        arr = arr.frozen()
        n1, n2 = arr.shape[a1], arr.shape[a2]
        # [A] np.rot90(m, k, axes=(a1,a2)):  out[.., i', .., j', ..] = m[.., src_i, .., src_j, ..]
        #   k%4==0: (i', j')          k%4==1: (j', n2-1-i')      k%4==2: (n1-1-i', n2-1-j')     k%4==3: (n1-1-j', i')
        km = kk % 4 if isinstance(kk, int) else Sym(I(kk) % 4, 'int')
        odd = (km % 2 == 1) if isinstance(km, int) else None
        if odd is None:
            odd = s.branch((I(kk) % 2) == 1)
        shape = list(arr.shape)
        if odd:
            shape[a1], shape[a2] = n2, n1

        def get(idx):
            ip, jp = idx[a1], idx[a2]
            cands = [(ip, jp), (jp, s.arith('-', s.arith('-', n2, 1), ip)),
                     (s.arith('-', s.arith('-', n1, 1), ip), s.arith('-', s.arith('-', n2, 1), jp)),
                     (s.arith('-', s.arith('-', n1, 1), jp), ip)]
            if isinstance(km, int):
                si, sj = cands[km]
                src = list(idx)
                src[a1], src[a2] = si, sj
                return arr.at(s, src)
            vals = []
            for m in range(4):
                if (m % 2 == 1) != odd:
                    vals.append(None)
                    continue
                src = list(idx)
                src[a1], src[a2] = cands[m]
                vals.append(arr.at(s, src))
            ms = [m for m in range(4) if vals[m] is not None]
            return s.ite(s.cmp('==', km, ms[0]), vals[ms[0]], vals[ms[1]])
        return s.fresh_buf(shape, get, arr.dtype, 'rot90')


def tofloat_(v):
    if isinstance(v, Sym):
        t = z3.simplify(v.t)
        if z3.is_int_value(t):
            return t.as_long()
        f = t.as_fraction()
        return float(fractions.Fraction(f.numerator, f.denominator))
    return v
