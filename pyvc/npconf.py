"""Conformance test of the n-d array model (pyvc/ndarr.py) against the installed NumPy.

Every numpy entry point that the engine models with a *definition* (indexing views and stores through them, np.full,
expand_dims, squeeze, stack, einsum, cross, cumsum, rot90, pad, divide(where=, out=), broadcasting ufuncs, ...) is an
assumption [A] of the proofs.  Here the model is executed on small concrete arrays and compared element by element
with what NumPy returns for the same Python expression.  A mismatch is a CHECKER ERROR (exit 3), never a violation.
Run on every check (about a second)."""
import itertools, fractions, random
import numpy as np
import z3
from .core import *
from .interp import Source
from .ndarr import NDInterp, NDArr

_EXPRS = [
    # (expression over names a, b, v ; shapes of a, b ; comment)
    ('a[1:3, ..., 0]', (4, 3, 2), None),
    ('a[..., 1, np.newaxis]', (3, 2, 3), None),
    ('a[:, -1]', (3, 4), None),
    ('a[-2:, :2]', (4, 3), None),
    ('np.expand_dims(a, -1)[..., 0]', (3, 2), None),
    ('np.squeeze(np.expand_dims(a, 1), axis=1)', (3, 2), None),
    ('np.full((3, 2, 2), v)', (2,), None),
    ('np.full((3, 2), 1.5)', (2,), None),
    ('np.zeros_like(a) + 1', (2, 3), None),
    ('a + b', (3, 2, 2), (2,)),
    ('a * b', (3, 2, 1), (3, 2, 3)),
    ('a - b[..., np.newaxis]', (3, 2, 2), (3, 2)),
    ('-a', (3, 2), None),
    ('abs(a)', (3, 2), None),
    ('np.stack([a[..., 0], a[..., 1], b], axis=-1)', (3, 2, 2), (3, 2)),
    ('np.einsum("...l,...l->...", a, b)', (3, 2, 3), (3, 2, 3)),
    ('np.einsum("...l,...l->...", a, b)', (3, 2, 3), (3,)),
    ('np.cross(a, b)', (2, 2, 3), (2, 2, 3)),
    ('np.cross(a, b)', (2, 2, 3), (3,)),
    ('np.cumsum(a, axis=1)', (2, 4, 2), None),
    ('np.cumsum(a, axis=0)[:-1]', (4, 2), None),
    ('np.sum(a, axis=(0, 1))', (2, 3, 2), None),
    ('a.mean(axis=1)', (2, 3, 2), None),
    ('np.linalg.norm(a, axis=-1, keepdims=True)', (2, 2, 3), None),
    ('np.linalg.norm(a, axis=-1)', (3, 1), None),
    ('np.divide(a, b, out=np.zeros_like(a), where=b != 0.0)', (2, 3, 2), (2, 3, 1)),
    ('a / 2', (2, 3), None),
    ('a.copy()', (2, 3), None),
    ('np.array(a[..., 0], dtype=bool)', (2, 3, 1), None),
    ('np.logical_and(a[..., 0] > 0, b > 0)', (3, 2, 1), (3, 2)),
    ('~(a > 0)', (3, 2), None),
    # closeness predicates with their default tolerances (rtol 1e-5 relative to the SECOND argument, atol 1e-8)
    ('np.isclose(a, b)', (3, 2), (3, 2)),
    ('np.isclose(a * 1e-9, 0)', (3, 2), None),
    ('np.isclose(a + b * 1e-6, a, atol=0)', (3, 2), (3, 2)),
    ('np.array([np.allclose(a * 1e-9, 0), np.allclose(a, 0), np.allclose(a + b * 1e-7, a), np.allclose(a, a[0], atol=0), np.allclose(a * 0 + 3, 3 + 2e-5)]) * 1.0', (3, 2), (3, 2)),
    # integer-typed arrays: true division gives floats, sums stay exact, products with floats are floats
    ('a.astype(int) / 2', (3, 2), None),
    ('a.astype(int) / (b.astype(int)[1] * 2 + 1)', (3, 2), (3,)),
    ('np.sum(a.astype(int), axis=0) * 0.5', (3, 2), None),
    ('np.cumsum(a.astype(int), axis=0)[:-1] / 4', (4, 2), None),
    ('a.astype(int) * b', (3, 2), (2,)),
    ('np.zeros_like(a.astype(int), dtype=np.result_type(a.astype(int).dtype, np.float32)) + 0.5', (3, 2), None),
]
for _k in (-5, -2, -1, 0, 1, 2, 3, 4, 7):
    for _ax in ((0, 1), (1, 0), (0, 2), (2, 1)):
        _EXPRS.append((f'np.rot90(a, k={_k}, axes={_ax})', (2, 3, 4, 2), None))
for _mode in ('constant', 'edge', 'wrap', 'symmetric', 'reflect'):
    for _w in ('((0, 0), (1, 1), (0, 0))', '((2, 0), (0, 3), (0, 0))', '((1, 2), (2, 1), (0, 0))', '((0, 0), (0, 0), (0, 0))'):
        _EXPRS.append((f'np.pad(a, {_w}, mode="{_mode}")', (3, 4, 2), None))
for _m in (3, 4, 7):
    _EXPRS.append(('np.gradient(a, 0.5, edge_order=2)', (_m,), None))
    _EXPRS.append(('np.convolve(a, [1, -2, 1], "same")', (_m,), None))
_EXPRS.append(('np.gradient(a, 0.25, edge_order=1)', (2,), None))
_EXPRS.append(('np.gradient(a, 2.0, edge_order=1)', (5,), None))
_EXPRS.append(('np.pad(a, ((7, 5), (0, 0)), mode="wrap")', (3, 2), None))
_EXPRS.append(('np.pad(a > 0, ((1, 1), (2, 0)), mode="constant")', (3, 2), None))

_STORES = [
    ('t = np.zeros_like(a)\nm = b != b[1]\nt[m] = np.concatenate([a[0:1], a[2:5]])\nr = t', (5,), (5,)),
    ('idx = np.where(np.invert(b != b[1]))[0]\nr = np.concatenate(([-1], idx, [5])) * 1.0', (5,), (5,)),
    # (statements executed on a copy of a, b ; result name)
    ('t = a.copy()\nt[1:, ..., 0] = b\nr = t', (3, 2, 2), (2, 2)),
    ('t = a.copy()\nt[..., 1] += b\nr = t', (3, 2, 2), (3, 2)),
    ('t = a / 2\nt[1:] += np.cumsum(a, axis=0)[:-1]\nr = t', (4, 2), None),
    ('t = a.copy()\nw = t[..., 0]\nw[0] = 7.0\nr = t', (3, 2, 2), None),
    ('t = a.copy()\nt *= b\nr = t', (3, 2, 2), (3, 2, 1)),
    ('t = a * 1e-8\nt[np.isclose(t, 0)] = 0\nr = t * 1e8', (3, 2, 2), None),
    ('t = a.copy()\nt[a > b] = 7.5\nr = t', (3, 2), (3, 2)),
    # np.asarray does not copy an array of the requested type (a store through the result is seen in the argument) ...
    ('t = a.copy()\nw = np.asarray(t, dtype=np.float64)\nw[0] = 7.0\nr = t', (3, 2), None),
    ('t = a.copy()\nw = np.asarray(np.expand_dims(t, axis=-1), dtype=np.float64)\nnp.divide(w, 2.0, out=w)\nr = t', (3, 2), None),
    # ... np.array and a converting asarray do
    ('t = a.copy()\nw = np.array(t, dtype=np.float64)\nw[0] = 7.0\nr = t', (3, 2), None),
    ('t = a.astype(int)\nw = np.asarray(t, dtype=np.float64)\nw[0] = 7.0\nr = t', (3, 2), None),
    # stores into integer arrays truncate towards zero
    ('t = a.astype(int)\nt[0] = b[0]\nr = t', (3, 2), (3, 2)),
    ('t = (a.astype(int) / 2)\nt[1:] += np.cumsum(a.astype(int), axis=0)[:-1]\nr = t', (4, 2), None),
]


def _mk(shape, rnd):
    return np.array([rnd.randint(-9, 9) / rnd.choice([1, 2, 4]) for _ in range(int(np.prod(shape)))], dtype=float).reshape(shape)


def run(seed=0):
    """returns a list of mismatch descriptions (empty = the model conforms on every probe)"""
    import ast
    rnd = random.Random(1234 + seed)
    bad = []
    src = Source()
    n = 0
    for kind, probes in (('expr', _EXPRS), ('stmt', _STORES)):
        for text, sa, sb in probes:
            a = _mk(sa, rnd)
            b = _mk(sb, rnd) if sb else None
            v = (1.5, -2.0)
            n += 1
            try:
                E = NDInterp(src)
                E.inputs, E.valuation, E.pc = {}, {}, []
                from .interp import Env
                env = Env(None)
                env.vars.update(E.globals)
                env.vars['a'] = E.data_array(a.copy(), 'float', 'a')
                if b is not None:
                    env.vars['b'] = E.data_array(b.copy(), 'float', 'b')
                env.vars['v'] = tuple(fractions.Fraction(x) for x in v)

                def body():
                    if kind == 'expr':
                        return E.ev(ast.parse(text, mode='eval').body, env)
                    for st in ast.parse(text).body:
                        E.exec(st, env)
                    return env.vars['r']
                paths = E.explore(body)
                if len(paths) != 1 or paths[0].outcome[0] != 'return':
                    bad.append(f'{text}: model forked / raised: {[p.outcome[:2] for p in paths]}')
                    continue
                got = paths[0].outcome[1]
                if isinstance(got, Vec):
                    got = np.array([float(x) if not isinstance(x, Sym) else float(z3.simplify(x.t).as_fraction()) for x in got.elems])
                got = got.to_numpy(E) if isinstance(got, NDArr) else np.array(got)
                ns = {'np': np, 'a': a.copy(), 'b': None if b is None else b.copy(), 'v': v}
                if kind == 'expr':
                    want = eval(text, ns)
                else:
                    exec(text, ns)
                    want = ns['r']
                want = np.asarray(want)
                if got.shape != want.shape or not np.allclose(got.astype(float), want.astype(float), rtol=1e-12, atol=1e-12):
                    bad.append(f'{text}: model {got.tolist()} vs numpy {want.tolist()}')
                elif (want.dtype == bool) != (got.dtype == bool):
                    bad.append(f'{text}: dtype class differs: model {got.dtype} vs numpy {want.dtype}')
                elif isinstance(paths[0].outcome[1], NDArr) and {'b': 'bool', 'i': 'int', 'u': 'int', 'f': 'float', 'c': 'complex'}[want.dtype.kind] != paths[0].outcome[1].dtype:
                    bad.append(f'{text}: dtype kind differs: model {paths[0].outcome[1].dtype} vs numpy {want.dtype}')
            except Unsupported as e:
                bad.append(f'{text}: model does not support its own probe: {e}')
            except Exception as e:
                bad.append(f'{text}: conformance harness error {e!r}')
    return bad, n


if __name__ == '__main__':
    bad, n = run()
    print(n, 'probes;', len(bad), 'mismatches')
    for b in bad:
        print('  ', b[:300])
