"""pyvc runner: generates the obligations of every contract x configuration from the current
working tree of /repo, discharges them (z3 one-shot; cvc5 / z3-4.8 CLI as second opinions),
replays counter-models on the real code, runs negative controls and the engine cross-check."""
import zlib, os, sys, time, json, shutil, subprocess, tempfile, fractions, traceback, multiprocessing as mp, re, random
import z3
from .core import *
from .interp import Interp, Source, DROPPED
from .contracts import Contract, State, conj, disj
from .states import snapshot, same_value, Realizer, tofloat
from . import teval as TE

TIMEOUT_MS = {'quick': int(os.environ.get('PYVC_TIMEOUT_MS', 30000)), 'thorough': int(os.environ.get('PYVC_TIMEOUT_MS', 120000))}
HEAVY_BUDGET_S = {'quick': 240, 'thorough': 1200}
CONTROL_BUDGET_S = 45
BASE_ASSUMPTIONS = [
    "A1 float/float64 arithmetic treated as mathematical reals (rounding is covered only by the bounded run-time tier)",
    "A2 Python/NumPy integers treated as unbounded mathematical integers (no int64 overflow)",
    "A4 single-threaded, no re-entrancy",
    "A5 dimension / unit / component names are one concrete set of pairwise distinct strings per configuration; results are taken to hold for any distinct names that do not collide with attribute names",
    "A6 only modelled exception sources raise (explicit raise statements, sequence index/unpack/dict lookup, callee contracts)",
    "A7 CPython evaluation order and semantics for the supported statement/expression subset (pyvc/interp.py); validated per run by the concrete-mode cross-check against CPython",
    "solver soundness (z3 5.1; cvc5 1.0.3 and z3 4.8.12 as second opinions in the thorough tier)",
    "the pyvc engine itself (mitigated on every run by negative controls that must fail and by the concrete cross-check)",
]

_SRC_CACHE = {}


def get_source(overrides_key=None, overrides=None):
    k = overrides_key
    if k not in _SRC_CACHE:
        _SRC_CACHE[k] = Source(overrides=overrides)
    return _SRC_CACHE[k]


def new_engine(mod, src):
    E = Interp(src)
    E.inputs = {}
    E.valuation = None
    if hasattr(mod, 'setup_engine'):
        E = mod.setup_engine(E) or E
    for C in mod.contracts_for_use():
        E.contracts[C.qual] = C
    return E


# ---------------------------------------------------------------------------------- obligations
def gen_obligations(E, C, cfg, prop):
    """symbolically execute the real body of C.func from C.pre_state; one obligation per path x clause"""
    fn, cls, modname = E.src.find(C.func)
    is_setter = C.func.endswith('.setter')
    is_prop = cls is not None and fn.name in E.classes[cls]['props'] and not is_setter
    cfgs = cfg_str(cfg)

    def thunk():
        E.inputs = {}
        st = C.pre_state(E, cfg)
        for a in getattr(st, 'assume', []):
            E.assume(a)
        st.old = {'self': snapshot(st.self) if st.self is not None else None,
                  'args': [snapshot(a) for a in st.args], 'kw': {k: snapshot(v) for k, v in st.kw.items()}}
        frame = [(nm, o, snapshot(o)) for nm, o in C.frame(E, st)]
        frame_r = [(nm, o, snapshot(o)) for nm, o in C.frame_on_raise(E, st)]
        E.call_depth = 0
        try:
            res = E.call_function(fn, ([st.self] if cls else []) + list(st.args), dict(st.kw), cls=cls, qual=('#top', C.func))
            out = ('return', res)
        except PyRaise as e:
            out = ('raise', e.exc, e.lineno, e.note)
        obs = []
        unspec = C.unspecified(E, st) if C.unspecified is not None else None
        if out[0] == 'return':
            for label, phi in C.post(E, st, out[1]):
                obs.append(('post', label, phi, fn.lineno))
            for exc, cond in C.raises(E, st):
                obs.append(('raises', f'returns normally => not [{exc} condition]', negate(cond), fn.lineno))
            for nm, o, sn in frame:
                if nm not in getattr(C, 'modifies', ()):
                    obs.append(('frame', f'{nm} unchanged', same_value(E, o, sn), fn.lineno))
        else:
            conds = [c for exc, c in C.raises(E, st) if exc == out[1]]
            obs.append(('raises', f'{out[1]} raised (line {out[2]}) => its stated condition holds', disj(conds), out[2]))
            for nm, o, sn in frame_r:
                obs.append(('frame', f'{nm} unchanged on the {out[1]} path', same_value(E, o, sn), out[2]))
        if unspec is not None:
            obs = [(k, l, implies(negate(unspec), g), ln) for k, l, g, ln in obs]
        return {'out': out, 'obs': obs, 'inputs': dict(E.inputs), 'st': st}

    paths = E.explore(thunk)
    obligations = []
    label_reached = {}
    for pi, p in enumerate(paths):
        r = p.outcome[1]
        for kind, label, goal, ln in r['obs']:
            key = f"{prop}/{C.name}/{kind}:{label}"
            label_reached[(kind, label)] = True
            obligations.append({'key': key, 'id': f"{key}[{cfgs}]#p{pi}@L{ln}", 'config': cfgs, 'kind': kind, 'text': label,
                                'pc': p.pc, 'goal': goal, 'inputs': r['inputs'], 'path': pi, 'outcome': r['out'][0] if r['out'][0] == 'return' else r['out'][1]})
        for kind, label, pc, goal, ln in p.side:
            key = f"{prop}/{C.name}/{kind}:{label}"
            obligations.append({'key': key, 'id': f"{key}[{cfgs}]#p{pi}", 'config': cfgs, 'kind': kind, 'text': label,
                                'pc': pc, 'goal': goal, 'inputs': r['inputs'], 'path': pi, 'outcome': 'side'})
    return obligations, len(paths)


def negate(c):
    if isinstance(c, bool):
        return not c
    return z3.Not(c)


def implies(a, b):
    if isinstance(a, bool):
        return b if a else True
    if isinstance(b, bool):
        return True if b else z3.Not(a)
    return z3.Implies(a, b)


def cfg_str(cfg):
    return ','.join(f"{k}={cfg[k]}" for k in sorted(cfg))


# ---------------------------------------------------------------------------------- solving
def refute_by_sampling(pc, g, inputs, tries=10, seed=0):
    """counter-model search under ADDED hypotheses: the geometry inputs (corners, cell sizes, cell counts) are pinned to
    sampled small values, which turns the nonlinear path condition into an easy one.  A model found this way is a
    model of pc and not(goal) - sound as a refutation; finding none says nothing."""
    geo = [(nm, kd) for nm, kd in (inputs or {}).items() if isinstance(kd, str) and kd in ('float', 'int')
           and re.search(r'(pmin|cell|edge|_n\d|^n\d|_tf$)', nm)]
    if not geo:
        return None
    rnd = random.Random(4242 + seed)
    for t in range(tries):
        so = z3.Solver()
        so.set('rlimit', int(2500 * RLIMIT_PER_MS))
        so.set('timeout', 25000)
        so.add(*pc)
        so.add(z3.Not(g))
        for nm, kd in geo:
            if kd == 'int':
                so.add(z3.Int(nm) == rnd.choice([1, 2, 3, 4, 5]))
            elif 'cell' in nm or 'edge' in nm:
                so.add(z3.Real(nm) == z3.RealVal(rnd.choice(['1', '2', '1/2', '3', '5/4'])))
            elif nm.endswith('_tf'):
                so.add(z3.Real(nm) == 0)
            else:
                so.add(z3.Real(nm) == z3.RealVal(rnd.choice(['0', '-1', '1', '-3', '1/2', '2'])))
        if so.check() == z3.sat:
            return so
    return None


def refute_with_line_abstraction(pc, g, inputs, timeout_ms=6000):
    """counter-model search for formulas that apply uninterpreted operators to lines (z3 lambdas).

    Every syntactically distinct lambda becomes a constant of an uninterpreted sort and every operator taking array
    arguments a function over those constants (pure EUF + arithmetic: models are found at once).  To make such a model
    a model of the ORIGINAL formula, all distinct constants are forced to be pairwise different AND for every pair a
    witness position is demanded at which the two lambda bodies really differ; then the operator can be interpreted on
    the (finitely many, pairwise different) real lines exactly as the abstract model interprets it on the constants.
    Returns a solver holding the model, or None (no conclusion)."""
    lams, cache, ops = {}, {}, {}
    is_arr = lambda srt: srt.kind() == z3.Z3_ARRAY_SORT
    fail = []

    def sort_of(a):
        return z3.DeclareSort(f'Line_{a.range()}'.replace(' ', '_')) if is_arr(a) else a

    def rw(t):
        k = t.get_id()
        if k in cache:
            return cache[k]
        if z3.is_quantifier(t):
            if not t.is_lambda() or t.num_vars() != 1:
                fail.append('quantifier')
                r = t
            else:
                key = t.sexpr()
                if key not in lams:
                    lams[key] = (z3.Const(f'line!{len(lams)}', sort_of(t.sort())), t)
                r = lams[key][0]
        elif z3.is_app(t):
            ch = [rw(c) for c in t.children()]
            d = t.decl()
            if d.kind() == z3.Z3_OP_UNINTERPRETED and any(is_arr(d.domain(i)) for i in range(d.arity())):
                if d.name() not in ops:
                    ops[d.name()] = z3.Function(d.name() + '!abs', *[sort_of(d.domain(i)) for i in range(d.arity())], d.range())
                r = ops[d.name()](*ch)
            elif any(is_arr(c.sort()) for c in t.children()):
                fail.append('array-valued subterm outside an operator application')   # e.g. Select / Store / = on lines
                r = t
            else:
                r = d(*ch) if ch else t
        else:
            r = t
        cache[k] = r
        return r
    try:
        apc = [rw(c) for c in pc]
        ag = rw(g)
    except z3.Z3Exception:
        return None
    if fail or not lams:
        return None
    so = z3.Solver()
    so.set('rlimit', int(timeout_ms * RLIMIT_PER_MS))
    so.set('timeout', timeout_ms * 10)
    so.add(*apc)
    so.add(z3.Not(ag))
    items = list(lams.values())
    for i in range(len(items)):
        for j in range(i + 1, len(items)):
            (c1, l1), (c2, l2) = items[i], items[j]
            if not c1.sort().eq(c2.sort()):
                continue
            w = z3.Int(f'witness!{i}!{j}')
            so.add(c1 != c2, w >= 0)
            so.add(z3.simplify(z3.Select(l1, w)) != z3.simplify(z3.Select(l2, w)))
    if so.check() == z3.sat:
        return so
    # the same under sampled geometry (see refute_by_sampling)
    geo = [(nm, kd) for nm, kd in (inputs or {}).items() if isinstance(kd, str) and kd in ('float', 'int') and re.search(r'(pmin|cell|edge|_n\d|^n\d|_tf$)', nm)]
    rnd = random.Random(99)
    for _ in range(4 if geo else 0):
        so.push()
        for nm, kd in geo:
            if kd == 'int':
                so.add(z3.Int(nm) == rnd.choice([2, 3, 4, 5]))
            elif 'cell' in nm or 'edge' in nm:
                so.add(z3.Real(nm) == z3.RealVal(rnd.choice(['1', '2', '1/2', '3', '5/4'])))
            elif nm.endswith('_tf'):
                so.add(z3.Real(nm) == 0)
            else:
                so.add(z3.Real(nm) == z3.RealVal(rnd.choice(['0', '-1', '1', '-3', '1/2', '2'])))
        if so.check() == z3.sat:
            return so
        so.pop()
    return None


def prove(pc, goal, timeout_ms, cross=False, light=False, inputs=None):
    """pc => goal ?  returns (status, backend, seconds, model|None, reason)"""
    t0 = time.time()
    if isinstance(goal, bool) and goal:
        return 'discharged', 'eval', 0.0, None, ''
    g = z3.BoolVal(False) if isinstance(goal, bool) else goal
    # non-linear goals: nlsat spends about 8x more wall time per resource unit than the linear engines the budget was calibrated
    # on, and it ignores the wall-clock limit - so its in-process budgets are scaled down (a 30 s nominal attempt would otherwise run
    # for minutes, and for an hour on a loaded machine); the fresh-process stages (hard kill) carry these obligations
    nl = _nonlinear(g)
    RL = RLIMIT_PER_MS // 8 if nl else RLIMIT_PER_MS
    if nl:
        timeout_ms = min(timeout_ms, 30000)      # also in the thorough tier: longer nlsat runs in process were never seen to help

    def attempt(ms, wall=None):
        so_ = z3.Solver()
        so_.set('rlimit', int(ms * RL))      # deterministic budget (see core.oneshot); wall clock = safety net
        so_.set('timeout', int(wall or ms * 10))
        so_.add(*pc)
        so_.add(z3.Not(g))
        return so_, so_.check()
    # Stages.  Only the LAST ones decide 'undecided', and those have deterministic (rlimit) budgets; the early ones are short cuts
    # to 'discharged' / 'failed' and may use wall-clock limits (a time-out there only moves on to the next stage).
    #  1. a short attempt (valid obligations discharge in well under a second);
    #  2. relevant hypotheses only (cone of influence of the goal's symbols): proving the goal from a SUBSET of the path condition is
    #     sound, a 'sat' answer of a slice means nothing and is ignored.  The unrelated non-linear facts of the state (cell * n =
    #     edges, ...) are what makes the non-linear clauses of C15 / C13 unstable (0.3 s ... minutes for one and the same text);
    #  3. the 4 s attempt, the fresh process, the cheap counter-model searches, the full budget, retry, external solvers.
    cli_slice_done = False
    if nl:
        # 0a. the goal ALONE (no hypotheses at all - the smallest subset of the path condition): purely algebraic goals, e.g. a
        #     conclusion stated together with the equations it follows from (proof by cut), are valid as they stand
        so_ = z3.Solver()
        so_.set('rlimit', int(2000 * RL))
        so_.set('timeout', 3000)
        so_.add(z3.Not(g))
        if so_.check() == z3.unsat:
            return 'discharged', 'z3-5.1(goal alone)', time.time() - t0, None, ''
        # 0. a non-linear goal goes to a FRESH solver process first, on its relevant hypotheses: nlsat inside the long-lived
        #    exploration process was seen to ignore its time limits (one text: 0.3 s fresh, 60 s in process)
        sl0 = next(iter(relevant_slices(pc, g, 1)), (1, None))[1]
        for hyp, tag, wall in ((sl0, 'fresh process, relevant hypotheses, depth 1', 8), (pc, 'fresh process', 8)):
            if hyp is None:
                continue
            cli_slice_done = True
            so_ = z3.Solver()
            so_.add(*hyp)
            so_.add(z3.Not(g))
            if run_z3_cli(so_.to_smt2(), 5, wall_s=wall) == 'unsat':      # short wall-clock caps: this stage is a short cut only
                return 'discharged', f'z3-5.1({tag})', time.time() - t0, None, ''
    so, r = attempt(min(1000, timeout_ms), wall=1500)
    fresh_backend = None
    if r == z3.unknown:
        for depth, sl in relevant_slices(pc, g, 2):
            so_ = z3.Solver()
            so_.set('rlimit', int(2000 * RL))
            so_.set('timeout', 3000)
            so_.add(*sl)
            so_.add(z3.Not(g))
            if so_.check() == z3.unsat:
                return 'discharged', f'z3-5.1(relevant hypotheses, depth {depth})', time.time() - t0, None, ''
            if depth == 1 and not cli_slice_done and run_z3_cli(so_.to_smt2(), 5) == 'unsat':
                return 'discharged', f'z3-5.1(fresh process, relevant hypotheses, depth {depth})', time.time() - t0, None, ''
        # the cheap counter-model search for line operators comes BEFORE the long attempts (a refutable obligation - a negative
        # control, a real regression - must not cost minutes); it returns at once where no line operator occurs
        sr = refute_with_line_abstraction(pc, g, inputs)
        if sr is not None:
            return 'failed', 'z3-5.1(line abstraction with witnesses)', time.time() - t0, sr.model(), ''
        if nl:
            # non-linear goal: NO long in-process attempt (nlsat ignores its limits: a 15 s check was seen to run for 15 minutes
            # with two workers stuck); the depth-2 slice and the whole query go to fresh processes that are killed on time
            sl2 = [sl for depth, sl in relevant_slices(pc, g, 2) if depth == 2]
            for sl in sl2:
                so_ = z3.Solver()
                so_.add(*sl)
                so_.add(z3.Not(g))
                if run_z3_cli(so_.to_smt2(), 10, wall_s=15) == 'unsat':
                    return 'discharged', 'z3-5.1(fresh process, relevant hypotheses, depth 2)', time.time() - t0, None, ''
        elif timeout_ms > 1000:
            so, r = attempt(min(4000, timeout_ms))
    if r == z3.unknown:
        # the same query in a FRESH solver process (z3 5.1 command line on the exported SMT-LIB text): the in-process
        # context has accumulated the terms of the whole exploration, and queries that take 0.2 s in a clean context were
        # seen to need minutes (or time out) there
        res = run_z3_cli(so.to_smt2(), max(5, timeout_ms // 1000), wall_s=(40 if nl else None))
        if res == 'unsat':
            return 'discharged', 'z3-5.1(fresh process)', time.time() - t0, None, ''
    if r == z3.unknown:
        sr = refute_by_sampling(pc, g, inputs)
        if sr is not None:
            return 'failed', 'z3-5.1(sampled geometry)', time.time() - t0, sr.model(), ''
        if timeout_ms > 4000 and not nl:
            so, r = attempt(timeout_ms)
    dt = time.time() - t0
    if r == z3.unsat:
        status, backend, model, reason = 'discharged', 'z3-5.1', None, ''
    elif r == z3.sat:
        status, backend, model, reason = 'failed', 'z3-5.1', so.model(), ''
    else:
        status, backend, model, reason = 'undecided', 'z3-5.1', None, so.reason_unknown()
        if light:
            return status, backend, dt, model, reason
        if nl:
            # second opinions from the external solvers only (hard kill); no in-process retry for non-linear goals
            others = run_external(so.to_smt2(), 20)
            for name, res in others.items():
                if res == 'unsat':
                    return 'discharged', name, time.time() - t0, None, ''
            return status, backend, time.time() - t0, model, reason
        # a time-out under load must not flip a verdict: one more one-shot attempt with a 4x budget and another seed
        so2 = z3.Solver()
        so2.set('rlimit', int(timeout_ms * 4 * RL))
        so2.set('timeout', timeout_ms * 40)
        so2.set('random_seed', 7)
        so2.add(*pc)
        so2.add(z3.Not(g))
        r2 = so2.check()
        if r2 == z3.unsat:
            status, backend, reason, so = 'discharged', 'z3-5.1(retry)', '', so2
        elif r2 == z3.sat:
            status, backend, model, reason, so = 'failed', 'z3-5.1(retry)', so2.model(), '', so2
    if status == 'undecided' or cross:
        smt = so.to_smt2()
        # second opinions: a generous limit when z3 left the obligation open, a short one when they only cross-check a verdict
        others = run_external(smt, max(10, timeout_ms // 1000) if status == 'undecided' else 8)
        if status == 'undecided':
            for name, res in others.items():
                if res == 'unsat':
                    status, backend, reason = 'discharged', name, ''
                    break
        elif cross:
            for name, res in others.items():
                if (res == 'unsat' and status == 'failed') or (res == 'sat' and status == 'discharged'):
                    return 'error', name, time.time() - t0, None, f'back ends disagree: z3-5.1 says {r}, {name} says {res}'
            backend += '+' + '+'.join(f'{n}:{v}' for n, v in others.items())
    return status, backend, time.time() - t0, model, reason


def _nonlinear(e):
    """does the term contain a product of two non-numeral factors?"""
    stack, seen = [e], set()
    while stack:
        t = stack.pop()
        if not z3.is_expr(t) or t.get_id() in seen:
            continue
        seen.add(t.get_id())
        if z3.is_app(t):
            if t.decl().kind() == z3.Z3_OP_MUL and sum(1 for c in t.children() if not (z3.is_rational_value(c) or z3.is_int_value(c))) >= 2:
                return True
            stack.extend(t.children())
        elif z3.is_quantifier(t):
            stack.append(t.body())
    return False


def _usyms(e):
    out, stack, seen = set(), [e], set()
    while stack:
        t = stack.pop()
        if t.get_id() in seen:
            continue
        seen.add(t.get_id())
        if z3.is_app(t):
            d = t.decl()
            if d.kind() == z3.Z3_OP_UNINTERPRETED:
                out.add(d.name())
            stack.extend(t.children())
        elif z3.is_quantifier(t):
            stack.append(t.body())
    return out


def _flat_and(pc):
    out = []
    for c in pc:
        if isinstance(c, bool):
            if not c:
                out.append(z3.BoolVal(False))
            continue
        if z3.is_and(c):
            out += _flat_and(c.children())
        else:
            out.append(c)
    return out


def relevant_slices(pc, goal, maxdepth):
    """yields (depth, conjuncts of pc that share an uninterpreted symbol with the goal within `depth` steps); stops before
    the slice is the whole path condition (that query has been tried already)"""
    cs = _flat_and(pc)
    sy = [_usyms(c) for c in cs]
    S = _usyms(goal)
    inc = [False] * len(cs)
    for d in range(maxdepth):
        new = set()
        for i in range(len(cs)):
            if not inc[i] and (sy[i] & S):
                inc[i] = True
                new |= sy[i]
        S |= new
        if all(inc) or not any(inc):
            return
        yield d + 1, [c for i, c in enumerate(cs) if inc[i]]


def run_z3_cli(smt, tlimit_s, wall_s=None):
    z3new = shutil.which('z3-new') or '/opt/veriftools/pyvenv/bin/z3'
    if not os.path.exists(z3new):
        return 'unknown'
    with tempfile.NamedTemporaryFile('w', suffix='.smt2', delete=False, dir=os.environ.get('TMPDIR', '/tmp')) as fh:
        fh.write(smt)
        path = fh.name
    try:
        r = subprocess.run([z3new, f'-T:{wall_s or tlimit_s * 4}', f'rlimit={int(tlimit_s * 1000 * RLIMIT_PER_MS)}', path], capture_output=True, text=True, timeout=(wall_s or tlimit_s * 4) + 5)
        first = (r.stdout.strip().splitlines() or ['unknown'])[0].strip()
        return first if first in ('sat', 'unsat') else 'unknown'
    except Exception:
        return 'unknown'
    finally:
        os.unlink(path)


def run_external(smt, tlimit_s):
    out = {}
    with tempfile.NamedTemporaryFile('w', suffix='.smt2', delete=False, dir=os.environ.get('TMPDIR', '/tmp')) as fh:
        fh.write(smt)
        path = fh.name
    try:
        for name, cmd in (('cvc5-1.0.3', ['/usr/bin/cvc5', f'--tlimit={tlimit_s * 1000}', path]),
                          ('z3-4.8.12', ['/usr/bin/z3', f'-T:{tlimit_s}', path])):
            try:
                r = subprocess.run(cmd, capture_output=True, text=True, timeout=tlimit_s + 5)
                first = (r.stdout.strip().splitlines() or ['unknown'])[0].strip()
                out[name] = first if first in ('sat', 'unsat') else 'unknown'
            except Exception:
                out[name] = 'unknown'
    finally:
        os.unlink(path)
    return out


def model_valuation(model, inputs, E=None):
    val = {}
    for name, kind in inputs.items():
        if isinstance(kind, tuple):
            continue
    for name, kind in inputs.items():
        if isinstance(kind, tuple):
            # array input: evaluate the model's interpretation on the (small) index space
            import numpy as np
            f, shape, dtype = E.array_inputs[name]
            dims = []
            for d in shape:
                dv = model.eval(I(d), model_completion=True) if not isinstance(d, int) else None
                dims.append(d if isinstance(d, int) else dv.as_long())
            if any(x > 6 for x in dims) or int(np.prod(dims)) > 4096:
                raise Unsupported(f'counter-model has a large array {name}{dims}')
            data = np.zeros(dims, dtype={'bool': bool, 'int': int, 'float': float}[dtype])
            import itertools as _it
            for idx in _it.product(*[range(x) for x in dims]):
                v = model.eval(f(*[z3.IntVal(i) for i in idx]), model_completion=True)
                if dtype == 'bool':
                    data[idx] = z3.is_true(v)
                elif dtype == 'int':
                    data[idx] = v.as_long()
                else:
                    if z3.is_algebraic_value(v):
                        v = v.approx(20)
                    fr = v.as_fraction()
                    data[idx] = float(fractions.Fraction(fr.numerator, fr.denominator))
            val[name] = data
            continue
        c = {'float': z3.Real, 'int': z3.Int, 'bool': z3.Bool}[kind](name)
        v = model.eval(c, model_completion=True)
        if kind == 'int':
            val[name] = v.as_long()
        elif kind == 'bool':
            val[name] = z3.is_true(v)
        else:
            if z3.is_algebraic_value(v):
                v = v.approx(30)
            f = v.as_fraction()
            val[name] = fractions.Fraction(f.numerator, f.denominator)
    return val


def small_valuation(E, ob, model):
    """valuation of the inputs from the counter-model; with array inputs a model with small arrays is looked for"""
    inputs = ob.get('inputs', {})
    arrays = getattr(E, 'array_inputs', {})
    if any(isinstance(k, tuple) for k in inputs.values()) and arrays:
        so = z3.Solver()
        so.set('timeout', 10000)
        so.add(*ob['pc'])
        g = ob['goal']
        so.add(z3.Not(g if not isinstance(g, bool) else z3.BoolVal(g)))
        for name, (f, shape, dtype) in arrays.items():
            for d in shape:
                if not isinstance(d, int):
                    so.add(I(d) <= 3)
        if so.check() == z3.sat:
            model = so.model()
    return model_valuation(model, inputs, E)


def val_to_json(val):
    out = {}
    for k, v in val.items():
        if hasattr(v, 'tolist'):
            out[k] = {'__array__': v.tolist(), 'dtype': str(v.dtype)}
        else:
            out[k] = str(v)
    return out


def json_to_val(d):
    import numpy as np
    val = {}
    for k, v in d.items():
        if isinstance(v, dict) and '__array__' in v:
            val[k] = np.array(v['__array__'], dtype=v['dtype'])
        elif v in ('True', 'False'):
            val[k] = v == 'True'
        elif '/' in v or v.lstrip('-').isdigit():
            val[k] = fractions.Fraction(v)
    return val


# ---------------------------------------------------------------------------------- replay on the real code
def real_call(C, E, st, cfg):
    """call the REAL function of C on the realized state; returns (outcome, realizer)"""
    RZ = (getattr(C, 'realizer', None) or Realizer)()
    RZ.E = E
    fn, cls, modname = E.src.find(C.func)
    if fn.name == '__init__' and cls is not None:
        import discretisedfield as df
        rself = object.__new__(getattr(df, cls))
        RZ.memo[id(st.self)] = rself
        RZ.back[id(rself)] = st.self
    else:
        rself = RZ.real(st.self) if st.self is not None else None
    rargs = [RZ.real(a) for a in st.args]
    rkw = {k: RZ.real(v) for k, v in st.kw.items()}
    import warnings
    try:
        with warnings.catch_warnings():
            warnings.simplefilter('ignore')
            if cls is None:
                import importlib
                m = importlib.import_module({'operators': 'discretisedfield.operators', 'util': 'discretisedfield.util.util'}[modname])
                res = getattr(m, fn.name)(*rargs, **rkw)
            elif C.func.endswith('.setter'):
                setattr(rself, fn.name, rargs[0])
                res = None
            elif fn.name in E.classes[cls]['props']:
                res = getattr(rself, fn.name)
            elif fn.name == '__init__':
                rself.__init__(*rargs, **rkw)
                res = None
            else:
                res = getattr(rself, fn.name)(*rargs, **rkw)
        if hasattr(res, '__next__'):
            res = list(res)
        out = ('return', res)
    except Exception as e:
        out = ('raise', type(e).__name__, None, str(e)[:200])
    return out, RZ


def replay(mod, C, cfg, valuation, want=None):
    """valuation (exact rationals) -> doubles -> real call -> evaluate the same clauses tolerantly.
    returns dict(reproduced, failing clauses, observed ...)"""
    src = get_source()
    E = new_engine(mod, src)
    fval = {}
    for k, v in valuation.items():
        fval[k] = fractions.Fraction(float(v)) if isinstance(v, fractions.Fraction) else v
    mags_arr = [float(abs(v).max()) for v in fval.values() if hasattr(v, 'shape') and v.size and v.dtype != bool]
    E.valuation = fval
    E.pc = []
    mags = [abs(float(v)) for v in fval.values() if isinstance(v, (fractions.Fraction, float))]
    TE.ATOL[0] = 1e-9 * max(mags + mags_arr + [1e-290])
    info = {'inputs': {k: (float(v) if isinstance(v, fractions.Fraction) else (v.tolist() if hasattr(v, 'tolist') else v)) for k, v in fval.items()}}
    try:
        st = C.pre_state(E, cfg)
        bad = [str(a) for a in getattr(st, 'assume', []) if not TE.teval(a if not isinstance(a, bool) else z3.BoolVal(a))]
        if bad:
            info.update(reproduced=False, note='the counter-model does not survive rounding to doubles (precondition no longer holds)')
            return info
        st.old = {'self': snapshot(st.self) if st.self is not None else None,
                  'args': [snapshot(a) for a in st.args], 'kw': {k: snapshot(v) for k, v in st.kw.items()}}
        frame = [(nm, o, snapshot(o)) for nm, o in C.frame(E, st)]
        frame_r = [(nm, o, snapshot(o)) for nm, o in C.frame_on_raise(E, st)]
        out, RZ = real_call(C, E, st, cfg)
        # reload the post-state of every object of the symbolic state from its real counterpart
        for oid, robj in list(RZ.memo.items()):
            o = RZ.back.get(id(robj))
            if o is not None and isinstance(o, Obj):
                RZ.refresh(o, robj)
        res = RZ.lift(out[1]) if out[0] == 'return' else None

        def clauses_for(choice):
            E._sk_choice, E._sk_n, E._sk_shapes = choice, 0, {}
            cl = []
            if out[0] == 'return':
                for label, phi in C.post(E, st, res):
                    cl.append(('post', label, phi))
                for exc, cond in C.raises(E, st):
                    cl.append(('raises', f'returns normally => not [{exc} condition]', negate(cond)))
                for nm, o, sn in frame:
                    if nm not in getattr(C, 'modifies', ()):
                        cl.append(('frame', f'{nm} unchanged', same_value(E, o, sn)))
            else:
                conds = [c for exc, c in C.raises(E, st) if exc == out[1]]
                cl.append(('raises', f'{out[1]} raised => its stated condition holds', disj(conds)))
                for nm, o, sn in frame_r:
                    cl.append(('frame', f'{nm} unchanged on the {out[1]} path', same_value(E, o, sn)))
            return cl
        if C.unspecified is not None:
            E._sk_choice = None
            u = C.unspecified(E, st)
            if TE.teval(u if not isinstance(u, bool) else z3.BoolVal(u)):
                info.update(reproduced=False, note='input lies in the band the contract leaves unspecified')
                return info
        # generic (Skolem) indices of the contract are enumerated over the concrete arrays: a clause fails if it fails at some index
        clauses_for({})
        shapes = dict(getattr(E, '_sk_shapes', {}))
        import itertools as _it
        keys = sorted(shapes)
        spaces = [list(_it.product(*[range(d) for d in shapes[k]])) for k in keys]
        combos = _it.islice(_it.product(*spaces), 6000) if keys else [()]
        failing = []
        witness = {}
        for combo in combos:
            choice = dict(zip(keys, combo))
            for kind, label, phi in clauses_for(choice):
                ok = phi if isinstance(phi, bool) else TE.teval(phi)
                if not ok and f'{kind}:{label}' not in failing:
                    failing.append(f'{kind}:{label}')
                    witness[f'{kind}:{label}'] = [list(x) for x in combo]
        E._sk_choice = None
        if witness:
            info['failing_at_index'] = witness
        info['observed'] = out[0] if out[0] == 'return' else f'{out[1]}: {out[3]}'
        info['failing_clauses_on_real_code'] = failing
        info['reproduced'] = bool(failing) if want is None else any(w in f for f in failing for w in [want]) or bool(failing)
    except Exception as e:
        info.update(reproduced=False, note=f'replay harness could not run the case: {e!r}', trace=traceback.format_exc()[-800:])
    return info


# ---------------------------------------------------------------------------------- tasks
def run_task(args):
    """one (contract, config) in a worker process; returns JSON-able results"""
    modname, prop, cname, cfg, tier, mutant = args
    import importlib
    mod = importlib.import_module(modname)
    t0 = time.time()
    res = {'contract': cname, 'config': cfg_str(cfg), 'obligations': [], 'paths': 0, 'error': None, 'solver_seconds': 0.0, 'mutant': mutant}
    try:
        if mutant:
            m = mod.MUTANTS[mutant]
            src = get_source(('mut', mutant), {m['module']: (lambda t, m=m: apply_mutation(t, m))})
        else:
            src = get_source()
        E = new_engine(mod, src)
        if mutant:
            E.FEAS_TIMEOUT = 800       # controls only need one refuted obligation; undecided feasibility explores both sides anyway
            E.FEAS_RETRY = False
        C = mod.contract(cname)
        if hasattr(C, 'use_contracts'):
            # this contract is proved against its own set of callee contracts (e.g. a callee inlined elsewhere in the module)
            E.contracts = {c_.qual: c_ for c_ in C.use_contracts()}
        if C.func is None:
            obs, npaths = C.lemmas(E, cfg, prop), 0
        else:
            obs, npaths = gen_obligations(E, C, cfg, prop)
        res['paths'] = npaths
        # vacuity guard: the hypotheses of every path / lemma must be satisfiable (a contradictory requires,
        # assumed contract or lemma hypothesis would discharge everything)
        seen_pc = {}
        for ob in (obs if not mutant else []):
            pk = (ob.get('path'), len(ob['pc']))
            if pk in seen_pc or ob['kind'] in ('div0', 'pre'):
                continue
            so = z3.Solver()
            so.set('rlimit', int(3000 * RLIMIT_PER_MS))
            so.set('timeout', 30000)
            so.add(*ob['pc'])
            seen_pc[pk] = so.check()
        # an infeasible PATH is harmless (feasibility queries that time out never prune, so vacuous paths are explored);
        # a task in which NO path has satisfiable hypotheses means a contradictory precondition / assumed contract
        if seen_pc and all(v == z3.unsat for v in seen_pc.values()):
            res['error'] = f"vacuity: contradictory hypotheses on every path of {cname}[{cfg_str(cfg)}]"
        res['vacuous_paths'] = sum(1 for v in seen_pc.values() if v == z3.unsat)
        res['vacuity_checked'] = len(seen_pc)
        if mutant and mod.MUTANTS[mutant].get('expect'):
            # the control names the clause it is meant to break: only those obligations are tried
            obs = [ob for ob in obs if mod.MUTANTS[mutant]['expect'] in ob['text']]
        t_ctl = time.time()
        for ob in obs:
            if mutant and time.time() - t_ctl > CONTROL_BUDGET_S:
                break           # a control that is not refuted within its budget is reported as inconclusive
            if mutant:
                # negative control: one refuted obligation is all that is asked for (short budget, no second opinions)
                status, backend, secs, model, reason = prove(ob['pc'], ob['goal'], TIMEOUT_MS[tier] if mod.MUTANTS[mutant].get('expect') else min(8000, TIMEOUT_MS[tier]), light=True, inputs=ob.get('inputs'))
            else:
                # second efforts (4x retry, external solvers) are bounded per task: a source change that makes many
                # obligations hard must not stall the check (they stay 'undecided', never 'violated')
                heavy_left = HEAVY_BUDGET_S[tier] - res.get('heavy_seconds', 0.0)
                status, backend, secs, model, reason = prove(ob['pc'], ob['goal'], TIMEOUT_MS[tier], cross=(tier == 'thorough'), light=heavy_left <= 0, inputs=ob.get('inputs'))
                if secs > TIMEOUT_MS[tier] / 1000.0:
                    res['heavy_seconds'] = res.get('heavy_seconds', 0.0) + secs - TIMEOUT_MS[tier] / 1000.0
            if status == 'undecided' and os.environ.get('PYVC_DUMP_HARD') and not mutant:
                os.makedirs(os.environ['PYVC_DUMP_HARD'], exist_ok=True)
                so_ = z3.Solver()
                so_.add(*ob['pc'])
                so_.add(z3.Not(ob['goal']) if not isinstance(ob['goal'], bool) else z3.BoolVal(not ob['goal']))
                open(os.path.join(os.environ['PYVC_DUMP_HARD'], re.sub(r'[^A-Za-z0-9]+', '_', ob['id'])[:150] + '.smt2'), 'w').write(so_.to_smt2())
            rec = {k: ob[k] for k in ('key', 'id', 'config', 'kind', 'text')}
            rec.update(status=status, backend=backend, seconds=round(secs, 3), reason=reason, contract=cname, cfg=cfg)
            res['solver_seconds'] += secs
            if status == 'failed' and model is not None:
                try:
                    val = small_valuation(E, ob, model)
                    rec['model'] = val_to_json(val)
                    if not mutant:
                        if C.func is not None:
                            rec['replay'] = replay(mod, C, cfg, val, want=ob['text'])
                        else:
                            rec['replay'] = {'reproduced': False, 'note': 'lemma over contracts: no single real call to replay'}
                except Unsupported as e:
                    rec['replay'] = {'reproduced': False, 'note': f'counter-model could not be made concrete: {e}'}
            if status == 'error':
                res['error'] = reason
            res['obligations'].append(rec)
            if mutant and status == 'failed':
                break
    except ControlNotApplicable as e:
        # the source no longer contains the text this control mutates: the control says nothing (recorded, not an error;
        # the obligations of the real source are generated and judged independently of the controls)
        res['skipped_control'] = str(e)
    except Unsupported as e:
        res['obligations'].append({'key': f'{prop}/{cname}/engine', 'id': f'{prop}/{cname}/engine[{cfg_str(cfg)}]', 'config': cfg_str(cfg), 'kind': 'engine',
                                   'text': 'function within the supported subset', 'status': 'undecided', 'backend': 'pyvc',
                                   'seconds': 0, 'reason': f'unsupported construct: {e}', 'contract': cname, 'cfg': cfg})
    except Exception as e:
        res['error'] = f'{type(e).__name__}: {e}\n{traceback.format_exc()[-1500:]}'
    res['wall'] = time.time() - t0
    return res


class ControlNotApplicable(Exception):
    pass


def apply_mutation(text, m):
    if m['old'] not in text:
        raise ControlNotApplicable(f"negative control pattern not found in the current source")
    return text.replace(m['old'], m['new'], 1)


def _npconf(seed):
    from . import npconf
    try:
        return npconf.run(seed)
    except Exception as e:
        return [f'conformance run crashed: {e!r}'], 0


def crosscheck_task(args):
    """engine cross-check: run the interpreter on concrete inputs and compare with CPython on the real code"""
    modname, prop, cname, cfg, seed = args
    import importlib
    mod = importlib.import_module(modname)
    out = {'contract': cname, 'config': cfg_str(cfg), 'compared': 0, 'mismatch': None}
    try:
        src = get_source()
        C = mod.contract(cname)
        if C.func is None:
            return out
        # 1. a model of the precondition (diversified by the seed)
        E = new_engine(mod, src)
        E.pc = []
        st = C.pre_state(E, cfg)
        so = z3.Solver()
        so.set('timeout', 5000)
        so.set('random_seed', seed % 1000)
        so.add(*[a for a in getattr(st, 'assume', []) if not isinstance(a, bool)])
        for name, (f_, shape, dtype) in getattr(E, 'array_inputs', {}).items():
            for d in shape:
                if not isinstance(d, int):
                    so.add(I(d) <= 3)
        rnd = random.Random(seed * 7919 + zlib.crc32(cname.encode()) % 1000)
        for nm, kind in E.inputs.items():
            if kind == 'float':
                so.push()
                if 'cell' in nm or 'edge' in nm:
                    pick = fractions.Fraction(rnd.randint(1, 24), rnd.choice([1, 2, 4, 8]))     # sizes: positive, well conditioned
                else:
                    pick = fractions.Fraction(rnd.randint(-40, 40), rnd.choice([1, 2, 4, 8]))
                so.add(z3.Real(nm) == z3.RealVal(str(pick)))
                if so.check() != z3.sat:
                    so.pop()
            elif kind == 'int':
                so.push()
                so.add(z3.Int(nm) == rnd.randint(-3, 6))
                if so.check() != z3.sat:
                    so.pop()
        if so.check() != z3.sat:
            return out
        val = model_valuation(so.model(), E.inputs, E)
        for name, (f_, shape, dtype) in getattr(E, 'array_inputs', {}).items():
            if dtype == 'float':
                val[name] = np_random_like(val[name], rnd)
            elif dtype == 'bool':
                val[name] = np_random_like(val[name], rnd, boolean=True)
        fval = {k: (fractions.Fraction(float(v)) if isinstance(v, fractions.Fraction) else v) for k, v in val.items()}
        # the comparison is exact arithmetic (engine) against doubles (CPython): ill-conditioned geometry (a cell size many
        # orders of magnitude below the coordinates) differs by cancellation, not by semantics - such samples are skipped
        sizes = [abs(float(v)) for k, v in fval.items() if isinstance(v, fractions.Fraction) and ('cell' in k or 'edge' in k) and v != 0]
        coords = [abs(float(v)) for k, v in fval.items() if isinstance(v, fractions.Fraction)]
        if sizes and coords and max(coords) / min(sizes) > 1e5:
            out['skipped'] = 'sampled geometry is ill-conditioned for a comparison with doubles'
            return out
        # 2. interpreter on the concrete state
        E2 = new_engine(mod, src)
        E2.valuation = fval
        fn, cls, _ = src.find(C.func)

        # the inputs were rounded to doubles: the precondition must still hold for the rounded values (exact arithmetic)
        E2.pc = []
        st_chk = C.pre_state(E2, cfg)
        lost = [str(a)[:80] for a in getattr(st_chk, 'assume', []) if not (a if isinstance(a, bool) else z3.is_true(z3.simplify(a)))]
        if lost:
            out['skipped'] = 'precondition does not survive rounding of the sampled inputs to doubles'
            return out

        def thunk():
            st2 = C.pre_state(E2, cfg)
            E2.call_depth = 0
            try:
                r = E2.call_function(fn, ([st2.self] if cls else []) + list(st2.args), dict(st2.kw), cls=cls, qual=('#top', C.func))
                return ('return', r, st2)
            except PyRaise as e:
                return ('raise', e.exc, st2)
        saved = dict(E2.contracts)
        E2.contracts = {}            # cross-check the bodies themselves, not the contracts
        paths = E2.explore(thunk)
        E2.contracts = saved
        if len(paths) != 1:
            out['mismatch'] = f'concrete execution forked into {len(paths)} paths'
            return out
        sym_out = paths[0].outcome[1]
        # 3. CPython on the real code
        E3 = new_engine(mod, src)
        E3.valuation = fval
        E3.pc = []
        st3 = C.pre_state(E3, cfg)
        rout, RZ = real_call(C, E3, st3, cfg)
        out['compared'] = 1
        if sym_out[0] != rout[0] or (sym_out[0] == 'raise' and sym_out[1] != rout[1]):
            out['mismatch'] = f'outcome differs: engine {sym_out[:2]} vs CPython {rout[:2]} inputs {fval}'
            return out
        if sym_out[0] == 'return':
            _CANON_E[0] = E2
            a = canon(sym_out[1])
            b = canon(RZ.lift(rout[1]))
            if not close_struct(a, b):
                out['mismatch'] = f'result differs: engine {a} vs CPython {b} inputs { {k: (float(v) if not hasattr(v, 'tolist') else v.tolist()) for k, v in fval.items()} }'
        return out
    except Unsupported as e:
        out['skipped'] = str(e)
        return out
    except Exception as e:
        out['mismatch'] = f'cross-check crashed: {e!r} {traceback.format_exc()[-600:]}'
        return out


def np_random_like(a, rnd, boolean=False):
    import numpy as np
    out = np.zeros(a.shape, dtype=bool if boolean else float)
    for idx in np.ndindex(a.shape):
        out[idx] = (rnd.random() < 0.6) if boolean else rnd.randint(-20, 20) / rnd.choice([1, 2, 4])
    return out


def canon(v):
    """symbolic-domain value holding concrete numbers -> plain python structure"""
    from .interp import NamedTuple
    if isinstance(v, Obj):
        return {'__cls__': v.cls, **{k: canon(x) for k, x in v.attrs.items() if k != 'dtype'}}
    if isinstance(v, Vec):
        return [canon(x) for x in v.elems]
    if isinstance(v, NamedTuple):
        return [canon(x) for x in v.vals]
    if isinstance(v, (tuple, list)):
        return [canon(x) for x in v]
    if isinstance(v, dict):
        return {k: canon(x) for k, x in v.items()}
    if isinstance(v, (Sym, fractions.Fraction)):
        return tofloat(v)
    if isinstance(v, SymSeq):
        n = tofloat(v.length) if not isinstance(v.length, int) else v.length
        return [canon(v.elem(j)) for j in range(int(n))]
    if type(v).__name__ == 'NDArr':
        a = v.to_numpy(_CANON_E[0])
        # 1-d arrays are lifted from the real code as plain vectors (Realizer.lift): same canonical form
        return a.tolist() if a.ndim == 1 else ('ndarray', a.tolist())
    return v


_CANON_E = [None]


def close_struct(a, b):
    if isinstance(a, dict) and isinstance(b, dict):
        if '__cls__' in a and '__cls__' in b:
            # objects: the attributes the bridge to the real objects knows about (a slot added to the class is not a difference
            # between engine and CPython)
            common = a.keys() & b.keys()
            return a['__cls__'] == b['__cls__'] and all(close_struct(a[k], b[k]) for k in common)
        return a.keys() == b.keys() and all(close_struct(a[k], b[k]) for k in a)
    if isinstance(a, (list, tuple)) and isinstance(b, (list, tuple)):
        return len(a) == len(b) and all(close_struct(x, y) for x, y in zip(a, b))
    if isinstance(a, bool) or isinstance(b, bool):
        return bool(a) == bool(b)
    if isinstance(a, (int, float)) and isinstance(b, (int, float)):
        return abs(a - b) <= 1e-9 * max(abs(a), abs(b)) + 1e-12
    return a == b


# ---------------------------------------------------------------------------------- property driver
def run_property(mod, prop, tier, seed, jobs):
    t0 = time.time()
    tasks = []
    for C in mod.CONTRACTS:
        for cfg in C.configs(tier):
            tasks.append((mod.__name__, prop, C.name, cfg, tier, None))
    mut_tasks = []
    for mname, m in getattr(mod, 'MUTANTS', {}).items():
        if m.get('tier') == 'thorough' and tier != 'thorough':
            continue          # an expensive control (exploration of the mutated source is slow): thorough tier only
        C = mod.contract(m['contract'])
        cfgs = [c for c in C.configs(tier) if all(c.get(k) == v for k, v in m.get('config', {}).items())][:1]
        for cfg in cfgs:
            mut_tasks.append((mod.__name__, prop, C.name, cfg, tier, mname))
    cc_tasks = []
    for C in mod.CONTRACTS:
        if C.func is None or getattr(C, 'no_crosscheck', False):
            continue
        cfgs = C.configs(tier)
        for i, cfg in enumerate(cfgs[:3 if tier == 'quick' else 8]):
            cc_tasks.append((mod.__name__, prop, C.name, cfg, seed + i))
    ctx = mp.get_context('fork')
    with ctx.Pool(max(1, jobs)) as pool:
        r_conf = pool.apply_async(_npconf, (seed,))
        r_main = pool.map_async(run_task, tasks, chunksize=1)
        r_mut = pool.map_async(run_task, mut_tasks, chunksize=1)
        r_cc = pool.map_async(crosscheck_task, cc_tasks, chunksize=1)
        main, mut, cc = r_main.get(), r_mut.get(), r_cc.get()
        conf_bad, conf_n = r_conf.get()
    obligations, errors = [], []
    for b in conf_bad:
        errors.append({'numpy_model_conformance': b[:400]})
    paths = 0
    solver_s = 0.0
    by_backend = {}
    for r in main:
        paths += r['paths']
        solver_s += r['solver_seconds']
        if r['error']:
            errors.append({'task': r['contract'], 'config': r['config'], 'error': r['error']})
        for o in r['obligations']:
            obligations.append(o)
            if o['status'] == 'discharged':
                b = o['backend'].split('+')[0]
                by_backend[b] = by_backend.get(b, 0) + 1
            if o['status'] == 'error':
                errors.append({'task': r['contract'], 'error': o['reason']})
    # vacuity: non-zero obligations for every contract x configuration
    per = {}
    for o in obligations:
        per[(o['contract'], o['config'])] = per.get((o['contract'], o['config']), 0) + 1
    for t in tasks:
        if per.get((t[2], cfg_str(t[3])), 0) == 0:
            errors.append({'task': t[2], 'config': cfg_str(t[3]), 'error': 'vacuity: zero obligations generated'})
    # negative controls must FAIL
    neg = {}
    for r in mut:
        nm = r['mutant']
        failed = [o for o in r['obligations'] if o['status'] == 'failed']
        neg[nm] = {'failed_obligations': len(failed), 'example': failed[0]['key'] if failed else None}
        if r.get('skipped_control'):
            neg[nm] = {'skipped': r['skipped_control']}
            continue
        if r['error']:
            errors.append({'negative_control': nm, 'error': r['error']})
        elif not failed:
            und = [o for o in r['obligations'] if o['status'] == 'undecided']
            if und:
                # the broken source was not ACCEPTED (nothing it breaks was discharged), the solver just did not produce the
                # refutation within the control's short budget: recorded as inconclusive, not as a passed control
                neg[nm] = {'inconclusive': f"{len(und)} obligation(s) undecided within the control budget: {und[0].get('reason', '')[:80]}"}
            else:
                errors.append({'negative_control': nm, 'error': 'negative control passed: a deliberately broken source/contract was not refuted',
                               'statuses': [o['status'] + ':' + o.get('reason', '')[:80] for o in r['obligations']][:6]})
    unsupported_only = any('unsupported construct' in str(v.get('inconclusive', '')) for v in neg.values())
    if any('skipped' not in v for v in neg.values()) and not any(v.get('failed_obligations') for v in neg.values()) and not unsupported_only:
        errors.append({'negative_controls': 'no negative control of this module was refuted in this run', 'detail': neg})
    cc_out = {'compared': sum(c['compared'] for c in cc), 'skipped': [c['contract'] + ':' + c.get('skipped', '') for c in cc if c.get('skipped')][:5]}
    for c in cc:
        if c['mismatch']:
            errors.append({'engine_crosscheck': c['contract'], 'config': c['config'], 'error': c['mismatch']})
    functions = sorted({C.func for C in mod.CONTRACTS if C.func})
    return {
        'obligations': obligations, 'checker_errors': errors, 'paths': paths, 'solver_seconds': solver_s,
        'by_backend': by_backend, 'z3_version': z3.get_version_string(), 'cross': tier == 'thorough',
        'functions': functions + [f'lemma:{C.name}' for C in mod.CONTRACTS if C.func is None],
        'inlined': getattr(mod, 'INLINED', []), 'configurations': sorted({o['config'] for o in obligations})[:60],
        'trusted_base': getattr(mod, 'TRUSTED', []) + ['pyvc symbolic executor (pyvc/*.py)', 'z3 5.1.0'],
        'assumptions': BASE_ASSUMPTIONS + getattr(mod, 'ASSUMPTIONS', []),
        'dropped': DROPPED, 'negative_controls': neg, 'crosscheck': cc_out,
        'vacuity': {'contracts_x_configs': len(tasks), 'all_nonzero': not any('vacuity' in str(e.get('error')) for e in errors)},
        'bounded_in': getattr(mod, 'BOUNDED_IN', []),
        'numpy_model_conformance': {'probes': conf_n, 'mismatches': len(conf_bad)},
        'slowest_tasks': sorted([(round(r['wall'], 1), ('control:' + r['mutant'] + ' ' if r.get('mutant') else '') + r['contract'] + '[' + r['config'] + ']') for r in main + mut], reverse=True)[:6],
        'wall': time.time() - t0,
    }


def replay_obligation(mod, ob):
    C = mod.contract(ob['contract'])
    if 'model' not in ob:
        print('no counter-model stored for this obligation:', ob['id'])
        return 0
    val = json_to_val(ob['model'])
    info = replay(mod, C, ob['cfg'], val, want=ob['text'])
    print(json.dumps(info, indent=1, default=str))
    return 1 if info.get('reproduced') else 0
