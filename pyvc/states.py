"""symbolic pre-states (class invariants of DESIGN §3), snapshots/frames, and the bridge between
the symbolic value domain and real discretisedfield objects (realize / lift) used by replay."""
import fractions
import z3
from .core import *
from .contracts import conj

DIMS = ['a', 'b', 'c', 'e']          # arbitrary distinct dimension names (A5); 'd..' avoided: Mesh.__getattr__ treats d<dim>
UNITS = ['u0', 'u1', 'u2', 'u3']


def inp(E, name, kind, np=False):
    """named input symbol (or its value when replaying a valuation)"""
    val = getattr(E, 'valuation', None)
    if val is not None:
        if name not in val:
            raise KeyError(f"valuation lacks {name}")
        v = val[name]
        if kind == 'float':
            return fractions.Fraction(v) if not isinstance(v, fractions.Fraction) else v
        if kind == 'int':
            return int(v)
        return bool(v)
    E.inputs[name] = kind
    if kind == 'float':
        return Sym(z3.Real(name), 'float', np)
    if kind == 'int':
        return Sym(z3.Int(name), 'int', np)
    return Sym(z3.Bool(name), 'bool', np)


def wellcond(pmin, pmax, tf):
    """the region's comparison tolerance resolves its geometry:
    tf*(|pmin_j| + |pmax_j| + min_edge) <= min_edge/1000 on every axis (default tf=1e-12: corners up to ~5e8 edges away)"""
    edges = [R(b) - R(a) for a, b in zip(pmin, pmax)]
    m = edges[0]
    for e in edges[1:]:
        m = z3.If(e < m, e, m)
    out = []
    for a, b in zip(pmin, pmax):
        aa = z3.If(R(a) >= 0, R(a), -R(a))
        bb = z3.If(R(b) >= 0, R(b), -R(b))
        out.append(R(tf) * (aa + bb + m) * 1000 <= m)
    return out


def sym_region(E, ndim, prefix='r', dims=None, units=None, tf=None, assume=None):
    """Region satisfying Inv(Region): pmin_j < pmax_j (pmax := pmin + edge, edge > 0)"""
    assume = assume if assume is not None else []
    pmin = [inp(E, f'{prefix}_pmin{j}', 'float', True) for j in range(ndim)]
    edge = [inp(E, f'{prefix}_edge{j}', 'float', True) for j in range(ndim)]
    for e in edge:
        assume.append(R(e) > 0)
    pmax = [E.arith('+', p, e) for p, e in zip(pmin, edge)]
    if tf is None:
        tf = inp(E, f'{prefix}_tf', 'float')
        assume += [R(tf) >= 0, R(tf) <= z3.RealVal('1/1000')]
    if not getattr(E, 'no_wellcond', False):
        assume += wellcond(pmin, pmax, tf)
    r = Obj('Region', {'_pmin': Vec(pmin), '_pmax': Vec(pmax),
                       '_dims': tuple(dims or DIMS[:ndim]), '_units': tuple(units or UNITS[:ndim]),
                       '_tolerance_factor': tf})
    r.modelled_state = True
    return r, assume


def wellcond_mesh(pmin, pmax, cell, tf):
    """the comparison tolerance is far below one cell: tf*(|pmin_j|+|pmax_j|+min_edge) <= min(cell)/1000
    (default tf=1e-12: the mesh may sit up to ~1e9 cells away from the origin / be ~1e9 cells long)"""
    edges = [R(b) - R(a) for a, b in zip(pmin, pmax)]
    m = edges[0]
    for e in edges[1:]:
        m = z3.If(e < m, e, m)
    out = []
    for a, b in zip(pmin, pmax):
        aa = z3.If(R(a) >= 0, R(a), -R(a))
        bb = z3.If(R(b) >= 0, R(b), -R(b))
        for c in cell:
            out.append(R(tf) * (aa + bb + m) * 1000 <= R(c))
    return out


def sym_mesh(E, ndim, prefix='m', nsub=0, bc='', assume=None, dims=None, units=None, tf=None, cellcond=False, corners='float'):
    """Mesh satisfying Inv(Mesh); state parametrised by (pmin, cell, n): pmax := pmin + n*cell, so that
    cell*n == edges holds by construction; subregions by integer lattice coordinates 0 <= a < b <= n."""
    assume = assume if assume is not None else []
    # corners='int': integer-typed corner arrays (int64 region), integer cell sizes - the dtype-sensitive configurations
    pmin = [inp(E, f'{prefix}_pmin{j}', corners, True) for j in range(ndim)]
    cell = [inp(E, f'{prefix}_cell{j}', corners, True) for j in range(ndim)]
    n = [inp(E, f'{prefix}_n{j}', 'int', True) for j in range(ndim)]
    for c, k in zip(cell, n):
        assume += [R(c) > 0, I(k) >= 1]
        # redundant consequence of the two facts above, stated for the solver (nonlinear int*real): n*c >= c.
        # (k-1)*c >= 0 is a product of two non-negative numbers; checked as a lemma by tools/selfcheck_hints.py
        assume.append(R(k) * R(c) >= R(c))
    pmax = [E.arith('+', p, E.arith('*', k, c)) for p, k, c in zip(pmin, n, cell)]
    if tf is None:
        tf = inp(E, f'{prefix}_tf', 'float')
        assume += [R(tf) >= 0, R(tf) <= z3.RealVal('1/1000')]
    if not getattr(E, 'no_wellcond', False):
        assume += wellcond(pmin, pmax, tf)
    if cellcond:
        assume += wellcond_mesh(pmin, pmax, cell, tf)
    dims = tuple(dims or DIMS[:ndim])
    units = tuple(units or UNITS[:ndim])
    reg = Obj('Region', {'_pmin': Vec(pmin, corners), '_pmax': Vec(pmax, corners), '_dims': dims, '_units': units, '_tolerance_factor': tf})
    subs = {}
    ghost = {}
    for si in range(nsub):
        a = [inp(E, f'{prefix}_s{si}a{j}', 'int') for j in range(ndim)]
        b = [inp(E, f'{prefix}_s{si}b{j}', 'int') for j in range(ndim)]
        for aj, bj, k in zip(a, b, n):
            assume += [I(aj) >= 0, I(aj) < I(bj), I(bj) <= I(k)]
        spmin = [E.arith('+', p, E.arith('*', aj, c)) for p, aj, c in zip(pmin, a, cell)]
        spmax = [E.arith('+', p, E.arith('*', bj, c)) for p, bj, c in zip(pmin, b, cell)]
        subs[f'sr{si}'] = Obj('Region', {'_pmin': Vec([E.npscalar(x) for x in spmin]), '_pmax': Vec([E.npscalar(x) for x in spmax]),
                                         '_dims': dims, '_units': units, '_tolerance_factor': tf})
        ghost[f'sr{si}'] = (a, b)
    m = Obj('Mesh', {'_region': reg, '_n': Vec(n, 'int'), '_bc': bc, '_subregions': subs})
    m.modelled_state = reg.modelled_state = True
    for sr in subs.values():
        sr.modelled_state = True
    m.ghost = {'cell': cell, 'sub': ghost}
    return m, assume


# ------------------------------------------------------------------ snapshots and frames
def snapshot(v, memo=None):
    memo = {} if memo is None else memo
    if isinstance(v, Obj):
        if id(v) in memo:
            return memo[id(v)]
        d = {}
        memo[id(v)] = ('obj', v, d)
        for k, x in v.attrs.items():
            d[k] = snapshot(x, memo)
        return memo[id(v)]
    if isinstance(v, Vec):
        return ('vec', v, list(v.elems), v.kind)
    if isinstance(v, dict):
        return ('dict', v, {k: snapshot(x, memo) for k, x in v.items()})
    if isinstance(v, list):
        return ('list', v, [snapshot(x, memo) for x in v])
    h = getattr(v, '__snapshot__', None)
    if h is not None:
        return h()
    return ('val', v)


def old_attr(snap, *path):
    """read an attribute value out of a snapshot: old_attr(snap,'_region','_pmin') -> list of elems / value"""
    cur = snap
    for p in path:
        assert cur[0] == 'obj', cur[0]
        cur = cur[2][p]
    if cur[0] == 'vec':
        return cur[2]
    if cur[0] == 'val':
        return cur[1]
    if cur[0] == 'dict':
        return cur
    return cur


def same_value(E, cur, snap):
    """Bool: current value equals snapshot (identity of objects and vectors is NOT required for values,
    object attributes must hold the same object)"""
    k = snap[0]
    if k == 'obj':
        if cur is not snap[1]:
            return False
        return conj([same_value(E, cur.attrs.get(a, _MISSING), sv) for a, sv in snap[2].items()] +
                    [len(cur.attrs) == len(snap[2])])
    if k == 'vec':
        if not isinstance(cur, Vec) or len(cur.elems) != len(snap[2]) or cur.kind != snap[3]:
            return False
        return conj([_eq(E, x, y) for x, y in zip(cur.elems, snap[2])])
    if k == 'dict':
        if not isinstance(cur, dict) or list(cur.keys()) != list(snap[2].keys()):
            return False
        return conj([same_value(E, cur[kk], sv) for kk, sv in snap[2].items()])
    if k == 'list':
        if not isinstance(cur, list) or len(cur) != len(snap[2]):
            return False
        return conj([same_value(E, x, sv) for x, sv in zip(cur, snap[2])])
    if k == 'val':
        return _eq(E, cur, snap[1])
    if k == 'nd' and getattr(E, 'valuation', None) is not None:
        # replay on the real code: arrays are compared by content (objects are re-lifted after the call)
        import numpy as np
        _, arr, buf, get, axes, fixed = snap
        from .ndarr import NDArr
        if not isinstance(cur, NDArr):
            return False
        before = NDArr(type(buf).__new__(type(buf)), axes, fixed)
        before.buf.__dict__.update(buf.__dict__)
        before.buf.get = get
        a, b = before.to_numpy(E), cur.to_numpy(E)
        return a.shape == b.shape and a.dtype == b.dtype and bool(np.array_equal(a, b))
    if k == 'nd':
        # an array value is unchanged iff it is still the same view of the same buffer and nothing was stored
        # through any view of that buffer since the snapshot (stores replace the buffer's element function)
        _, arr, buf, get, axes, fixed = snap
        return cur is arr and cur.buf is buf and buf.get is get and cur.axes == axes and cur.fixed == fixed
    raise Unsupported(f'same_value {k}')


_MISSING = object()


def _eq(E, x, y):
    if x is _MISSING:
        return False
    if getattr(E, 'valuation', None) is not None and all(isinstance(v, (int, float, fractions.Fraction)) and not isinstance(v, bool) for v in (x, y)):
        # replay on doubles: a float literal of the state (decimal meaning) and the value lifted from the real object
        # (binary meaning) denote the same double
        return float(x) == float(y)
    if isinstance(x, (Sym, int, float, fractions.Fraction)) and not isinstance(x, bool) and \
       isinstance(y, (Sym, int, float, fractions.Fraction)) and not isinstance(y, bool):
        if kind_of(x) != kind_of(y) and 'bool' in (kind_of(x), kind_of(y)):
            return False
        r = E.cmp('==', x, y)
        return r if isinstance(r, bool) else r.t
    if isinstance(x, Sym) or isinstance(y, Sym):
        if isinstance(x, (Sym, bool)) and isinstance(y, (Sym, bool)):
            r = E.cmp('==', x, y)
            return r if isinstance(r, bool) else r.t
        return False
    if isinstance(x, (tuple, list)) and isinstance(y, (tuple, list)):
        if type(x) != type(y) or len(x) != len(y):
            return False
        return conj([_eq(E, p, q_) for p, q_ in zip(x, y)])
    return x == y


# ------------------------------------------------------------------ realize / lift (replay on the real code)
def tofloat(v):
    if isinstance(v, Sym):
        t = z3.simplify(v.t)
        if z3.is_int_value(t):
            return t.as_long()
        if z3.is_rational_value(t):
            f = t.as_fraction()
            return float(fractions.Fraction(f.numerator, f.denominator))
        if z3.is_true(t):
            return True
        if z3.is_false(t):
            return False
        raise Unsupported(f'non-ground value in replay: {t}')
    if isinstance(v, fractions.Fraction):
        return float(v)
    return v


class Realizer:
    """symbolic-domain values holding numerals  ->  real numpy / discretisedfield objects"""

    def __init__(s):
        import numpy as np
        import discretisedfield as df
        s.np = np
        s.df = df
        s.memo = {}      # id(Obj) -> real
        s.back = {}      # id(real) -> Obj

    def real(s, v):
        np, df = s.np, s.df
        if isinstance(v, Obj):
            if id(v) in s.memo:
                return s.memo[id(v)]
            if v.cls == 'Region':
                r = df.Region(p1=s.real(v.attrs['_pmin']), p2=s.real(v.attrs['_pmax']), dims=list(v.attrs['_dims']),
                              units=list(v.attrs['_units']), tolerance_factor=tofloat(v.attrs['_tolerance_factor']))
            elif v.cls == 'Mesh':
                reg = s.real(v.attrs['_region'])
                subs = {k: s.real(x) for k, x in v.attrs['_subregions'].items()}
                r = df.Mesh(region=reg, n=[int(tofloat(x)) for x in v.attrs['_n'].elems], bc=v.attrs['_bc'], subregions=subs)
                # keep the identity of the sub-objects that the symbolic state has
                for k, x in v.attrs['_subregions'].items():
                    s.memo[id(x)] = r.subregions[k]
                    s.back[id(r.subregions[k])] = x
                # the mesh may hold its own copy of the region: that one is the counterpart of the symbolic region
                s.memo[id(v.attrs['_region'])] = r._region
                s.back[id(r._region)] = v.attrs['_region']
            else:
                h = getattr(s, 'real_' + v.cls, None)
                if h is None:
                    raise Unsupported(f'realize {v.cls}')
                r = h(v)
            s.memo[id(v)] = r
            s.back[id(r)] = v
            return r
        if isinstance(v, Vec):
            if v.kind == 'row':
                return np.array([s.real(x) for x in v.elems])
            return np.array([tofloat(x) for x in v.elems], dtype={'float': float, 'int': int, 'bool': bool}[v.kind])
        if isinstance(v, (Sym, fractions.Fraction)):
            return tofloat(v)
        if isinstance(v, tuple):
            return tuple(s.real(x) for x in v)
        if isinstance(v, list):
            return [s.real(x) for x in v]
        if isinstance(v, dict):
            return {k: s.real(x) for k, x in v.items()}
        if type(v).__name__ == 'NDArr':
            return v.to_numpy(s.E)
        if isinstance(v, Builtin) and hasattr(v, '__realize__'):
            return v.__realize__(s)
        return v

    def real_Field(s, v):
        a = v.attrs
        mesh = s.real(a['_mesh'])
        arr = a['_array'].to_numpy(s.E)
        val = a['_valid'].to_numpy(s.E)
        f = s.df.Field(mesh, nvdim=a['_nvdim'], value=arr, vdims=a['_vdims'], unit=a['_unit'], valid=val,
                       vdim_mapping=dict(a['_vdim_mapping']), dtype=a.get('dtype'))
        return f

    def lift_ndarray(s, r):
        k = 'bool' if r.dtype == bool else ('int' if s.np.issubdtype(r.dtype, s.np.integer) else ('complex' if s.np.iscomplexobj(r) else 'float'))
        return s.E.data_array(r.copy(), k, 'lifted')

    def refresh_Field(s, o, r):
        o.attrs = {'_mesh': s.lift(r._mesh), '_nvdim': int(r._nvdim), 'dtype': r.dtype, '_unit': r._unit,
                   '_valid': s.lift_ndarray(r._valid), '_array': s.lift_ndarray(r._array),
                   '_vdims': list(r._vdims) if r._vdims is not None else None, '_vdim_mapping': dict(r._vdim_mapping)}

    # -- real -> symbolic-domain (with exact rationals of the doubles)
    def lift(s, r):
        np, df = s.np, s.df
        if isinstance(r, (df.Region, df.Mesh)) or type(r).__name__ == 'Field':
            o = s.back.get(id(r))
            if o is None:
                o = Obj(type(r).__name__)
                s.back[id(r)] = o
                s.memo[id(o)] = r
            s.refresh(o, r)
            return o
        if isinstance(r, np.ndarray):
            if r.ndim == 1:
                k = 'bool' if r.dtype == bool else ('int' if np.issubdtype(r.dtype, np.integer) else 'float')
                return Vec([s.lift(x) for x in r.tolist()], k)
            if r.ndim == 0:
                return s.lift(r.item())
            return s.lift_ndarray(r)
        if isinstance(r, (bool, np.bool_)):
            return bool(r)
        if isinstance(r, (int, np.integer)):
            return int(r)
        if isinstance(r, (float, np.floating)):
            return fractions.Fraction(float(r))
        if isinstance(r, tuple):
            return tuple(s.lift(x) for x in r)
        if isinstance(r, list):
            return [s.lift(x) for x in r]
        if isinstance(r, dict):
            return {k: s.lift(x) for k, x in r.items()}
        return r

    def refresh(s, o, r):
        """(re)load the attributes of Obj o from the real object r (post-state)"""
        if o.cls == 'Region':
            o.attrs = {'_pmin': s.lift(r._pmin), '_pmax': s.lift(r._pmax), '_dims': tuple(r._dims), '_units': tuple(r._units),
                       '_tolerance_factor': s.lift(r._tolerance_factor)}
        elif o.cls == 'Mesh':
            o.attrs = {'_region': s.lift(r._region), '_n': s.lift(r._n), '_bc': r._bc,
                       '_subregions': {k: s.lift(x) for k, x in r._subregions.items()}}
        else:
            h = getattr(s, 'refresh_' + o.cls)
            h(o, r)
