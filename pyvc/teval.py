"""tolerant evaluation of ground z3 terms with doubles (replay of counter-models on the real code).
Comparisons are lenient towards "holds": a clause that evaluates to False here fails on the real
execution by more than rounding."""
import z3, math
from fractions import Fraction

RTOL = 1e-9
ATOL = [1e-300]     # absolute tolerance = RTOL * (largest input magnitude of the replayed case), set by the replay


class NotGround(Exception):
    pass


def _close(a, b):
    return abs(a - b) <= RTOL * max(abs(a), abs(b)) + ATOL[0]


def teval(e, env=None):
    env = env or {}
    if isinstance(e, bool):
        return e
    if isinstance(e, (int, float)):
        return e
    k = e.decl().kind() if z3.is_app(e) else None
    if z3.is_int_value(e):
        return e.as_long()
    if z3.is_rational_value(e):
        fr = e.as_fraction()
        return float(Fraction(fr.numerator, fr.denominator))
    if z3.is_algebraic_value(e):
        return float(e.approx(20).as_fraction())
    if z3.is_true(e):
        return True
    if z3.is_false(e):
        return False
    if z3.is_const(e) and k == z3.Z3_OP_UNINTERPRETED:
        n = e.decl().name()
        if n in env:
            return env[n]
        raise NotGround(n)
    a = [teval(c, env) for c in e.children()] if k not in (z3.Z3_OP_ITE, z3.Z3_OP_AND, z3.Z3_OP_OR, z3.Z3_OP_IMPLIES) else None
    if k == z3.Z3_OP_ADD:
        return sum(a)
    if k == z3.Z3_OP_SUB:
        r = a[0]
        for x in a[1:]:
            r -= x
        return r
    if k == z3.Z3_OP_UMINUS:
        return -a[0]
    if k == z3.Z3_OP_MUL:
        r = 1
        for x in a:
            r *= x
        return r
    if k == z3.Z3_OP_DIV:
        return a[0] / a[1] if a[1] != 0 else float('nan')
    if k == z3.Z3_OP_IDIV:
        if a[1] == 0:
            return 0
        q = a[0] // a[1] if a[1] > 0 else -(a[0] // -a[1])
        return int(q)
    if k == z3.Z3_OP_MOD:
        if a[1] == 0:
            return 0
        return int(a[0] % abs(a[1]))
    if k == z3.Z3_OP_TO_REAL:
        return float(a[0])
    if k == z3.Z3_OP_TO_INT:
        # floor, lenient: a value within tolerance below an integer counts as that integer
        r = round(a[0])
        if _close(a[0], r):
            return int(r)
        return int(math.floor(a[0]))
    if k == z3.Z3_OP_POWER:
        return a[0] ** a[1]
    if k == z3.Z3_OP_ITE:
        c = teval(e.arg(0), env)
        return teval(e.arg(1), env) if c else teval(e.arg(2), env)
    if k == z3.Z3_OP_AND:
        return all(teval(c, env) for c in e.children())
    if k == z3.Z3_OP_OR:
        return any(teval(c, env) for c in e.children())
    if k == z3.Z3_OP_NOT:
        # negation of a tolerant comparison: strict reading of the inner relation
        return not teval_strict(e.arg(0), env)
    if k == z3.Z3_OP_IMPLIES:
        return (not teval_strict(e.arg(0), env)) or teval(e.arg(1), env)
    if k == z3.Z3_OP_EQ or k == z3.Z3_OP_IFF:
        if isinstance(a[0], bool) or isinstance(a[1], bool):
            return bool(a[0]) == bool(a[1])
        if isinstance(a[0], int) and isinstance(a[1], int):
            return a[0] == a[1]
        return _close(a[0], a[1])
    if k == z3.Z3_OP_DISTINCT:
        return not (a[0] == a[1])
    if k == z3.Z3_OP_LE:
        return a[0] <= a[1] or _close(a[0], a[1])
    if k == z3.Z3_OP_GE:
        return a[0] >= a[1] or _close(a[0], a[1])
    if k == z3.Z3_OP_LT:
        return a[0] < a[1] or _close(a[0], a[1])
    if k == z3.Z3_OP_GT:
        return a[0] > a[1] or _close(a[0], a[1])
    if k == z3.Z3_OP_XOR:
        return bool(a[0]) != bool(a[1])
    raise NotGround(f"op {e.decl().name()}")


def teval_strict(e, env=None):
    """evaluation where comparisons are strict towards "does not hold" (used under negation so that the
    overall verdict stays lenient)"""
    env = env or {}
    if isinstance(e, bool):
        return e
    k = e.decl().kind() if z3.is_app(e) else None
    if k == z3.Z3_OP_AND:
        return all(teval_strict(c, env) for c in e.children())
    if k == z3.Z3_OP_OR:
        return any(teval_strict(c, env) for c in e.children())
    if k == z3.Z3_OP_NOT:
        return not teval(e.arg(0), env)
    if k == z3.Z3_OP_IMPLIES:
        return (not teval(e.arg(0), env)) or teval_strict(e.arg(1), env)
    if k in (z3.Z3_OP_LE, z3.Z3_OP_GE, z3.Z3_OP_LT, z3.Z3_OP_GT, z3.Z3_OP_EQ):
        a = [teval(c, env) for c in e.children()]
        if isinstance(a[0], bool) or isinstance(a[1], bool):
            return bool(a[0]) == bool(a[1])
        if isinstance(a[0], int) and isinstance(a[1], int):
            return {z3.Z3_OP_LE: a[0] <= a[1], z3.Z3_OP_GE: a[0] >= a[1], z3.Z3_OP_LT: a[0] < a[1],
                    z3.Z3_OP_GT: a[0] > a[1], z3.Z3_OP_EQ: a[0] == a[1]}[k]
        if k == z3.Z3_OP_EQ:
            return a[0] == a[1]
        if _close(a[0], a[1]):
            return False
        return {z3.Z3_OP_LE: a[0] <= a[1], z3.Z3_OP_GE: a[0] >= a[1], z3.Z3_OP_LT: a[0] < a[1],
                z3.Z3_OP_GT: a[0] > a[1]}[k]
    return teval(e, env)
