"""C01 bounded run-time tier: the C01 contract clauses evaluated on the real code with doubles.
Bounded: seeded regions at scales 1e-12..1e6, meshes <= 12 cells/axis (quick) / 24 (thorough).

Every lattice / probe clause is stated on a mesh obtained through a *route* (how it was requested and
what happened to it since): by n or by cell size (exact quotient, a cell inside the constructor's
acceptance band, a cell rounded to a few significant digits), float / decimal / integer corners,
tuple / list / ndarray / scalar arguments, p1,p2 or region= (custom dimension names), then a history of
in-place or copying translate / scale / rotate90 calls.  The oracle lattice is always
pmin + (i+1/2)*(pmax-pmin)/n computed here from the region corners and the expected n; nothing a mesh
may remember about its construction is allowed to show in any observer.

Kind "stateful" interleaves observations and changes: observe -> change in place (by whoever can reach the lattice: the mesh,
a field on it, the Region object it holds or was built from, another mesh / field sharing that Region; or the caller
overwriting arrays the observers handed out; or a copy being changed) -> observe again, after every step.  Nothing derived
during an earlier observation may survive a change of the lattice, and nothing may leak between a mesh and its copies."""
import itertools
import numpy as np
import discretisedfield as df
from .common import raises, ulp_close, rand_region

PROPERTY = "C01"
CLAUSES = {
    "C01.cell_size": "cell == edges/n",
    "C01.centre": "index2point(i) == pmin + (i+1/2)*cell (to rounding)",
    "C01.roundtrip": "point2index(index2point(i)) == i for every cell",
    "C01.len_order": "len == prod(n); iteration and indices are first-dimension-fastest and agree with index2point",
    "C01.cells_vertices": "cells[j][k] == pmin_j+(k+1/2)cell_j ; vertices[j][k] == pmin_j+k*cell_j ; lengths n, n+1",
    "C01.coordinate_field": "coordinate_field.array[idx] == index2point(idx)",
    "C01.containing_cell": "a point of the region maps to an in-range index whose (closed) cell contains it up to the tolerance",
    "C01.face_lower_inclusive": "a point exactly on an interior face belongs to the upper cell (lower face inclusive) up to 1 ulp of rounding; pmax belongs to the last cell",
    "C01.reject_outside": "points / indices outside the region are rejected (ValueError / IndexError)",
    "C01.cell_request": "a mesh requested by cell size exists when edges are a whole number of cells (n = edges/cell; also for a cell inside the 0.1%-of-the-smallest-cell acceptance band) and is rejected when the remainder is clearly inside (0.3% of the smallest cell .. 95% of a cell)",
    "C01.tiling": "the mesh's own observers tile the region exactly once: n*cell == edges, first lower face == pmin, last upper face == pmax, neighbouring centres are one cell apart, vertices run from pmin to pmax in steps of cell and their midpoints are the centres (to rounding, 8 ulp of the coordinate scale)",
    "C01.reobserve": "observe (cell, cells, vertices, coordinate_field, index2point, iteration, len, point2index) -> change in place (the mesh; a field on it by Field.rotate90; the Region object it holds / was built from, directly or through another mesh / field sharing it) or let the caller overwrite the arrays handed out, or copy (copying form, deepcopy) and change the copy -> observe again: after every step every description describes the one current lattice (region as transformed, divided into the current n), copies are independent",
    "C01.history": "after in-place or copying translate / scale / rotate90 (of the mesh, or in place of its region) n and the region are the transformed ones (corners to 64 ulp of the coordinate scale) and every other clause holds on the result; arrays passed to the constructor are not aliased",
}
RULE = ("seeded random regions (scale 10^U(-12,6), non-representable offsets, either corner order) x cell counts; "
        "every index of every mesh; probe points at centres, on all faces, +-1ulp and +-(1e-9,1e-6,1e-3) cell around faces, at both "
        "corners, outside by > tolerance; the same on meshes reached through construction routes (by n / by exact, in-band or "
        "digit-rounded cell size; float, decimal, integer corners; tuple/list/ndarray/scalar/region= arguments; custom dims; bc) "
        "followed by 0-2 in-place or copying translate / scale / rotate90 calls (default or arbitrary reference point; on the mesh or in place on its region); "
        "stateful: a mesh of any route (<= 6 cells per axis) is observed (all observers, or 1-3 of them in a seeded order), then 1-4 steps, each "
        "(who changes the lattice: mesh in place | mesh.region in place | the Region given to the constructor | a sibling mesh on the same Region | "
        "Field.rotate90 in place on the mesh / on the sibling | deepcopy changed in place | copying form, copy then moved in place | caller overwrites "
        "the arrays handed out) x (translate | scale | rotate90 with k=1..3, default or arbitrary reference point), with every observer re-checked against the "
        "independent lattice after every step, point probes and the centres of the first lattice located on the final one; "
        "non-trivial = more than one cell in total; distinct by (kind, params)")
ASSUMPTIONS = ["bounded: meshes of at most 24 cells per axis, 4 dimensions, seeded sample of geometry",
               "acceptance band of a requested cell size taken from the anchor: |n*cell - edge| <= 1e-3*min(cell) (cases use <= 0.8 of it); "
               "requests within (1, 3) times the band are not exercised",
               "transformed meshes: the lattice oracle is anchored at the region corners the mesh reports (checked against the "
               "independently transformed corners to 64 ulp), n from the independent oracle",
               "stateful: a quarter turn of the Region object alone (directly or through a sibling mesh / field) leaves the mesh's n as it was - the "
               "lattice is the turned region divided into the unchanged n; mesh.n and region.pmin / pmax (the mesh's state itself) are not overwritten "
               "by the scribble step, only derived arrays; fields are scalar or have one component per direction (default component names / mapping); at most 4 steps"]

FAMILIES = ("cell_exact", "cell_band", "cell_digits", "int_n", "int_cell", "int_band", "region_n", "region_band", "dec_n")


# ------------------------------------------------------------------------------------------ generators
def _round_sig(x, k):
    return float("%.*e" % (k - 1, x))


def _dec_region(rng, ndim):
    """corners that are short decimals (k * 10^e), often with a corner at 0; either corner order"""
    unit = 10.0 ** int(rng.integers(-9, 4))
    a = rng.integers(-200, 200, size=ndim)
    a = np.where(rng.uniform(size=ndim) < 0.4, 0, a)
    m = rng.integers(10, 400, size=ndim)
    p1, p2 = (a * unit), ((a + m) * unit)
    flip = rng.integers(0, 2, size=ndim).astype(bool)
    return np.where(flip, p2, p1).tolist(), np.where(flip, p1, p2).tolist()


def _int_region(rng, ndim, n):
    """integer corners; edges are multiples of n half the time (integer-valued cell)"""
    a = rng.integers(-30, 31, size=ndim)
    m = rng.integers(1, 40, size=ndim)
    m = np.where(rng.uniform(size=ndim) < 0.5, m * np.array(n), m + np.array(n))
    flip = rng.integers(0, 2, size=ndim).astype(bool)
    p1, p2 = a, a + m
    return [int(v) for v in np.where(flip, p2, p1)], [int(v) for v in np.where(flip, p1, p2)]


def _in_band(e, n, c, share=0.8):
    c = np.asarray(c, float)
    return bool(np.all(np.abs(np.asarray(n) * c - e) <= share * 1e-3 * np.min(c)) and np.all(c <= e * (1 + 1e-13)))


def _band_cell(rng, e, n):
    """cell sizes whose multiples miss the edges by up to 0.8 of the acceptance band; at least one axis by >= 0.3"""
    n = np.asarray(n)
    c0 = e / n
    u = rng.uniform(-0.8, 0.8, size=len(n))
    k = int(rng.integers(len(n)))
    u[k] = np.sign(u[k] or 1.0) * rng.uniform(0.3, 0.8)
    u = np.where(n == 1, -np.abs(u), u)          # a single cell must not exceed the region
    c = (e + u * 0.97e-3 * np.min(c0)) / n
    return c.tolist() if _in_band(e, n, c) else None


def _digits_cell(e, n, k0):
    """cell sizes rounded to k significant digits, smallest k >= k0 that stays inside the band"""
    n = np.asarray(n)
    for k in range(k0, 12):
        c = np.array([_round_sig(v, k) for v in e / n])
        c = np.where((n == 1) & (c > e), e, c)
        if _in_band(e, n, c):
            return c.tolist()
    return None


def _ops(rng, ndim, p1, s, integer):
    """0-2 transformations: [name, inplace, args...]"""
    r = rng.uniform()
    cnt = 0 if r < 0.3 else (1 if r < 0.8 else 2)
    ops = []
    for _ in range(cnt):
        names = ["translate", "scale", "rtranslate", "rscale"] + (["rotate90", "rotate90"] if ndim >= 2 else [])
        name = names[int(rng.integers(len(names)))]
        inplace = bool(rng.uniform() < 0.7) or name in ("rtranslate", "rscale")
        # reference point of scale / rotate90: the default (centre) or an arbitrary point near the region
        ref = None
        if rng.uniform() < 0.4:
            ref = [int(x) for x in rng.integers(-20, 21, size=ndim)] if integer and rng.uniform() < 0.5 else \
                (np.array(p1, float) + rng.uniform(-1, 2, size=ndim) * s).tolist()
        if name in ("translate", "rtranslate"):
            if integer and rng.uniform() < 0.5:
                v = [int(x) for x in rng.integers(-9, 10, size=ndim)]
            else:
                v = (rng.uniform(-2, 2, size=ndim) * s).tolist()
            ops.append([name, inplace, v])
        elif name in ("scale", "rscale"):
            f = float(rng.uniform(0.3, 3)) if rng.uniform() < 0.5 else rng.uniform(0.3, 3, size=ndim).tolist()
            ops.append([name, inplace, f, ref])
        else:
            a1, a2 = (int(x) for x in rng.choice(ndim, size=2, replace=False))
            ops.append([name, inplace, a1, a2, int(rng.integers(1, 4)), ref])
    return ops


DIMS = {1: ["q"], 2: ["b", "a"], 3: ["z", "x", "y"], 4: ["t", "x", "u", "v"]}


def _route_case(rng, family, ndim, nmax):
    hi = nmax if ndim <= 2 else (6 if ndim == 3 else 4)
    n = rng.integers(1, hi + 1, size=ndim).tolist()
    if int(np.prod(n)) == 1:
        n[int(rng.integers(ndim))] = int(rng.integers(2, hi + 1))
    styles = ["tuple", "list", "array"] + (["scalar"] if ndim == 1 else [])
    route = {"by": "n", "args": styles[int(rng.integers(len(styles)))]}
    integer = family.startswith("int")
    if integer:
        p1, p2 = _int_region(rng, ndim, n)
    elif family in ("cell_digits", "dec_n") or (family == "cell_band" and rng.uniform() < 0.3):
        p1, p2 = _dec_region(rng, ndim)
    else:
        p1, p2 = rand_region(rng, ndim)
    e = np.abs(np.array(p2, float) - np.array(p1, float))
    if family in ("cell_exact", "int_cell"):
        route.update(by="cell", cell=(e / np.array(n)).tolist())
    elif family in ("cell_band", "int_band", "region_band"):
        c = _band_cell(rng, e, n)
        if c is None:
            return None
        route.update(by="cell", cell=c)
    elif family == "cell_digits":
        c = _digits_cell(e, n, int(rng.integers(4, 9)))
        if c is None:
            return None
        route.update(by="cell", cell=c)
    if family.startswith("region"):
        route.update(region=True, dims=DIMS[ndim], tolerance_factor=float(10.0 ** rng.integers(-13, -9)))
        if rng.uniform() < 0.5:
            route["bc"] = DIMS[ndim][0]
    elif rng.uniform() < 0.25:
        route["bc"] = "xyzw"[int(rng.integers(min(ndim, 3)))] if ndim <= 3 else ""
    ops = _ops(rng, ndim, p1, float(np.max(e)), integer)
    if ops:
        route["ops"] = ops
    return {"p1": p1, "p2": p2, "n": n, "route": route}


# --- observe -> change in place -> observe again
# who performs the in-place change (`via`):
#   mesh          mesh.translate / scale / rotate90(inplace=True)
#   region        the Region object the mesh reports (mesh.region), changed in place
#   given         the Region object that was handed to the constructor (region= routes), changed in place
#   sibling       another Mesh built on the same Region object, changed in place (moves the shared region)
#   field         Field.rotate90(inplace=True) of a field living on the mesh
#   sibling_field Field.rotate90(inplace=True) of a field living on the sibling mesh
#   deepcopy      copy.deepcopy(mesh), the copy changed in place: the copy is on the new lattice, the original on the old one
#   copy          the copying form of the operation, then the copy is moved in place: same expectations
#   scribble      no geometric change: the arrays handed out by the previous observation are overwritten by the caller
VIAS = ("mesh", "region", "given", "sibling", "field", "sibling_field", "deepcopy", "copy", "scribble")
OBSERVER_NAMES = ("cell", "cells", "vertices", "coordinate_field", "index2point", "iteration", "len", "point2index")


def _one_op(rng, name, ndim, p1, s, integer):
    """one transformation [name, True, args...] (same layout as _ops)"""
    ref = None
    if rng.uniform() < 0.5:
        ref = [int(x) for x in rng.integers(-20, 21, size=ndim)] if integer and rng.uniform() < 0.5 else \
            (np.array(p1, float) + rng.uniform(-1, 2, size=ndim) * s).tolist()
    if name == "translate":
        v = [int(x) for x in rng.integers(-9, 10, size=ndim)] if integer and rng.uniform() < 0.5 else (rng.uniform(-2, 2, size=ndim) * s).tolist()
        return [name, True, v]
    if name == "scale":
        f = float(rng.uniform(0.3, 3)) if rng.uniform() < 0.4 else rng.uniform(0.3, 3, size=ndim).tolist()
        return [name, True, f, ref]
    a1, a2 = (int(x) for x in rng.choice(ndim, size=2, replace=False))
    return [name, True, a1, a2, int(rng.integers(1, 4)), ref]


def _valid_ops(via, ndim):
    if via == "scribble":
        return (None,)
    if via in ("field", "sibling_field"):
        return ("rotate90",) if ndim >= 2 else ()
    return ("translate", "scale") + (("rotate90",) if ndim >= 2 else ())


def _stateful_case(rng, ndim, via, opname):
    """a mesh (any construction route), what is observed first, and 1-3 steps each followed by a full observation"""
    fams = [f for f in FAMILIES if f.startswith("region")] if via == "given" or rng.uniform() < 0.3 else list(FAMILIES)
    pr = None
    for _ in range(8):
        pr = _route_case(rng, fams[int(rng.integers(len(fams)))], ndim, 6)
        if pr is not None:
            break
    if pr is None:
        return None
    pr["route"].pop("ops", None)
    integer = isinstance(pr["p1"][0], int)
    s = float(np.max(np.abs(np.array(pr["p2"], float) - np.array(pr["p1"], float))))

    def step(via, opname):
        st = {"via": via}
        if opname is not None:
            st["op"] = _one_op(rng, opname, ndim, pr["p1"], s, integer)
        if via in ("sibling", "sibling_field"):
            st["n2"] = rng.integers(1, 5, size=ndim).tolist()
        if via in ("field", "sibling_field"):
            st["nvdim"] = ndim if rng.uniform() < 0.5 else 1
        return st

    steps = [step(via, opname)]
    for _ in range(int(rng.integers(0, 3))):
        v = VIAS[int(rng.integers(len(VIAS)))]
        if v == "given" and not pr["route"].get("region"):
            v = "region"
        names = _valid_ops(v, ndim)
        if names:
            steps.append(step(v, names[int(rng.integers(len(names)))]))
    # what has been looked at before the first change: everything (checked), or only a few observers in some order (unchecked)
    first = "all"
    if rng.uniform() < 0.35:
        k = int(rng.integers(1, 4))
        first = [OBSERVER_NAMES[int(i)] for i in rng.choice(len(OBSERVER_NAMES), size=k, replace=False)]
    return dict(pr, steps=steps, first=first, seed=int(rng.integers(1 << 30)))


def cases(ctx):
    rng = ctx.rng
    nmax = 12 if ctx.tier == "quick" else 24
    reps = 6 if ctx.tier == "quick" else 40
    for ndim in (1, 2, 3, 4):
        for _ in range(reps):
            p1, p2 = rand_region(rng, ndim)
            hi = nmax if ndim <= 2 else (6 if ndim == 3 else 4)
            n = rng.integers(1, hi + 1, size=ndim).tolist()
            yield "lattice", {"p1": p1, "p2": p2, "n": n}
            yield "probe", {"p1": p1, "p2": p2, "n": n, "seed": int(rng.integers(1 << 30))}
            yield "by_cell", {"p1": p1, "p2": p2, "n": n, "frac": float(rng.uniform(0.05, 0.95)), "axis": int(rng.integers(ndim)),
                              "near": float(10.0 ** rng.uniform(np.log10(0.003), np.log10(0.05))) * (1 if rng.uniform() < 0.5 else -1)}
    # construction routes x histories: every family in every dimension
    rreps = 3 if ctx.tier == "quick" else 40
    for ndim in (1, 2, 3, 4):
        for family in FAMILIES * rreps:
            pr = None
            for _ in range(8):
                pr = _route_case(rng, family, ndim, nmax)
                if pr is not None:
                    break
            if pr is None:
                continue
            yield "lattice", pr
            yield "probe", dict(pr, seed=int(rng.integers(1 << 30)))
    # observe -> change in place -> observe again: every way of changing the lattice x every operation, in every dimension
    sreps = 2 if ctx.tier == "quick" else 20
    for ndim in (1, 2, 3, 4):
        for via in VIAS * sreps:
            for opname in _valid_ops(via, ndim):
                pr = _stateful_case(rng, ndim, via, opname)
                if pr is not None:
                    yield "stateful", pr
    yield "stateful", {"p1": [0, 0, 0], "p2": [10, 6, 4], "n": [5, 2, 2], "first": "all", "seed": 3, "steps": [
        {"via": "mesh", "op": ["rotate90", True, 0, 1, 1, None]}, {"via": "scribble"},
        {"via": "field", "nvdim": 3, "op": ["rotate90", True, 1, 2, 3, [0, 0, 0]]}, {"via": "mesh", "op": ["translate", True, [1, 2, 3]]}]}
    yield "stateful", {"p1": [0.0, 0.0], "p2": [8.0, 3.0], "n": [4, 3], "route": {"region": True, "dims": ["x", "y"]}, "first": ["cells"],
                       "seed": 4, "steps": [{"via": "given", "op": ["translate", True, [100.0, -50.0]]},
                                            {"via": "sibling", "n2": [2, 5], "op": ["rotate90", True, 0, 1, 1, None]},
                                            {"via": "region", "op": ["scale", True, [2.0, 0.5], None]}]}
    # fixed corner cases
    yield "lattice", {"p1": [0.0], "p2": [1.0], "n": [1]}
    yield "lattice", {"p1": [-1e-9, 5e-9, 0.0], "p2": [1e-9, -5e-9, 3e-9], "n": [4, 5, 3]}
    yield "probe", {"p1": [0.1, 0.2], "p2": [0.7, 1.1], "n": [6, 9], "seed": 1}
    # typical user input: a third / a seventh of a round edge length written with four or five digits
    fixed = [
        {"p1": [0.0], "p2": [100e-9], "n": [3], "route": {"by": "cell", "cell": [33.33e-9], "args": "scalar"}},
        {"p1": [0, 0, 0], "p2": [100e-9, 70e-9, 10e-9], "n": [3, 3, 1],
         "route": {"by": "cell", "cell": [33.333e-9, 23.333e-9, 10e-9], "args": "tuple"}},
        {"p1": [0.0, 0.0], "p2": [1.0, 0.7], "n": [3, 2],
         "route": {"by": "cell", "cell": [0.3333, 0.35], "args": "list", "ops": [["translate", True, [0.25, -3.0]]]}},
        {"p1": [10, -3], "p2": [0, 4], "n": [3, 7],
         "route": {"by": "cell", "cell": [3.3334, 1.0], "args": "array", "ops": [["rscale", True, 2.0, None], ["rotate90", True, 0, 1, 1, [1, 1]]]}},
        {"p1": [0, 0, 0], "p2": [20, 10, 5], "n": [7, 3, 5],
         "route": {"by": "cell", "cell": [2.8571, 3.3333, 1], "args": "tuple", "ops": [["translate", False, [1, 2, 3]]]}},
    ]
    for pr in fixed:
        yield "lattice", pr
        yield "probe", dict(pr, seed=7)


# ------------------------------------------------------------------------------------------ building a mesh along a route
def _arg(style, values):
    values = list(values)
    if style == "array":
        return np.array(values)
    if style == "list":
        return values
    if style == "scalar" and len(values) == 1:
        return values[0]
    return tuple(values)


def _build(pr, ctx):
    """-> (mesh, oracle state {min, max, n, mag}, the Region object given to the constructor or None), or None when the
    constructor refused a legitimate request (already reported)."""
    rt = pr.get("route") or {}
    p1, p2, n = pr["p1"], pr["p2"], [int(k) for k in pr["n"]]
    ndim = len(n)
    style = rt.get("args", "tuple")
    a1, a2 = _arg(style, p1), _arg(style, p2)
    passed = [a1, a2]
    kw = {}
    if rt.get("region"):
        kw["region"] = df.Region(p1=a1, p2=a2, dims=rt.get("dims"), tolerance_factor=rt.get("tolerance_factor", 1e-12))
    else:
        kw.update(p1=a1, p2=a2)
    if rt.get("by", "n") == "n":
        kw["n"] = _arg(style, n)
        passed.append(kw["n"])
    else:
        kw["cell"] = _arg(style, [float(c) if not isinstance(c, int) else c for c in rt["cell"]])
        passed.append(kw["cell"])
    if rt.get("bc"):
        kw["bc"] = rt["bc"]
    r, mesh = raises(ValueError, df.Mesh, **kw)
    if rt.get("by", "n") == "cell":
        ctx.require(not r, "C01.cell_request", "cell size inside the acceptance band (or exact) rejected", sig="in-band-cell-rejected",
                    cell=rt["cell"], error=repr(mesh) if r else None)
        if r:
            return None
        ctx.require(np.array_equal(mesh.n, n), "C01.cell_request", "n is not round(edges/cell)", got=mesh.n, want=n)
    elif r:
        raise mesh
    pmin = np.minimum(np.array(p1), np.array(p2))
    pmax = np.maximum(np.array(p1), np.array(p2))
    ctx.require(np.array_equal(mesh.region.pmin, pmin) and np.array_equal(mesh.region.pmax, pmax), "C01.cell_size",
                "region corners are not min/max of the given corners")
    if style == "array":
        # the caller's arrays are his own: scribbling over them must not reach the mesh
        before = (np.array(mesh.n), np.array(mesh.cell), np.array(mesh.region.pmin), np.array(mesh.region.pmax))
        for arr in passed:
            arr *= 3
            arr += 1
        after = (mesh.n, mesh.cell, mesh.region.pmin, mesh.region.pmax)
        ctx.require(all(np.array_equal(x, y) for x, y in zip(before, after)), "C01.history",
                    "the mesh changes when the arrays passed to its constructor are modified", sig="constructor-argument-aliased")
    ops = rt.get("ops") or []
    st = {"min": pmin.astype(float), "max": pmax.astype(float), "n": list(n)}
    st["mag"] = np.maximum(np.abs(st["min"]), np.abs(st["max"]))   # largest operand seen: the scale of the accumulated rounding
    for op in ops:
        name, inplace = op[0], bool(op[1])
        res = _lib_call(mesh.region if name in ("rtranslate", "rscale") else mesh, op, inplace)
        if name in ("rtranslate", "rscale"):
            res = mesh
        st = _oracle_step(op, st)
        if inplace:
            ctx.require(res is mesh, "C01.history", "in-place %s does not return the mesh itself" % name)
        mesh = res
    if ops:
        _corners_and_n(mesh, st, ctx, ops=ops)
    return mesh, st, kw.get("region")


def build(pr, ctx):
    """-> (mesh, n_expected) or None when the constructor refused a legitimate request (already reported)."""
    built = _build(pr, ctx)
    return None if built is None else (built[0], built[1]["n"])


def _corners_and_n(mesh, st, ctx, **detail):
    ok = ctx.require(np.array_equal(mesh.n, st["n"]), "C01.history", "n after the transformations", got=mesh.n, want=st["n"], **detail)
    ok &= ctx.require(ulp_close(mesh.region.pmin, st["min"], 64, st["mag"]) and ulp_close(mesh.region.pmax, st["max"], 64, st["mag"]),
                      "C01.history", "region corners after the transformations", got=[mesh.region.pmin, mesh.region.pmax],
                      want=[st["min"], st["max"]], **detail)
    return ok


_METHOD = {"translate": "translate", "rtranslate": "translate", "scale": "scale", "rscale": "scale", "rotate90": "rotate90"}


def _lib_call(target, op, inplace):
    """the REAL transformation `op` = [name, _, args...] on a Mesh or a Region (same signatures)"""
    name = _METHOD[op[0]]
    if name == "translate":
        return target.translate(tuple(op[2]), inplace=inplace)
    if name == "scale":
        f, ref = op[2], (op[3] if len(op) > 3 else None)
        kw = {} if ref is None else {"reference_point": tuple(ref)}
        return target.scale(f if isinstance(f, (int, float)) else tuple(f), inplace=inplace, **kw)
    dims = target.dims if isinstance(target, df.Region) else (target.mesh if isinstance(target, df.Field) else target).region.dims
    ref = op[5] if len(op) > 5 else None
    kw = {} if ref is None else {"reference_point": tuple(ref)}
    return target.rotate90(dims[int(op[2])], dims[int(op[3])], k=int(op[4]), inplace=inplace, **kw)


def _oracle_step(op, st, swap_n=True):
    """the independent oracle of one transformation: corners, n and the scale of the accumulated rounding after `op`.
    swap_n: a quarter turn of the mesh exchanges its cell counts; a quarter turn of its Region object alone does not."""
    name = _METHOD[op[0]]
    E_min, E_max, E_n, mag = st["min"], st["max"], list(st["n"]), st["mag"].copy()
    ndim = len(E_n)
    if name == "translate":
        v = np.array(op[2], float)
        E_min, E_max = E_min + v, E_max + v
        mag = np.maximum(mag, np.abs(v))
    elif name == "scale":
        f, ref = op[2], (op[3] if len(op) > 3 else None)
        c = (E_min + E_max) / 2 if ref is None else np.array(ref, float)
        fv = np.array(f, float) * np.ones(ndim)
        mag = np.maximum(mag, np.maximum(np.abs(c), np.maximum(np.abs(c - E_min), np.abs(E_max - c)) * np.maximum(fv, 1)))
        E_min, E_max = c - (c - E_min) * fv, c + (E_max - c) * fv
    else:
        i, j, k = int(op[2]), int(op[3]), int(op[4])
        ref = op[5] if len(op) > 5 else None
        c = (E_min + E_max) / 2 if ref is None else np.array(ref, float)
        mag = np.maximum(mag, np.abs(c))
        mag[i] = mag[j] = max(mag[i], mag[j], abs(c[i] - E_min[i]), abs(c[i] - E_max[i]), abs(c[j] - E_min[j]), abs(c[j] - E_max[j]))
        corners = []
        for q in (E_min, E_max):       # k exact quarter turns of a corner about c in the (i, j) plane: (dx, dy) -> (-dy, dx)
            q = q.copy()
            dx, dy = q[i] - c[i], q[j] - c[j]
            for _ in range(k % 4):
                dx, dy = -dy, dx
            q[i], q[j] = c[i] + dx, c[j] + dy
            corners.append(q)
        E_min, E_max = np.minimum(*corners), np.maximum(*corners)
        if k % 2 == 1 and swap_n:
            E_n[i], E_n[j] = E_n[j], E_n[i]
    mag = np.maximum(mag, np.maximum(np.abs(E_min), np.abs(E_max)))
    return {"min": E_min, "max": E_max, "n": E_n, "mag": mag}


# ------------------------------------------------------------------------------------------ clauses
def check(kind, pr, ctx):
    if kind == "by_cell":
        return check_by_cell(pr, ctx)
    if kind == "stateful":
        return check_stateful(pr, ctx)
    built = build(pr, ctx)
    if built is None:
        return
    mesh, n = built
    if int(np.prod(n)) == 1:
        ctx.trivial()
    if kind == "lattice":
        check_lattice(mesh, n, ctx)
    elif kind == "probe":
        check_probe(mesh, n, pr["seed"], ctx, kind)


def _frame(mesh, n):
    """the lattice the property talks about: the region the mesh is on, divided into n cells per direction"""
    pmin, pmax = np.asarray(mesh.region.pmin, float), np.asarray(mesh.region.pmax, float)
    return pmin, pmax, (pmax - pmin) / np.array(n), np.maximum(np.abs(pmin), np.abs(pmax))


def check_lattice(mesh, n, ctx):
    """every description of the lattice the mesh offers, against pmin + (i+1/2)*(pmax-pmin)/n"""
    ndim = len(n)
    pmin, pmax, cell, scale = _frame(mesh, n)
    ctx.require(ulp_close(mesh.cell, cell, 4), "C01.cell_size", "cell != edges/n", got=mesh.cell, want=cell)
    ctx.require(len(mesh) == int(np.prod(n)), "C01.len_order", "len(mesh) != prod(n)")
    idxs = list(mesh.indices)
    pts = list(mesh)
    want = [tuple(reversed(t)) for t in itertools.product(*[range(k) for k in reversed(n)])]
    ctx.require(idxs == want, "C01.len_order", "indices not in first-dimension-fastest order")
    ok_c = ok_rt = ok_it = True
    bad_c = None
    for i, pt in zip(idxs, pts):
        c = mesh.index2point(i)
        if not ulp_close(c, pmin + (np.array(i) + 0.5) * cell, 8, scale):
            ok_c, bad_c = False, bad_c or (list(i), np.asarray(c).tolist(), (pmin + (np.array(i) + 0.5) * cell).tolist())
        ok_it &= bool(np.array_equal(np.asarray(c), np.asarray(pt)))
        ok_rt &= mesh.point2index(c) == tuple(i)
    ctx.require(ok_c, "C01.centre", "index2point differs from pmin+(i+1/2)*cell", index_got_want=bad_c)
    ctx.require(ok_it and len(pts) == len(idxs), "C01.len_order", "iteration over the mesh does not yield index2point(indices[k])")
    ctx.require(ok_rt, "C01.roundtrip", "point2index(index2point(i)) != i")
    for j, d in enumerate(mesh.region.dims):
        cj, vj = getattr(mesh.cells, d), getattr(mesh.vertices, d)
        oklen = ctx.require(len(cj) == n[j] and len(vj) == n[j] + 1, "C01.cells_vertices", "wrong number of centres/vertices",
                            axis=j, got=[len(cj), len(vj)], n=n[j])
        ctx.require(oklen and ulp_close(cj, pmin[j] + (np.arange(n[j]) + 0.5) * cell[j], 8, scale[j])
                    and ulp_close(vj, pmin[j] + np.arange(n[j] + 1) * cell[j], 8, scale[j]), "C01.cells_vertices",
                    "per-axis centres/vertices differ from the lattice", axis=j, cells=cj, vertices=vj,
                    want_first_centre=pmin[j] + 0.5 * cell[j], cell=cell[j])
    if int(np.prod(n)) <= 4096:
        r, cf = raises(Exception, mesh.coordinate_field)       # a valid mesh always has a coordinate field
        okcf = not r and cf.array.shape == (*n, ndim) and all(
            np.array_equal(cf.array[tuple(i)], np.asarray(mesh.index2point(i))) or ulp_close(cf.array[tuple(i)], mesh.index2point(i), 4, scale)
            for i in idxs)
        ctx.require(okcf, "C01.coordinate_field", "coordinate_field does not hold the cell centres", error=repr(cf) if r else None)
    bad_hi = raises(IndexError, mesh.index2point, tuple(n))[0] and raises(IndexError, mesh.index2point, tuple([-1] * ndim))[0]
    one = [0] * ndim
    one[-1] = n[-1]
    bad_hi &= raises(IndexError, mesh.index2point, tuple(one))[0]
    ctx.require(bad_hi, "C01.reject_outside", "out-of-range index accepted")
    check_tiling(mesh, n, pmin, pmax, scale, ctx)


def check_probe(mesh, n, seed, ctx, kind="probe"):
    """point -> index at random points, at the corners, on and around every face, and outside"""
    ndim = len(n)
    pmin, pmax, cell, scale = _frame(mesh, n)
    rng = np.random.default_rng(seed)
    tol = np.min(pmax - pmin) * mesh.region.tolerance_factor + mesh.region.tolerance_factor * scale
    slack = 4 * np.spacing(scale) + tol
    own_cell = np.asarray(mesh.cell, float)
    okc = okf = okr = okown = oknear = True
    detail = near_detail = own_detail = None

    def own_box_contains(p, k):
        # the cell as the mesh itself describes it: centre index2point(k), size mesh.cell
        c = np.asarray(mesh.index2point(tuple(int(x) for x in k)), float)
        return bool(np.all(p >= c - own_cell / 2 - 2 * slack) and np.all(p <= c + own_cell / 2 + 2 * slack))

    probes = [pmin + rng.uniform(0, 1, ndim) * (pmax - pmin) for _ in range(40)]
    probes += [np.array(mesh.region.pmin, float), np.array(mesh.region.pmax, float)]
    for p in probes:
        # random interior points and the two corners
        k = np.array(mesh.point2index(p))
        inr = np.all((k >= 0) & (k < n))
        lo, hi = pmin + k * cell, pmin + (k + 1) * cell
        if not (inr and np.all(p >= lo - slack) and np.all(p <= hi + slack)):
            okc = False
            detail = (p.tolist(), k.tolist())
        elif not own_box_contains(p, k):
            okown = False
            own_detail = (p.tolist(), k.tolist())
    kmin, kmax = mesh.point2index(np.array(mesh.region.pmin)), mesh.point2index(np.array(mesh.region.pmax))
    ctx.require(kmin == tuple([0] * ndim) and kmax == tuple(k - 1 for k in n), "C01.face_lower_inclusive",
                "pmin / pmax do not map to the first / last cell", got=[kmin, kmax])
    # faces: vertex j of axis a -> cell j (lower face inclusive), the neighbouring cell is accepted only when the vertex lies within rounding (8 ulp of the coordinate scale) of the face
    for a in range(ndim):
        verts = pmin[a] + np.arange(n[a] + 1) * cell[a]      # oracle faces
        verts[-1] = pmax[a]
        for j, v in enumerate(verts):
            p = np.array(mesh.region.center, float)
            p[a] = v
            k = mesh.point2index(p)[a]
            want = min(j, n[a] - 1)
            if k != want:
                # rounding: accept the neighbour only if the computed quotient is within 2 ulp of the integer j
                qv = (v - pmin[a]) / cell[a]
                if not (abs(qv - j) <= 8 * np.spacing(scale[a]) / cell[a] + 8 * np.spacing(max(j, 1.0)) and abs(k - want) == 1):
                    okf = False
                    detail = (a, j, k)
            # strictly inside a cell, close to its face: no tolerance and no rounding can move the point to the neighbour
            for eps in (1e-9, 1e-6, 1e-3):
                d = eps * cell[a]
                if d <= 4 * tol[a] + 64 * np.spacing(scale[a]):
                    continue
                for sgn, wantk in ((1, j), (-1, j - 1)):
                    if not 0 <= wantk < n[a]:
                        continue
                    p[a] = v + sgn * d
                    k = mesh.point2index(p)
                    if k[a] != wantk:
                        oknear = False
                        near_detail = (a, j, sgn * eps, k[a], wantk)
                    elif not own_box_contains(p, k):
                        okown = False
                        own_detail = (p.tolist(), list(k))
    # outside by more than the tolerance
    for a in range(ndim):
        for side in (-1, 1):
            p = np.array(mesh.region.center, float)
            p[a] = (pmin[a] - 1e-3 * (pmax[a] - pmin[a]) - 10 * tol[a]) if side < 0 else (pmax[a] + 1e-3 * (pmax[a] - pmin[a]) + 10 * tol[a])
            okr &= raises(ValueError, mesh.point2index, p)[0]
    ctx.require(okc, "C01.containing_cell", "point maps to a cell that does not contain it", detail=detail)
    ctx.require(oknear, "C01.containing_cell", "point strictly inside a cell (eps*cell from its face) maps to the neighbouring cell",
                sig=kind + ":near-face", axis_vertex_eps_got_want=near_detail)
    ctx.require(okown, "C01.containing_cell", "the cell as described by index2point(k) +- mesh.cell/2 does not contain the point mapped to k",
                sig=kind + ":own-cell", point_index=own_detail)
    ctx.require(okf, "C01.face_lower_inclusive", "vertex coordinate not mapped to the cell above it", detail=detail)
    ctx.require(okr, "C01.reject_outside", "point outside the region accepted")


def check_tiling(mesh, n, pmin, pmax, scale, ctx):
    """consistency of the mesh's OWN observers: together they must tile the region exactly once"""
    ndim = len(n)
    own = np.asarray(mesh.cell, float)
    ctx.require(ulp_close(own * np.array(n), pmax - pmin, 4), "C01.tiling", "n*cell != edges", got=own * np.array(n), want=pmax - pmin)
    first = np.asarray(mesh.index2point(tuple([0] * ndim)), float)
    last = np.asarray(mesh.index2point(tuple(k - 1 for k in n)), float)
    ctx.require(ulp_close(first - own / 2, pmin, 8, scale), "C01.tiling", "lower face of the first cell is not pmin", got=first - own / 2, want=pmin)
    ctx.require(ulp_close(last + own / 2, pmax, 8, scale), "C01.tiling", "upper face of the last cell is not pmax", got=last + own / 2, want=pmax)
    for j, d in enumerate(mesh.region.dims):
        line = []
        for k in range(n[j]):
            i = [0] * ndim
            i[j] = k
            line.append(float(mesh.index2point(tuple(i))[j]))
        line = np.array(line)
        cj, vj = np.asarray(getattr(mesh.cells, d), float), np.asarray(getattr(mesh.vertices, d), float)
        ok = len(cj) == n[j] and len(vj) == n[j] + 1
        ok = ok and ulp_close(np.diff(line), own[j], 16, scale[j])                     # neighbours are one cell apart
        ok = ok and ulp_close(cj, line, 8, scale[j])                                   # per-axis centres == index2point
        ok = ok and ulp_close((vj[:-1] + vj[1:]) / 2, line, 8, scale[j])               # vertex midpoints == centres
        ok = ok and ulp_close(np.diff(vj), own[j], 16, scale[j])                       # vertices are one cell apart
        ok = ok and ulp_close(vj[0], pmin[j], 2, scale[j]) and ulp_close(vj[-1], pmax[j], 2, scale[j])
        ctx.require(ok, "C01.tiling", "index2point / cells / vertices / cell disagree along an axis", axis=j,
                    index2point=line, cells=cj, vertices=vj, cell=own[j])


# ------------------------------------------------------------------------------------------ observe, change in place, observe again
def _grab(mesh, names):
    """call the named observers; -> the arrays they handed out (for the caller to keep / overwrite)"""
    got = []
    for name in names:
        if name == "cell":
            got.append(mesh.cell)
        elif name == "cells":
            got.extend(mesh.cells)
        elif name == "vertices":
            got.extend(mesh.vertices)
        elif name == "coordinate_field":
            got.append(mesh.coordinate_field().array)
        elif name == "index2point":
            got.extend(mesh.index2point(i) for i in mesh.indices)
        elif name == "iteration":
            got.extend(mesh)
        elif name == "len":
            len(mesh)
        elif name == "point2index":
            mesh.point2index(mesh.region.center)
            mesh.point2index(np.array(mesh.region.pmin))
    return [a for a in got if isinstance(a, np.ndarray)]


def _field(mesh, step):
    nv = int(step.get("nvdim", 1))
    return df.Field(mesh, nvdim=nv, value=2.0 if nv == 1 else tuple(float(c) for c in range(1, nv + 1)))


def _observe(mesh, st, ctx, after, sig):
    """all descriptions of the lattice against the oracle state; one summary clause per observation"""
    before = len(ctx.violations)
    _corners_and_n(mesh, st, ctx, after=after)
    try:
        check_lattice(mesh, st["n"], ctx)
    except Exception as e:          # the same observers do not raise on a fresh mesh (kind "lattice")
        ctx.require(False, "C01.reobserve", "an observer raised", sig=sig + ":raised", error=repr(e), after=after)
    failed = sorted({v["clause"] for v in ctx.violations[before:]})
    return ctx.require(not failed, "C01.reobserve", "descriptions observed after the step do not describe the current lattice",
                       sig=sig, after=after, failed=failed, n=st["n"], pmin=st["min"], pmax=st["max"])


def check_stateful(pr, ctx):
    import copy
    built = _build(pr, ctx)
    if built is None:
        return
    mesh, st, given = built
    ndim = len(st["n"])
    if int(np.prod(st["n"])) == 1:
        ctx.trivial()
    first = pr.get("first", "all")
    if first == "all":
        if not _observe(mesh, st, ctx, "construction", "fresh"):
            return
        held = _grab(mesh, OBSERVER_NAMES)
    else:
        held = _grab(mesh, first)
    old_centres = [np.asarray(mesh.index2point(i), float) for i in mesh.indices]
    siblings = []                                 # kept alive: other meshes / fields on the same Region object
    for k, step in enumerate(pr["steps"]):
        via, op = step["via"], step.get("op")
        after = "step %d: %s %s" % (k, via, op)
        sig = "after:%s:%s" % (via, op[0] if op else "-")
        if via == "scribble":
            for a in held:
                if a.flags.writeable:
                    a[...] = a * -3 + 1
        elif via == "mesh":
            res = _lib_call(mesh, op, True)
            ctx.require(res is mesh, "C01.history", "in-place %s does not return the mesh itself" % op[0])
            st = _oracle_step(op, st)
        elif via in ("region", "given"):
            target = given if via == "given" and given is not None else mesh.region
            _lib_call(target, op, True)
            st = _oracle_step(op, st, swap_n=False)
        elif via in ("sibling", "sibling_field"):
            sib = df.Mesh(region=mesh.region, n=tuple(int(x) for x in step["n2"]))
            siblings.append(sib)
            if via == "sibling":
                _lib_call(sib, op, True)
            else:
                fld = _field(sib, step)
                siblings.append(fld)
                _lib_call(fld, op, True)
            st = _oracle_step(op, st, swap_n=False)
        elif via == "field":
            fld = _field(mesh, step)
            siblings.append(fld)
            res = _lib_call(fld, op, True)
            ctx.require(res is fld and fld.mesh is mesh and fld.array.shape == (*mesh.n, fld.nvdim), "C01.history",
                        "Field.rotate90(inplace=True): not the same field on the same mesh with one value per cell")
            st = _oracle_step(op, st)
        elif via in ("deepcopy", "copy"):
            if via == "deepcopy":
                other = copy.deepcopy(mesh)
                _lib_call(other, op, True)
            else:
                other = _lib_call(mesh, op, False)
            ctx.require(other is not mesh and other.region is not mesh.region, "C01.history", "a copy shares the mesh or its Region object")
            st2 = _oracle_step(op, st)
            _observe(other, st2, ctx, after + " (the copy)", sig + ":copy")
            if via == "copy":        # the copy is an object of its own: moving it in place must not move the original
                shift = ["translate", True, ((st2["max"] - st2["min"]) * 1.5).tolist()]
                _lib_call(other, shift, True)
                _observe(other, _oracle_step(shift, st2), ctx, after + " (the copy, moved in place)", sig + ":copy-moved")
        else:
            raise ValueError("unknown via %r" % (via,))
        # the mesh under observation: everything it says must describe the one current lattice
        if not _observe(mesh, st, ctx, after, sig):
            return                  # reported; whatever follows would only repeat it under another step's name
        held = _grab(mesh, OBSERVER_NAMES)
    # points: the containment / floor machinery on the final lattice, and the centres of the very first lattice
    check_probe(mesh, st["n"], pr["seed"], ctx, "stateful")
    pmin, pmax, cell, scale = _frame(mesh, st["n"])
    tol = np.min(pmax - pmin) * mesh.region.tolerance_factor + mesh.region.tolerance_factor * scale
    margin = 10 * tol + 64 * np.spacing(scale)
    ok_old, bad = True, None
    for p in old_centres:
        inside = bool(np.all(p >= pmin + margin) and np.all(p <= pmax - margin))
        outside = bool(np.any(p < pmin - margin) or np.any(p > pmax + margin))
        r, kk = raises(ValueError, mesh.point2index, p)
        if outside and not r:
            ok_old, bad = False, (p.tolist(), "accepted", list(kk))
        elif inside:
            q = (p - pmin) / cell
            if r or not np.all((np.array(kk) >= 0) & (np.array(kk) < st["n"]) & (np.abs(q - np.array(kk) - 0.5) <= 0.5 + 1e-6)):
                ok_old, bad = False, (p.tolist(), repr(kk) if r else list(kk))
    ctx.require(ok_old, "C01.reobserve", "a centre of the lattice observed first is not located on the current lattice "
                "(inside: the containing cell; outside: rejected)", sig="old-centres", detail=bad)


def check_by_cell(pr, ctx):
    p1, p2, n = np.array(pr["p1"]), np.array(pr["p2"]), np.array(pr["n"])
    pmin, pmax = np.minimum(p1, p2), np.maximum(p1, p2)
    cell = (pmax - pmin) / n
    r, m = raises(ValueError, df.Mesh, p1=tuple(p1), p2=tuple(p2), cell=tuple(cell))
    ctx.require(not r and np.array_equal(m.n, n), "C01.cell_request", "commensurate cell size rejected or wrong n",
                got=None if r else m.n, want=n)
    # incommensurate: stretch one cell so that the remainder is frac of a cell (needs >= 1 full cell)
    a, frac = pr["axis"], pr["frac"]
    bad = cell.copy()
    bad[a] = (pmax[a] - pmin[a]) / (n[a] + frac)
    r2, _ = raises(ValueError, df.Mesh, p1=tuple(p1), p2=tuple(p2), cell=tuple(bad))
    ctx.require(r2, "C01.cell_request", "cell size leaving a remainder of %.2f cell accepted" % frac)
    big = cell.copy()
    big[a] = (pmax[a] - pmin[a]) * 1.5
    r3, _ = raises(ValueError, df.Mesh, p1=tuple(p1), p2=tuple(p2), cell=tuple(big))
    ctx.require(r3, "C01.cell_request", "cell larger than the region accepted")
    near = pr.get("near")
    if near:
        # n cells leave over (near > 0) or overshoot by (near < 0) |near| * smallest cell: 3 .. 50 times the acceptance band
        nb = cell.copy()
        nb[a] = (pmax[a] - pmin[a] - near * np.min(cell)) / n[a]
        r4, _ = raises(ValueError, df.Mesh, p1=tuple(p1), p2=tuple(p2), cell=tuple(nb))
        ctx.require(r4, "C01.cell_request", "cell size whose multiple misses the edge by %.4f of the smallest cell accepted" % near,
                    sig="by_cell:near-band")
