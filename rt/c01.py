"""C01 bounded run-time tier: the C01 contract clauses evaluated on the real code with doubles.
Bounded: seeded regions at scales 1e-12..1e6, meshes <= 12 cells/axis (quick) / 24 (thorough)."""
import itertools
import numpy as np
import discretisedfield as df
from .common import raises, ulp_close, rand_region

PROPERTY = "C01"
CLAUSES = {
    "C01.cell_size": "cell == edges/n",
    "C01.centre": "index2point(i) == pmin + (i+1/2)*cell (to rounding)",
    "C01.roundtrip": "point2index(index2point(i)) == i for every cell",
    "C01.len_order": "len == prod(n); iteration and indices are first-dimension-fastest and agree with index2point",
    "C01.cells_vertices": "cells[j][k] == pmin_j+(k+1/2)cell_j ; vertices[j][k] == pmin_j+k*cell_j ; lengths n, n+1",
    "C01.coordinate_field": "coordinate_field.array[idx] == index2point(idx)",
    "C01.containing_cell": "a point of the region maps to an in-range index whose (closed) cell contains it up to the tolerance",
    "C01.face_lower_inclusive": "a point exactly on an interior face belongs to the upper cell (lower face inclusive) up to 1 ulp of rounding; pmax belongs to the last cell",
    "C01.reject_outside": "points / indices outside the region are rejected (ValueError / IndexError)",
    "C01.cell_request": "a mesh requested by cell size exists when edges are a whole number of cells (n = edges/cell) and is rejected when the remainder is clearly inside (5%..95% of a cell)",
}
RULE = ("seeded random regions (scale 10^U(-12,6), non-representable offsets, either corner order) x cell counts; "
        "every index of every mesh; probe points at centres, on all faces, +-1ulp around faces, outside by > tolerance; "
        "non-trivial = more than one cell in total; distinct by (kind, params)")
ASSUMPTIONS = ["bounded: meshes of at most 24 cells per axis, 4 dimensions, seeded sample of geometry"]


def cases(ctx):
    rng = ctx.rng
    nmax = 12 if ctx.tier == "quick" else 24
    reps = 6 if ctx.tier == "quick" else 40
    for ndim in (1, 2, 3, 4):
        for _ in range(reps):
            p1, p2 = rand_region(rng, ndim)
            hi = nmax if ndim <= 2 else (6 if ndim == 3 else 4)
            n = rng.integers(1, hi + 1, size=ndim).tolist()
            yield "lattice", {"p1": p1, "p2": p2, "n": n}
            yield "probe", {"p1": p1, "p2": p2, "n": n, "seed": int(rng.integers(1 << 30))}
            yield "by_cell", {"p1": p1, "p2": p2, "n": n, "frac": float(rng.uniform(0.05, 0.95)), "axis": int(rng.integers(ndim))}
    # fixed corner cases
    yield "lattice", {"p1": [0.0], "p2": [1.0], "n": [1]}
    yield "lattice", {"p1": [-1e-9, 5e-9, 0.0], "p2": [1e-9, -5e-9, 3e-9], "n": [4, 5, 3]}
    yield "probe", {"p1": [0.1, 0.2], "p2": [0.7, 1.1], "n": [6, 9], "seed": 1}


def check(kind, pr, ctx):
    p1, p2, n = np.array(pr["p1"]), np.array(pr["p2"]), list(pr["n"])
    ndim = len(n)
    if kind == "by_cell":
        return check_by_cell(pr, ctx)
    mesh = df.Mesh(p1=tuple(p1), p2=tuple(p2), n=tuple(n))
    pmin, pmax = np.minimum(p1, p2), np.maximum(p1, p2)
    cell = (pmax - pmin) / np.array(n)
    scale = np.maximum(np.abs(pmin), np.abs(pmax))
    if int(np.prod(n)) == 1:
        ctx.trivial()
    if kind == "lattice":
        ctx.require(ulp_close(mesh.cell, cell, 4), "C01.cell_size", "cell != edges/n", got=mesh.cell, want=cell)
        ctx.require(np.array_equal(mesh.region.pmin, pmin) and np.array_equal(mesh.region.pmax, pmax), "C01.cell_size",
                    "region corners are not min/max of the given corners")
        ctx.require(len(mesh) == int(np.prod(n)), "C01.len_order", "len(mesh) != prod(n)")
        idxs = list(mesh.indices)
        pts = list(mesh)
        want = [tuple(reversed(t)) for t in itertools.product(*[range(k) for k in reversed(n)])]
        ctx.require(idxs == want, "C01.len_order", "indices not in first-dimension-fastest order")
        ok_c = ok_rt = ok_it = True
        for i, pt in zip(idxs, pts):
            c = mesh.index2point(i)
            ok_c &= ulp_close(c, pmin + (np.array(i) + 0.5) * cell, 8, scale)
            ok_it &= bool(np.array_equal(np.asarray(c), np.asarray(pt)))
            ok_rt &= mesh.point2index(c) == tuple(i)
        ctx.require(ok_c, "C01.centre", "index2point differs from pmin+(i+1/2)*cell")
        ctx.require(ok_it and len(pts) == len(idxs), "C01.len_order", "iteration over the mesh does not yield index2point(indices[k])")
        ctx.require(ok_rt, "C01.roundtrip", "point2index(index2point(i)) != i")
        for j, d in enumerate(mesh.region.dims):
            cj, vj = getattr(mesh.cells, d), getattr(mesh.vertices, d)
            ctx.require(len(cj) == n[j] and len(vj) == n[j] + 1, "C01.cells_vertices", "wrong number of centres/vertices")
            ctx.require(ulp_close(cj, pmin[j] + (np.arange(n[j]) + 0.5) * cell[j], 8, scale[j])
                        and ulp_close(vj, pmin[j] + np.arange(n[j] + 1) * cell[j], 8, scale[j]), "C01.cells_vertices",
                        "per-axis centres/vertices differ from the lattice", axis=j)
        if int(np.prod(n)) <= 4096:
            cf = mesh.coordinate_field()
            okcf = cf.array.shape == (*n, ndim) and all(
                np.array_equal(cf.array[tuple(i)], np.asarray(mesh.index2point(i))) or ulp_close(cf.array[tuple(i)], mesh.index2point(i), 4, scale)
                for i in idxs)
            ctx.require(okcf, "C01.coordinate_field", "coordinate_field does not hold the cell centres")
        bad_hi = raises(IndexError, mesh.index2point, tuple(n))[0] and raises(IndexError, mesh.index2point, tuple([-1] * ndim))[0]
        one = [0] * ndim
        one[-1] = n[-1]
        bad_hi &= raises(IndexError, mesh.index2point, tuple(one))[0]
        ctx.require(bad_hi, "C01.reject_outside", "out-of-range index accepted")
    elif kind == "probe":
        rng = np.random.default_rng(pr["seed"])
        tol = np.min(pmax - pmin) * mesh.region.tolerance_factor + mesh.region.tolerance_factor * scale
        okc = okf = okr = True
        detail = None
        for _ in range(40):
            # random interior points
            p = pmin + rng.uniform(0, 1, ndim) * (pmax - pmin)
            k = np.array(mesh.point2index(p))
            inr = np.all((k >= 0) & (k < n))
            lo, hi = pmin + k * cell, pmin + (k + 1) * cell
            if not (inr and np.all(p >= lo - 4 * np.spacing(scale) - tol) and np.all(p <= hi + 4 * np.spacing(scale) + tol)):
                okc = False
                detail = (p.tolist(), k.tolist())
        # faces: vertex j of axis a -> cell j (lower face inclusive), the neighbouring cell is accepted only when the vertex lies within rounding (8 ulp of the coordinate scale) of the face
        for a in range(ndim):
            verts = np.asarray(getattr(mesh.vertices, mesh.region.dims[a]))
            for j, v in enumerate(verts):
                p = mesh.region.center.copy()
                p[a] = v
                k = mesh.point2index(p)[a]
                want = min(j, n[a] - 1)
                if k != want:
                    # rounding: accept the neighbour only if the computed quotient is within 2 ulp of the integer j
                    qv = (v - pmin[a]) / mesh.cell[a]
                    if not (abs(qv - j) <= 8 * np.spacing(scale[a]) / cell[a] + 8 * np.spacing(max(j, 1.0)) and abs(k - want) == 1):
                        okf = False
                        detail = (a, j, k)
        # outside by more than the tolerance
        for a in range(ndim):
            for side in (-1, 1):
                p = mesh.region.center.copy()
                p[a] = (pmin[a] - 1e-3 * (pmax[a] - pmin[a]) - 10 * tol[a]) if side < 0 else (pmax[a] + 1e-3 * (pmax[a] - pmin[a]) + 10 * tol[a])
                okr &= raises(ValueError, mesh.point2index, p)[0]
        ctx.require(okc, "C01.containing_cell", "point maps to a cell that does not contain it", detail=detail)
        ctx.require(okf, "C01.face_lower_inclusive", "vertex coordinate not mapped to the cell above it", detail=detail)
        ctx.require(okr, "C01.reject_outside", "point outside the region accepted")


def check_by_cell(pr, ctx):
    p1, p2, n = np.array(pr["p1"]), np.array(pr["p2"]), np.array(pr["n"])
    pmin, pmax = np.minimum(p1, p2), np.maximum(p1, p2)
    cell = (pmax - pmin) / n
    r, m = raises(ValueError, df.Mesh, p1=tuple(p1), p2=tuple(p2), cell=tuple(cell))
    ctx.require(not r and np.array_equal(m.n, n), "C01.cell_request", "commensurate cell size rejected or wrong n",
                got=None if r else m.n, want=n)
    # incommensurate: stretch one cell so that the remainder is frac of a cell (needs >= 1 full cell)
    a, frac = pr["axis"], pr["frac"]
    bad = cell.copy()
    bad[a] = (pmax[a] - pmin[a]) / (n[a] + frac)
    r2, _ = raises(ValueError, df.Mesh, p1=tuple(p1), p2=tuple(p2), cell=tuple(bad))
    ctx.require(r2, "C01.cell_request", "cell size leaving a remainder of %.2f cell accepted" % frac)
    big = cell.copy()
    big[a] = (pmax[a] - pmin[a]) * 1.5
    r3, _ = raises(ValueError, df.Mesh, p1=tuple(p1), p2=tuple(p2), cell=tuple(big))
    ctx.require(r3, "C01.cell_request", "cell larger than the region accepted")
