"""C02 bounded run-time tier: a field holds exactly the value its specification assigns to every cell.

Every clause is evaluated on the real Field/Mesh/Line code.  Oracles are per-cell loops over plain numpy tables:
the expected array E of every case is built here from the property statement (cell centre = pmin+(i+1/2)cell,
subregion membership by index ranges, source cell containing the centre) and never by calling the library.

Bounded: seeded meshes of 1-4 dimensions with <= 7 cells per axis (quick) / 9 (thorough), 1-4 components,
dtypes None/int/float/complex/bool.

Scale: every specification kind is additionally enumerated over the SCALE of the geometry (all axes of the order 1e-9, 1e-6, 1,
1e6, or a different one of these per axis; "clean" multiples of the scale and non-representable corners) and of the values
(1e-12 ... 1e12, optionally all values within a relative 1e-6 of each other).  No oracle uses an absolute tolerance: stored values
are compared exactly, coordinates in ulp of the coordinate scale of their own axis, ties relative to the cell size of the axis."""
import itertools
import os
import warnings
import numpy as np
import discretisedfield as df
from .common import raises, ulp_close, rand_region

PROPERTY = "C02"
CLAUSES = {
    "C02.shape": "the stored array is a numpy array of shape (*n, nvdim)",
    "C02.const": "constant spec: every cell holds exactly the constant, whatever its magnitude (scalar for nvdim=1, length-nvdim vector, 0 -> zero vector)",
    "C02.array": "per-cell array spec (ndarray or nested list, shape (*n,nvdim) or (*n,) for nvdim=1): cell i holds exactly spec[i], also for tiny / huge / nearly constant data",
    "C02.callable": "callable spec: called with the cell centre pmin+(i+1/2)cell (8 ulp of the coordinate scale) and cell i holds its return value",
    "C02.dict": "dict spec: the first subregion (mesh listing order) that is a key of the dict and contains the cell wins, else 'default' (constant or callable); sub-specs may be constant/callable/array",
    "C02.source": "source-field spec (equal / finer / coarser / shifted / larger mesh, same or different n, any scale of geometry and values): cell holds exactly the value of a source cell whose closed extent contains the cell centre (either neighbour when the centre is within 1e-6 source cells of a face)",
    "C02.sample": "field(p) == stored value of the cell containing p (interior points, centres, region corners; either neighbour for a point on a face)",
    "C02.component": "field.<label> is a scalar field on the same mesh holding column vdims.index(label); unknown labels raise AttributeError",
    "C02.iter": "iterating the field yields the stored cell values in mesh order (first dimension fastest), len == prod(n)",
    "C02.line": "field.line(p1,p2,n): n points p1+i(p2-p1)/(n-1) (8 ulp of the coordinate scale, first == p1), r == distance from p1 (16 ulp), values == stored value of the cell containing each point",
    "C02.reject": "a spec of wrong shape / component count / type raises (a non-zero scalar for a vector field however small it is)",
    "C02.reject_unchanged": "after a rejected update_field_values / array assignment the field's array (bytes, shape, dtype) is unchanged",
}
RULE = ("per mesh dimension 1-4 x dtype {None,int,float,complex,bool} x spec kind {const,array,callable,dict,source}: seeded random regions "
        "(common.rand_region; exact power-of-two geometry and nanometre geometry for subregion meshes), random n, nvdim 1-4, default/custom/"
        "permuted labels, observation through constructor / update_field_values / array setter; every cell compared; sampling, component "
        "access and iteration are checked on every field built; line and reject kinds separately; then per mesh dimension 1-4 x geometry "
        "scale class {1e-9, 1e-6, 1, 1e6, mixed per axis} x spec kind {const,array,callable,dict,line,reject, source on an equal / finer / "
        "coarser / shifted by whole cells / shifted by a fraction of a cell / larger-region-same-n (random and whole-multiple cell) / free "
        "mesh} with the value scale cycling through 1e-12..1e12 (a third of them nearly constant: relative spread 1e-6) and the field that "
        "is updated pre-filled with values of the same scale; non-trivial = more than one cell; distinct by (kind, params)")
ASSUMPTIONS = ["bounded: <= 9 cells per axis, <= 4 dimensions, <= 4 components, seeded sample of geometry and data",
               "scales: coordinates / cell sizes of the order 1e-9 .. 1e6 (plus common.rand_region's log-uniform 1e-12 .. 1e6), values 1e-12 .. 1e12; int data <= 1e13",
               "dict: 'first-listed' is read as the listing order of mesh.subregions (the library's documented precedence)",
               "face points / centre-on-source-face ties: either neighbouring cell accepted (exact face behaviour is C01's)",
               "data for int/bool dtypes are generated representable in the dtype, so no conversion semantics are assumed"]

DTYPES = ["none", "int", "float", "complex", "bool"]
_NP = {"none": None, "int": int, "float": float, "complex": complex, "bool": bool}
LABELS = {1: [None, ["s"]], 2: [None, ["a", "b"], ["y", "x"]], 3: [None, ["a", "b", "c"], ["z", "x", "y"]],
          4: [None, ["p", "q", "r", "t"]]}
DIMS = {1: [None, ["a"]], 2: [None, ["a", "b"]], 3: [None, ["u", "v", "w"]], 4: [None, ["a", "b", "c", "d"]]}


# ------------------------------------------------------------------ geometry
def rand_n(rng, ndim, nmax):
    return [int(rng.integers(1, nmax + 1)) for _ in range(ndim)]


def exact_geom(rng, n):
    """all corners / faces exactly representable: cell = m*2^e, pmin = k*cell"""
    ndim = len(n)
    cell = [float(rng.integers(1, 6)) * 2.0 ** int(rng.integers(-24, 8)) for _ in range(ndim)]
    k = [int(rng.integers(-6, 7)) for _ in range(ndim)]
    p1 = [k[j] * cell[j] for j in range(ndim)]
    p2 = [(k[j] + n[j]) * cell[j] for j in range(ndim)]
    return {"p1": p1, "p2": p2, "n": n}


def nm_geom(rng, n):
    ndim = len(n)
    cell = [float(rng.integers(1, 8)) * 1e-9 for _ in range(ndim)]
    k = [int(rng.integers(-6, 7)) for _ in range(ndim)]
    return {"p1": [k[j] * cell[j] for j in range(ndim)], "p2": [(k[j] + n[j]) * cell[j] for j in range(ndim)], "n": n}


def rand_geom(rng, n):
    p1, p2 = rand_region(rng, len(n))
    return {"p1": p1, "p2": p2, "n": list(n)}


GSCALES = {"nm": 1e-9, "um": 1e-6, "unit": 1.0, "mega": 1e6}
GCLASSES = ["nm", "um", "unit", "mega", "mixed"]
VSCALES = [1e-12, 1e-9, 1e-6, 1e-3, 1.0, 1e3, 1e6, 1e9, 1e12]
SRC_CFGS = ["equal", "finer", "coarser", "shifted", "shifted_frac", "same_n", "same_n_cells", "free"]


def axis_scales(rng, gclass, ndim):
    if gclass != "mixed":
        return [GSCALES[gclass]] * ndim
    names = list(GSCALES)
    k = [int(rng.integers(4)) for _ in range(ndim)]
    if ndim > 1 and len(set(k)) == 1:
        k[int(rng.integers(ndim))] = (k[0] + 1 + int(rng.integers(3))) % 4
    return [GSCALES[names[i]] for i in k]


def scaled_geom(rng, n, scales, form):
    """form 'clean': cell = m*scale, pmin = k*cell (what a user types: 5e-9, 2.5e-6, ...); 'far': the same a million cells away
    from the origin (all coordinates of the mesh agree to a relative 1e-5); 'rand': non-representable corners with an offset of
    up to 300 scales; either corner order per axis"""
    p1, p2 = [], []
    for nj, sj in zip(n, scales):
        if form == "clean":
            c = [1.0, 2.0, 3.0, 5.0, 7.0, 2.5, 0.5, 10.0, 12.5][int(rng.integers(9))] * sj
            k = int(rng.integers(-6, 7))
            a, b = k * c, (k + nj) * c
        elif form == "far":
            c = [1.0, 2.0, 5.0, 2.5][int(rng.integers(4))] * sj
            k = int(rng.integers(-6, 7)) + (1000000 if rng.integers(2) else -1000000)
            a, b = k * c, (k + nj) * c
        else:
            a = float(rng.uniform(-3, 3)) * sj * 10.0 ** int(rng.integers(0, 3))
            b = a + float(rng.uniform(0.3, 1.7)) * sj
        if rng.integers(2):
            a, b = b, a
        p1.append(float(a))
        p2.append(float(b))
    return {"p1": p1, "p2": p2, "n": list(n)}


def nmax_for(ndim, tier):
    q = {1: 7, 2: 6, 3: 4, 4: 3}
    t = {1: 9, 2: 8, 3: 5, 4: 4}
    return (q if tier == "quick" else t)[ndim]


class Geo:
    def __init__(self, g):
        self.p1, self.p2 = np.array(g["p1"], dtype=float), np.array(g["p2"], dtype=float)
        self.n = [int(k) for k in g["n"]]
        self.ndim = len(self.n)
        self.pmin, self.pmax = np.minimum(self.p1, self.p2), np.maximum(self.p1, self.p2)
        self.cell = (self.pmax - self.pmin) / np.array(self.n)
        self.scale = np.maximum(np.abs(self.pmin), np.abs(self.pmax))
        self.dims = g.get("dims")
        self.subs = g.get("subs") or []      # [[name, lo, hi], ...] index ranges lo <= i < hi

    def region(self, p1=None, p2=None):
        kw = {} if self.dims is None else {"dims": list(self.dims)}
        return df.Region(p1=tuple(self.p1 if p1 is None else p1), p2=tuple(self.p2 if p2 is None else p2), **kw)

    def corner(self, k):
        return self.pmin + np.array(k) * self.cell

    def mesh(self):
        subs = {name: self.region(self.corner(lo), self.corner(hi)) for name, lo, hi in self.subs}
        return df.Mesh(region=self.region(), n=tuple(self.n), subregions=subs)

    def indices(self):
        """mesh order: first dimension fastest"""
        return [tuple(reversed(t)) for t in itertools.product(*[range(k) for k in reversed(self.n)])]

    def centre(self, idx):
        return self.pmin + (np.array(idx) + 0.5) * self.cell

    def index_of(self, p):
        return tuple(int(v) for v in np.clip(np.floor((np.asarray(p, dtype=float) - self.pmin) / self.cell), 0, np.array(self.n) - 1))

    def candidates(self, p, eps=1e-6):
        """cells whose closed extent contains p (p within eps*cell of a face -> both neighbours)"""
        q = (np.asarray(p, dtype=float) - self.pmin) / self.cell
        out = []
        for j in range(self.ndim):
            k0 = int(np.floor(q[j]))
            c = {k0}
            if q[j] - k0 < eps:
                c.add(k0 - 1)
            if k0 + 1 - q[j] < eps:
                c.add(k0 + 1)
            c = {min(max(k, 0), self.n[j] - 1) for k in c}
            out.append(sorted(c))
        return list(itertools.product(*out))


def table(seed, shape, dtype, vscale=1.0, voff=0.0):
    """non-symmetric random per-cell data, representable in the dtype: (voff + u) * vscale with u in (-5, 5) (int: -9..9);
    voff = 1e7 makes all values agree to a relative 1e-6 ("nearly constant")"""
    rng = np.random.default_rng(seed)
    if dtype == "int":
        t = rng.integers(-9, 10, size=shape).astype(np.int64)
        k = int(min(max(vscale, 1.0), 1e6))
        return t if (k == 1 and not voff) else (t + int(voff)) * k
    if dtype == "bool":
        return rng.integers(0, 2, size=shape).astype(bool)
    if dtype == "complex":
        t = rng.uniform(-5, 5, size=shape) + 1j * rng.uniform(-5, 5, size=shape)
    else:
        t = rng.uniform(-5, 5, size=shape)
    return t if (vscale == 1.0 and not voff) else (t + voff) * vscale


def vtable(pr, ddata):
    """table() at the value scale of the case"""
    vs, vo = float(pr.get("vscale", 1.0)), float(pr.get("voff", 0.0))
    return lambda seed, shape, dtype=ddata: table(seed, shape, dtype, vs, vo)


def pyval(v, container):
    """numpy row -> python constant spec"""
    lst = [x.item() for x in np.atleast_1d(v)]
    if container == "scalar":
        return lst[0]
    if container == "npscalar":      # numpy scalar (np.bool_ is not a number for the library: python bool is used instead)
        x = np.atleast_1d(v)[0]
        return bool(x) if isinstance(x, np.bool_) else x
    if container == "tuple":
        return tuple(lst)
    if container == "list":
        return lst
    return np.array(lst)


def same(a, b):
    a, b = np.asarray(a), np.asarray(b)
    return a.shape == b.shape and bool(np.array_equal(a, b))


class Lookup:
    """callable spec: value of table T at the cell whose centre is the argument; records how far the argument is from a centre"""

    def __init__(self, geo, T, sub_lo=None):
        self.geo, self.T = geo, T
        self.calls = 0
        self.off_centre = False
        self.bad_arg = False

    def __call__(self, p):
        g = self.geo
        self.calls += 1
        p = np.atleast_1d(np.asarray(p, dtype=float))
        if p.shape != (g.ndim,):
            self.bad_arg = True
            return self.T[(0,) * g.ndim]
        idx = g.index_of(p)
        if not ulp_close(p, g.centre(idx), 8, g.scale):
            self.off_centre = True
        return self.T[idx]


def make_field(mesh, nvdim, spec, dtype, via, vdims, seed, vscale=1.0, voff=0.0):
    """observe the spec through the constructor, update_field_values or the array setter (the field that is updated holds other
    values of the same scale: within numpy's default tolerances of the new ones for small / nearly constant data)"""
    kw = {"dtype": _NP[dtype]}
    if vdims is not None:
        kw["vdims"] = list(vdims)
    if via == "ctor":
        return df.Field(mesh, nvdim=nvdim, value=spec, **kw)
    start = table(seed + 17, (*mesh.n, nvdim), "float" if dtype == "none" else dtype, vscale, voff)
    f = df.Field(mesh, nvdim=nvdim, value=start, **kw)
    if via == "update":
        f.update_field_values(spec)
    else:
        f.array = spec
    return f


# ------------------------------------------------------------------ cases
def add_subs(rng, pr, tiling):
    """subregions (index ranges, random listing order) and the dict items of a 'dict' case"""
    n = pr["geom"]["n"]
    ndim = len(n)
    subs = []
    if tiling:
        ax = int(np.argmax(n))
        cut = int(rng.integers(1, n[ax])) if n[ax] > 1 else 1
        lo1, hi1 = [0] * ndim, list(n)
        hi1[ax] = cut
        lo2, hi2 = [0] * ndim, list(n)
        lo2[ax] = min(cut, n[ax] - 1) if n[ax] > 1 else 0
        subs = [["left", lo1, hi1], ["right", lo2, hi2]]
        if n[ax] == 1:
            subs = [["left", [0] * ndim, list(n)]]
    else:
        for s in range(int(rng.integers(1, 5))):
            lo = [int(rng.integers(0, k)) for k in n]
            hi = [int(rng.integers(l + 1, k + 1)) for l, k in zip(lo, n)]
            subs.append([["r1", "sub_b", "c3", "Dd"][s], lo, hi])
        order = rng.permutation(len(subs)).tolist()
        subs = [subs[i] for i in order]
    pr["geom"]["subs"] = subs
    names = [s[0] for s in subs]
    if tiling:
        keys = list(names)
        default = None
    else:
        keys = [nm for nm in names if rng.integers(4) != 0]
        default = ["const", "callable"][int(rng.integers(2))]
    keys = [keys[i] for i in rng.permutation(len(keys)).tolist()]
    items = [[nm, ["const", "callable", "array"][int(rng.integers(3))]] for nm in keys]
    if default is not None:
        items.insert(int(rng.integers(len(items) + 1)), ["default", default])
    pr["items"] = items


def source_cfg(rng, cfg, n, nmax):
    """(src_n, src_ext, unit): the source region is the target region extended by src_ext[j] = [below, above] target edges
    (unit 'edge') or target cells (unit 'cell') along axis j, divided into src_n cells"""
    ndim = len(n)
    zero = [[0.0, 0.0] for _ in range(ndim)]
    if cfg == "equal":
        return list(n), zero, "cell"
    if cfg == "finer":          # even factors put every target centre on a source face (either neighbour), odd ones on a centre
        return [k * int(rng.integers(2, 4)) if rng.integers(4) else k for k in n], zero, "cell"
    if cfg == "coarser":
        return [max(1, k // int(rng.integers(2, 4))) if rng.integers(4) else k for k in n], zero, "cell"
    if cfg == "shifted":        # same cell, more cells, aligned
        ext = [[float(rng.integers(0, 4)), float(rng.integers(0, 4))] for _ in range(ndim)]
        if all(a == 0 and b == 0 for a, b in ext):
            ext[int(rng.integers(ndim))][int(rng.integers(2))] = 2.0
        return [int(k + a + b) for k, (a, b) in zip(n, ext)], ext, "cell"
    if cfg == "shifted_frac":   # same cell, more cells, offset by a fraction of a cell (no ties: fraction not near 1/2)
        ext, sn = [], []
        for k in n:
            a, b = int(rng.integers(0, 3)), int(rng.integers(0, 3))
            t = float(rng.uniform(0.1, 0.4)) + 0.5 * int(rng.integers(2))
            ext.append([a + t, b + 1 - t])
            sn.append(k + a + b + 1)
        return sn, ext, "cell"
    if cfg in ("same_n", "same_n_cells"):   # SAME number of cells, larger region: larger cells
        axes = [j for j in range(ndim) if rng.integers(2)]
        big = [j for j in range(ndim) if n[j] > 1]
        if big and not set(axes) & set(big):
            axes.append(big[int(rng.integers(len(big)))])
        if not axes:
            axes = [int(rng.integers(ndim))]
        ext = [[0.0, 0.0] for _ in range(ndim)]
        for j in axes:
            if cfg == "same_n":
                ext[j] = [float(rng.uniform(0.0, 1.2)) * int(rng.integers(2)), float(rng.uniform(0.2, 1.2))]
                if rng.integers(2):
                    ext[j].reverse()
            else:               # source cell = f * target cell, aligned
                tot = n[j] * int(rng.integers(1, 3))
                a = int(rng.integers(0, tot + 1))
                ext[j] = [float(a), float(tot - a)]
        return list(n), ext, "edge" if cfg == "same_n" else "cell"
    ext = [[float(rng.uniform(0, 0.6)) * int(rng.integers(2)), float(rng.uniform(0, 0.6)) * int(rng.integers(2))] for _ in range(ndim)]
    return [int(rng.integers(1, nmax + 2)) for _ in range(ndim)], ext, "edge"


def cases(ctx):
    rng = ctx.rng
    quick = ctx.tier == "quick"
    reps = 3 if quick else 30

    def common(ndim, dtype, geom):
        nvdim = int(rng.integers(1, 5))
        lab = LABELS[nvdim][int(rng.integers(len(LABELS[nvdim])))]
        geom = dict(geom)
        geom["dims"] = DIMS[ndim][int(rng.integers(len(DIMS[ndim])))]
        return {"geom": geom, "nvdim": nvdim, "dtype": dtype, "vdims": lab, "seed": int(rng.integers(1 << 30)),
                "via": ["ctor", "update", "setter"][int(rng.integers(3))]}

    for ndim in (1, 2, 3, 4):
        nmax = nmax_for(ndim, ctx.tier)
        for dtype in DTYPES:
            for _ in range(reps):
                for cont in (("scalar", "tuple") if rng.integers(2) else ("npscalar", "ndarray")):
                    pr = common(ndim, dtype, rand_geom(rng, rand_n(rng, ndim, nmax)))
                    if cont in ("scalar", "npscalar"):
                        pr["nvdim"] = 1
                        pr["vdims"] = LABELS[1][int(rng.integers(2))]
                    pr["container"] = cont if pr["nvdim"] == 1 or cont not in ("scalar", "npscalar") else "list"
                    pr["zero"] = bool(rng.integers(6) == 0)
                    yield "const", pr
                pr = common(ndim, dtype, rand_geom(rng, rand_n(rng, ndim, nmax)))
                pr["container"] = "list"
                pr["zero"] = False
                yield "const", pr
                for form in ("ndarray", "list", "flat"):
                    pr = common(ndim, dtype, rand_geom(rng, rand_n(rng, ndim, nmax)))
                    if form == "flat":
                        pr["nvdim"], pr["vdims"] = 1, None
                    pr["form"] = form
                    yield "array", pr
                for _k in range(2):
                    pr = common(ndim, dtype, rand_geom(rng, rand_n(rng, ndim, nmax)))
                    yield "callable", pr
                # dict specs: exact geometry (x2) and nanometre geometry
                for gi, gen in enumerate((exact_geom, exact_geom, nm_geom)):
                    n0 = rand_n(rng, ndim, max(nmax, 3))
                    if all(k == 1 for k in n0):
                        n0[0] = 3
                    pr = common(ndim, dtype, gen(rng, n0))
                    add_subs(rng, pr, gi == 1 and rng.integers(2) == 0)
                    yield "dict", pr
                # source field on a different mesh
                for _k in range(1 if quick else 2):
                    pr = common(ndim, dtype, rand_geom(rng, rand_n(rng, ndim, nmax)))
                    pr["src_n"] = [int(rng.integers(1, nmax + 2)) for _ in range(ndim)]
                    pr["src_ext"] = [[float(rng.uniform(0, 0.6)) * int(rng.integers(2)), float(rng.uniform(0, 0.6)) * int(rng.integers(2))]
                                     for _ in range(ndim)]
                    yield "source", pr
                pr = common(ndim, dtype, exact_geom(rng, rand_n(rng, ndim, nmax)))      # refinement / coarsening of the same region: ties
                f = int(rng.integers(1, 4))
                pr["src_n"] = [max(1, k * f if rng.integers(2) else k // f) for k in pr["geom"]["n"]]
                pr["src_ext"] = [[0.0, 0.0]] * ndim
                yield "source", pr
                # line sampling
                for mode in ("random", "diagonal", "axis"):
                    pr = common(ndim, dtype, rand_geom(rng, rand_n(rng, ndim, nmax)) if mode != "axis" else exact_geom(rng, rand_n(rng, ndim, nmax)))
                    pr["mode"] = mode
                    pr["t1"] = rng.uniform(0, 1, ndim).tolist()
                    pr["t2"] = rng.uniform(0, 1, ndim).tolist()
                    pr["npts"] = int(rng.integers(2, 12))
                    yield "line", pr
    # rejections
    bads = ["vec_len", "scalar_nonzero", "arr_extra_cell", "arr_wrong_nvdim", "arr_transposed", "arr_partial", "str", "none", "obj",
            "callable_wrong_len", "dict_bad_sub", "dict_no_default", "source_wrong_nvdim", "source_not_containing", "arr_flat_vector"]
    for bad in bads:
        for via in ("update", "setter", "ctor"):
            for _ in range(2 if quick else 12):
                ndim = int(rng.integers(1, 5))
                if bad in ("arr_transposed", "arr_partial"):
                    ndim = int(rng.integers(2, 5))
                dtype = DTYPES[int(rng.integers(len(DTYPES)))]
                n0 = rand_n(rng, ndim, nmax_for(ndim, ctx.tier))
                if bad == "arr_transposed":
                    n0[0], n0[-1] = 2, 3
                if bad in ("dict_bad_sub", "dict_no_default"):
                    n0[0] = max(2, n0[0])
                pr = common(ndim, dtype, exact_geom(rng, n0))
                if bad in ("scalar_nonzero", "arr_flat_vector"):
                    pr["nvdim"], pr["vdims"] = int(rng.integers(2, 5)), None
                if bad in ("dict_bad_sub", "dict_no_default"):
                    n = pr["geom"]["n"]
                    hi = list(n)
                    hi[0] = n[0] - 1
                    pr["geom"]["subs"] = [["part", [0] * ndim, hi]]
                pr["bad"], pr["via"] = bad, via
                yield "reject", pr

    # ---- the same specification kinds over the SCALE of geometry and values
    bads_sc = ["vec_len", "scalar_nonzero", "arr_extra_cell", "arr_wrong_nvdim", "callable_wrong_len", "dict_bad_sub",
               "source_wrong_nvdim", "source_not_containing", "arr_flat_vector", "str"]
    vi = int(rng.integers(len(VSCALES)))
    bi = int(rng.integers(len(bads_sc)))

    def scaled(ndim, gclass, form, nmin2=False):
        nonlocal vi
        n0 = rand_n(rng, ndim, nmax_for(ndim, ctx.tier))
        if nmin2 and all(k == 1 for k in n0):
            n0[int(rng.integers(ndim))] = 3
        pr = common(ndim, DTYPES[int(rng.integers(len(DTYPES)))], scaled_geom(rng, n0, axis_scales(rng, gclass, ndim), form))
        vi += 1 + int(rng.integers(4) == 0)     # cycles through the value scales, not in step with kinds / scale classes
        pr["vscale"] = VSCALES[vi % len(VSCALES)]
        pr["voff"] = 1e7 if rng.integers(3) == 0 else 0.0
        pr["gclass"] = gclass
        return pr

    def form():
        return ["clean", "rand", "clean", "rand", "far"][int(rng.integers(5))]

    for _ in range(3 if quick else 30):
        for ndim in (1, 2, 3, 4):
            nmax = nmax_for(ndim, ctx.tier)
            for gclass in GCLASSES:
                pr = scaled(ndim, gclass, form())
                pr["container"] = ["tuple", "list", "ndarray"][int(rng.integers(3))]
                if rng.integers(3) == 0:
                    pr["nvdim"], pr["vdims"], pr["container"] = 1, LABELS[1][int(rng.integers(2))], ["scalar", "npscalar"][int(rng.integers(2))]
                pr["zero"] = False
                yield "const", pr
                pr = scaled(ndim, gclass, form())
                pr["form"] = ["ndarray", "list", "flat"][int(rng.integers(3))]
                if pr["form"] == "flat":
                    pr["nvdim"], pr["vdims"] = 1, None
                yield "array", pr
                yield "callable", scaled(ndim, gclass, form())
                pr = scaled(ndim, gclass, "far" if rng.integers(5) == 0 else "clean", nmin2=True)
                add_subs(rng, pr, rng.integers(4) == 0)
                yield "dict", pr
                for cfg in SRC_CFGS:
                    pr = scaled(ndim, gclass, form(), nmin2=True)
                    pr["src_cfg"] = cfg
                    pr["src_n"], pr["src_ext"], pr["src_ext_unit"] = source_cfg(rng, cfg, pr["geom"]["n"], nmax)
                    yield "source", pr
                if ndim > 1:
                    pr = scaled(ndim, gclass, form(), nmin2=True)
                    pr["mode"] = ["random", "diagonal", "axis"][int(rng.integers(3))]
                    pr["t1"] = rng.uniform(0, 1, ndim).tolist()
                    pr["t2"] = rng.uniform(0, 1, ndim).tolist()
                    pr["npts"] = int(rng.integers(2, 12))
                    yield "line", pr
                for _k in range(2):
                    bi += 1 + int(rng.integers(3))      # cycles through the kinds, not in step with the scale classes
                    bad = bads_sc[bi % len(bads_sc)]
                    pr = scaled(ndim, gclass, "clean")
                    n0 = pr["geom"]["n"]
                    if bad == "scalar_nonzero" or bad == "arr_flat_vector":
                        pr["nvdim"], pr["vdims"] = int(rng.integers(2, 5)), None
                    if bad == "dict_bad_sub":
                        if n0[0] < 2:      # needs a proper sub-range along the first axis
                            continue
                        hi = list(n0)
                        hi[0] = n0[0] - 1
                        pr["geom"]["subs"] = [["part", [0] * ndim, hi]]
                    pr["bad"], pr["via"] = bad, ["update", "setter", "ctor"][int(rng.integers(3))]
                    yield "reject", pr


# ------------------------------------------------------------------ check
KIND_CLAUSE = {"const": "C02.const", "array": "C02.array", "callable": "C02.callable", "dict": "C02.dict", "source": "C02.source", "line": "C02.line", "reject": "C02.reject"}


def check(kind, pr, ctx):
    with warnings.catch_warnings():
        warnings.simplefilter("ignore")
        with np.errstate(all="ignore"):
            try:
                _check(kind, pr, ctx)
            except Exception as e:      # an exception raised inside the library on a path the checker did not expect to fail
                if not _from_library(e):
                    raise
                ctx.require(False, KIND_CLAUSE[kind], "the library raised unexpectedly while the case was set up / evaluated",
                            sig="unexpected-library-exception:%s" % type(e).__name__, error=repr(e)[:300])


def _from_library(e):
    tb = e.__traceback__
    last = None
    while tb is not None:
        last = tb.tb_frame.f_code.co_filename
        if os.sep + "discretisedfield" + os.sep in last:
            return True
        tb = tb.tb_next
    return False


def _check(kind, pr, ctx):
    geo = Geo(pr["geom"])
    nvdim, dtype, vdims, seed, via = pr["nvdim"], pr["dtype"], pr["vdims"], pr["seed"], pr["via"]
    if int(np.prod(geo.n)) == 1:
        ctx.trivial()
    r, mesh = raises(ValueError, geo.mesh)
    if r:     # geometry the library cannot build (alignment / divisibility of subregions: C07/C14 matters, not C02)
        ctx.trivial()
        ctx.require(True, "C02.shape", "mesh not constructible; case skipped")
        return
    ddata = "float" if dtype == "none" else dtype
    shape = (*geo.n, nvdim)
    table = vtable(pr, ddata)
    if kind == "reject":
        return check_reject(pr, ctx, geo, mesh)

    lookups = []
    sig = kind
    if kind == "const":
        row = table(seed, (nvdim,), ddata)
        if pr["zero"]:
            spec, E = 0, np.zeros(shape)
        else:
            spec = pyval(row, pr["container"])
            E = np.empty(shape, dtype=row.dtype)
            for idx in geo.indices():
                E[idx] = row
        clause = "C02.const"
    elif kind == "array":
        E = table(seed, shape, ddata)
        spec = {"ndarray": E.copy(), "list": E.tolist(), "flat": E[..., 0].copy() if nvdim == 1 else E.copy()}[pr["form"]]
        if pr["form"] == "flat" and seed % 2:
            spec = spec.tolist()
        clause = "C02.array"
    elif kind == "callable":
        E = table(seed, shape, ddata)
        spec = Lookup(geo, E)
        lookups.append(spec)
        if seed % 3 == 0:      # also plain python return types
            inner = spec
            spec = (lambda p: tuple(x.item() for x in inner(p))) if nvdim > 1 else (lambda p: inner(p)[0].item())
        clause = "C02.callable"
    elif kind == "dict":
        E, spec, lookups, sig = build_dict(pr, geo, mesh, ddata)
        clause = "C02.dict"
    elif kind == "source":
        return check_source(pr, ctx, geo, mesh)
    elif kind == "line":
        return check_line(pr, ctx, geo, mesh)
    else:
        raise AssertionError(kind)

    r, f = raises(Exception, make_field, mesh, nvdim, spec, dtype, via, vdims, seed, pr.get("vscale", 1.0), pr.get("voff", 0.0))
    if r:
        ctx.require(False, clause, "valid specification raised %s" % type(f).__name__,
                    sig=sig if sig.startswith("dict-callable-default") else sig + ":raises-" + type(f).__name__, error=repr(f)[:300])
        return
    ctx.require(isinstance(f.array, np.ndarray) and f.array.shape == shape, "C02.shape", "array shape is not (*n, nvdim)",
                got=getattr(f.array, "shape", None), want=shape)
    ok = same(f.array, E)
    bad = None
    if not ok and f.array.shape == E.shape:
        w = np.argwhere(~np.isclose(f.array, E, rtol=0, atol=0, equal_nan=True))
        bad = {"cells_wrong": int(len(w)), "first": w[0].tolist() if len(w) else None,
               "got": f.array[tuple(w[0])] if len(w) else None, "want": E[tuple(w[0])] if len(w) else None}
    ctx.require(ok, clause, "stored array differs from the specification evaluated per cell", sig=sig, **(bad or {}))
    for lk in lookups:
        ctx.require(not lk.off_centre and not lk.bad_arg, "C02.callable", "callable was called with a point that is not a cell centre (8 ulp)", sig=sig + ":off-centre")
    check_access(ctx, f, f.array.copy() if f.array.shape == shape else E, geo, seed, nvdim)


def build_dict(pr, geo, mesh, ddata):
    nvdim, seed = pr["nvdim"], pr["seed"]
    shape = (*geo.n, nvdim)
    table = vtable(pr, ddata)
    spec, tables, lookups = {}, {}, []
    default_kind = None
    for j, (name, k) in enumerate(pr["items"]):
        if k == "const":
            row = table(seed + 101 * j, (nvdim,), ddata)
            T = np.empty(shape, dtype=row.dtype)
            T[...] = row
            spec[name] = pyval(row, "scalar" if nvdim == 1 else ["tuple", "list", "ndarray"][j % 3])
        else:
            T = table(seed + 101 * j, shape, ddata)
            if k == "callable":
                spec[name] = Lookup(geo, T)
                lookups.append(spec[name])
            else:   # array of the sub-mesh shape
                lo, hi = next((lo, hi) for nm, lo, hi in geo.subs if nm == name)
                spec[name] = T[tuple(slice(a, b) for a, b in zip(lo, hi))].copy()
        tables[name] = T
        if name == "default":
            default_kind = k
    E = np.empty(shape, dtype=tables[pr["items"][0][0]].dtype)
    for idx in geo.indices():
        for name, lo, hi in geo.subs:        # mesh listing order
            if name in tables and all(a <= i < b for a, i, b in zip(lo, idx, hi)):
                E[idx] = tables[name][idx]
                break
        else:
            E[idx] = tables["default"][idx]   # generator guarantees a default unless the listed subregions tile the region
    sig = "dict"
    if default_kind == "callable":
        covered = all(any(nm in tables and all(a <= i < b for a, i, b in zip(lo, idx, hi)) for nm, lo, hi in geo.subs) for idx in geo.indices())
        if not covered:
            if pr["dtype"] in ("int", "bool"):
                sig = "dict-callable-default-nan-sentinel-" + pr["dtype"]
            elif geo.ndim > 1:
                sig = "dict-callable-default-ndim>1"
    return E, spec, lookups, sig


def check_access(ctx, f, E, geo, seed, nvdim):
    """sampling, component access, iteration against the stored array E (a copy taken before the calls)"""
    rng = np.random.default_rng(seed + 5)
    idxs = geo.indices()
    ok, det = True, None
    pts = []
    for _ in range(12):
        idx = tuple(int(rng.integers(k)) for k in geo.n)
        pts.append((geo.pmin + (np.array(idx) + rng.uniform(0.1, 0.9, geo.ndim)) * geo.cell, [idx]))
    for idx in (idxs[0], idxs[-1], idxs[len(idxs) // 2]):
        pts.append((geo.centre(idx), [idx]))
    pts.append((geo.pmin.copy(), [idxs[0]]))
    pts.append((geo.pmax.copy(), [idxs[-1]]))
    for _ in range(4):   # a point on a face: either neighbour
        idx = np.array([int(rng.integers(k)) for k in geo.n])
        p = geo.pmin + (idx + rng.uniform(0.1, 0.9, geo.ndim)) * geo.cell
        a = int(rng.integers(geo.ndim))
        p[a] = geo.pmin[a] + idx[a] * geo.cell[a]
        lo = idx.copy()
        lo[a] = max(idx[a] - 1, 0)
        pts.append((p, [tuple(idx.tolist()), tuple(lo.tolist())]))
    for p, cand in pts:
        r, v = raises(Exception, f, tuple(p.tolist()))
        if r or not any(same(v, E[c]) for c in cand):
            ok, det = False, {"point": p.tolist(), "cells": [list(c) for c in cand], "got": repr(v)[:120]}
    ctx.require(ok, "C02.sample", "sampling does not return the stored value of the containing cell", **(det or {}))
    # components
    okc, det = True, None
    if f.vdims is None:
        okc = raises(AttributeError, getattr, f, "x")[0]
        det = {"why": "scalar field without labels has a component x"}
    else:
        for k, lab in enumerate(f.vdims):
            r, c = raises(Exception, getattr, f, lab)
            if r or not (isinstance(c, df.Field) and c.nvdim == 1 and c.array.shape == (*geo.n, 1) and same(c.array[..., 0], E[..., k])
                         and c.mesh == f.mesh):
                okc, det = False, {"label": lab, "column": k, "error": repr(c)[:120] if r else None}
        okc &= raises(AttributeError, getattr, f, "no_such_label")[0]
    ctx.require(okc, "C02.component", "component access does not return the matching column", **(det or {}))
    # iteration
    r, vals = raises(Exception, list, f)
    oki = (not r) and len(vals) == len(idxs) and all(same(v, E[i]) for v, i in zip(vals, idxs))
    ctx.require(oki, "C02.iter", "iteration does not yield the cells in mesh order", n=geo.n)


def check_source(pr, ctx, geo, mesh):
    nvdim, dtype, seed = pr["nvdim"], pr["dtype"], pr["seed"]
    ddata = "float" if dtype == "none" else dtype
    table = vtable(pr, ddata)
    ext = np.array(pr["src_ext"])
    edge = geo.cell if pr.get("src_ext_unit") == "cell" else geo.pmax - geo.pmin
    sg = Geo({"p1": (geo.pmin - ext[:, 0] * edge).tolist(), "p2": (geo.pmax + ext[:, 1] * edge).tolist(), "n": pr["src_n"], "dims": geo.dims})
    S = table(seed, (*sg.n, nvdim), ddata)
    src = df.Field(sg.mesh(), nvdim=nvdim, value=S, dtype=_NP[dtype])
    if not same(src.array, S):
        ctx.trivial()
        return
    shape = (*geo.n, nvdim)
    r, f = raises(Exception, make_field, mesh, nvdim, src, dtype, pr["via"], pr["vdims"], seed, pr.get("vscale", 1.0), pr.get("voff", 0.0))
    if r:
        ctx.require(False, "C02.source", "source-field specification raised %s" % type(f).__name__, sig="source:raises-" + type(f).__name__, error=repr(f)[:300])
        return
    ctx.require(isinstance(f.array, np.ndarray) and f.array.shape == shape, "C02.shape", "array shape is not (*n, nvdim)", got=f.array.shape, want=shape)
    ok, det = f.array.shape == shape, None
    if ok:
        for idx in geo.indices():
            cand = sg.candidates(geo.centre(idx))
            if not any(same(f.array[idx], S[c]) for c in cand):
                ok, det = False, {"cell": list(idx), "centre": geo.centre(idx).tolist(), "source_cells": [list(c) for c in cand], "got": f.array[idx]}
                break
    ctx.require(ok, "C02.source", "cell value is not the value of a source cell containing the cell centre", **(det or {}))
    ctx.require(same(src.array, S), "C02.source", "the source field was modified", sig="source-modified")
    if f.array.shape == shape:
        check_access(ctx, f, f.array.copy(), geo, seed, nvdim)


def check_line(pr, ctx, geo, mesh):
    nvdim, dtype, seed, npts = pr["nvdim"], pr["dtype"], pr["seed"], pr["npts"]
    ddata = "float" if dtype == "none" else dtype
    E = vtable(pr, ddata)(seed, (*geo.n, nvdim))
    kw = {} if pr["vdims"] is None else {"vdims": list(pr["vdims"])}
    f = df.Field(mesh, nvdim=nvdim, value=E, dtype=_NP[dtype], **kw)
    edge = geo.pmax - geo.pmin
    if pr["mode"] == "diagonal":
        p1, p2 = geo.pmin.copy(), geo.pmax.copy()
        if seed % 2:
            p1, p2 = p2, p1
    elif pr["mode"] == "axis":     # along one axis through cell centres / faces of an exact geometry
        p1 = geo.pmin + np.array(pr["t1"]) * edge
        p2 = p1.copy()
        a = seed % geo.ndim
        p1[a], p2[a] = geo.pmin[a], geo.pmax[a]
    else:
        p1, p2 = geo.pmin + np.array(pr["t1"]) * edge, geo.pmin + np.array(pr["t2"]) * edge
    r, L = raises(Exception, f.line, p1=tuple(p1.tolist()), p2=tuple(p2.tolist()), n=npts)
    if r:
        ctx.require(False, "C02.line", "line sampling raised %s" % type(L).__name__,
                    sig="line-on-1d-mesh-raises" if geo.ndim == 1 else "line:raises-" + type(L).__name__, error=repr(L)[:300])
        return
    data = L.data
    ok = len(data) == npts and L.n == npts
    det = None
    if ok:
        pcols = list(data.columns[1:1 + geo.ndim])
        vcols = list(data.columns[1 + geo.ndim:])
        ok = (list(data.columns)[0] == "r" and len(vcols) == nvdim
              and pcols == list(mesh.region.dims))
        pts = data[pcols].to_numpy()
        vals = data[vcols].to_numpy() if ok else None
        rr = data["r"].to_numpy()
        length = float(np.sqrt(np.sum((p2 - p1) ** 2)))
        sc = np.maximum(np.abs(p1), np.abs(p2))
        for i in range(npts if ok else 0):
            want = p1 + i * (p2 - p1) / (npts - 1)
            good = ulp_close(pts[i], want, 8, sc)
            good &= ulp_close(rr[i], i * length / (npts - 1), 16, float(np.max(sc)))
            good &= ulp_close(rr[i], np.sqrt(np.sum((pts[i] - pts[0]) ** 2)), 16, float(np.max(sc)))
            cand = geo.candidates(pts[i])
            good &= any(same(vals[i], E[c]) for c in cand)
            if not good:
                ok, det = False, {"i": i, "point": pts[i].tolist(), "want_point": want.tolist(), "r": float(rr[i]), "value": repr(vals[i])[:100]}
                break
        ok = ok and bool(np.array_equal(pts[0], p1)) and ulp_close(pts[-1], p2, 8, sc)
    sig = "line"
    vnames = ["v"] if f.vdims is None else ["v" + v for v in f.vdims]
    if not ok and set(vnames) & set(mesh.region.dims):
        sig = "line-column-name-collision"      # a value column v<label> has the name of a spatial dimension
    if not ok and det is None:
        det = {"columns": list(data.columns), "first": data.iloc[0].tolist(), "last": data.iloc[-1].tolist(), "p1": p1.tolist(), "p2": p2.tolist()}
    ctx.require(ok, "C02.line", "line sampling: wrong number of points, points, distances or values", sig=sig, **(det or {}))
    # an end point outside the region is rejected
    out = p2.copy()
    out[0] = geo.pmax[0] + 0.5 * edge[0]
    ctx.require(raises(Exception, f.line, p1=tuple(p1.tolist()), p2=tuple(out.tolist()), n=npts)[0], "C02.line",
                "end point outside the region accepted", sig="line-outside-accepted")


def check_reject(pr, ctx, geo, mesh):
    nvdim, dtype, seed, via, bad = pr["nvdim"], pr["dtype"], pr["seed"], pr["via"], pr["bad"]
    ddata = "float" if dtype == "none" else dtype
    n = geo.n
    table = vtable(pr, ddata)
    vs = float(pr.get("vscale", 1.0))
    E = table(seed, (*n, nvdim), ddata)
    other = table(seed + 1, (*n, nvdim), ddata)
    sig = "reject:" + bad
    if bad == "vec_len":
        L = nvdim + 1
        while L == nvdim or [L] == n or L == 1:
            L += 1
        spec = pyval(table(seed + 2, (L,), ddata), ["tuple", "list", "ndarray"][seed % 3])
    elif bad == "scalar_nonzero":
        spec = {"int": 3, "bool": True, "complex": (1 + 2j) * vs}.get(ddata, 2.5 * vs)     # however small, it is not 0
    elif bad == "arr_extra_cell":
        spec = table(seed + 2, (n[0] + 1, *n[1:], nvdim), ddata)
    elif bad == "arr_wrong_nvdim":
        spec = table(seed + 2, (*n, nvdim + 1), ddata)
    elif bad == "arr_transposed":
        spec = table(seed + 2, (*n[::-1], nvdim), ddata)
    elif bad == "arr_partial":       # neither (*n, nvdim) nor (nvdim,): only the trailing mesh axis
        spec = table(seed + 2, (n[-1], nvdim), ddata)
        sig = "partial-shape-array-broadcast-accepted"
    elif bad == "arr_flat_vector":   # (*n,) array for a vector field
        spec = table(seed + 2, tuple(n), ddata)
        if n[-1] == nvdim:
            spec = table(seed + 2, (*n[:-1], n[-1] + 1), ddata)
    elif bad == "str":
        spec = "abc"
    elif bad == "none":
        spec = None
    elif bad == "obj":
        spec = object()
    elif bad == "callable_wrong_len":
        row = pyval(table(seed + 2, (nvdim + 1,), ddata), "tuple")
        spec = lambda p: row
    elif bad == "dict_bad_sub":
        part = pr["geom"]["subs"][0]
        part_n = [hi_ - lo_ for lo_, hi_ in zip(part[1], part[2])]
        if nvdim == 1 and part_n == [nvdim + 1]:
            # a tuple of nvdim+1 numbers has the shape of this 1-d subregion's n: for scalar fields that IS a per-cell
            # array of the subregion (legal), not a wrong component count - nothing to reject here
            ctx.trivial()
            return
        spec = {"part": pyval(table(seed + 2, (nvdim + 1,), ddata), "tuple"), "default": pyval(E[(0,) * geo.ndim], "scalar" if nvdim == 1 else "tuple")}
    elif bad == "dict_no_default":   # cells outside every listed subregion and no default
        spec = {"part": pyval(E[(0,) * geo.ndim], "scalar" if nvdim == 1 else "tuple")}
        sig = "dict-missing-default-accepted-" + dtype
    elif bad == "source_wrong_nvdim":
        spec = df.Field(mesh, nvdim=nvdim + 1, value=table(seed + 2, (*n, nvdim + 1), ddata), dtype=_NP[dtype])
    elif bad == "source_not_containing":
        edge = geo.pmax - geo.pmin
        p1 = geo.pmin.copy()
        p1[0] = geo.pmin[0] + 0.5 * edge[0]
        g2 = Geo({"p1": p1.tolist(), "p2": (geo.pmax + 0.5 * edge).tolist(), "n": n, "dims": geo.dims})
        spec = df.Field(g2.mesh(), nvdim=nvdim, value=table(seed + 2, (*n, nvdim), ddata), dtype=_NP[dtype])
    else:
        raise AssertionError(bad)
    kw = {"dtype": _NP[dtype]}
    if via == "ctor":
        r, res = raises(Exception, df.Field, mesh, nvdim=nvdim, value=spec, **kw)
        ctx.require(r, "C02.reject", "constructor accepted a bad specification (%s)" % bad, sig=sig, result_shape=None if r else res.array.shape)
        ctx.require(True, "C02.reject_unchanged", "n/a for the constructor")
        return
    f = df.Field(mesh, nvdim=nvdim, value=E, **kw)
    before = f.array
    snap = (f.array.tobytes(), f.array.shape, f.array.dtype)
    if via == "update":
        r, res = raises(Exception, f.update_field_values, spec)
    else:
        r, res = raises(Exception, setattr, f, "array", spec)
    if bad == "source_wrong_nvdim" and via == "setter":
        sig = "array-setter-source-field-wrong-nvdim-accepted"
    ctx.require(r, "C02.reject", "%s accepted a bad specification (%s)" % (via, bad), sig=sig,
                array_shape_after=f.array.shape, want_shape=(*n, nvdim))
    if r:
        ctx.require((f.array.tobytes(), f.array.shape, f.array.dtype) == snap and same(f.array, E), "C02.reject_unchanged",
                    "field changed by a rejected specification", sig="changed-after-" + sig)
        # and the field is still usable: a good update goes through
        f.update_field_values(other)
        ctx.require(same(f.array, other), "C02.reject_unchanged", "field unusable after a rejected specification", sig="unusable-after-" + sig)
