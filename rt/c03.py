"""C03 bounded run-time tier: field algebra is cell-wise numpy algebra on one mesh; operands stay untouched.

Expression trees over three fields A, B (nvdim k) and S (scalar) on one mesh, numbers, constant vectors and per-cell arrays are
evaluated twice: by the library operators and by plain numpy on the raw arrays (integer intermediate results are converted to float64
after every node, which is how a Field stores them).  Element-wise nodes, cross products, stacking, complex parts and ufuncs are compared exactly
(NaN == NaN); a dot node is compared to rounding (64 ulp of sum|a_l b_l|, summation order is unspecified) and the oracle continues
from the library's dot value so that nothing above it is loosened.

Bounded: meshes of 1-4 dimensions with <= 5 cells per axis, 1-4 components, tree depth <= 3 (quick) / 4 (thorough)."""
import itertools
import os
import warnings
import numpy as np
import discretisedfield as df
from .common import raises, rand_region

PROPERTY = "C03"
CLAUSES = {
    "C03.expr": "an expression tree over fields/numbers/vectors/per-cell arrays yields a Field on the same mesh, shape (*n, nvdim), whose array equals the numpy evaluation (exact, NaN==NaN; dot nodes: 64 ulp of sum|a_l b_l|; complex * / ** cross nodes: 64 ulp of |a||b| resp. |a|/|b|, |result|)",
    "C03.operands": "after evaluation every operand has the same array bytes/dtype, valid bytes/dtype, vdims, vdim_mapping, unit, nvdim and the same (identical object, equal geometry) mesh; ndarray operands keep their bytes",
    "C03.commute": "a*b and b*a, a+b and b+a are the same field: array (bitwise when numpy's own x*y == y*x on the raw arrays, else each equals its numpy product), valid, nvdim, vdims, vdim_mapping, unit, mesh",
    "C03.stack": "stacking the components of a vector field reproduces it (array, nvdim, mesh, valid; labels and mapping when the field has the default ones); f<<c / c<<f append/prepend constant columns",
    "C03.dot_cross_angle": "dot/@, cross/&, angle with a field or a constant vector equal the per-cell formulas (dot: 64 ulp of sum|a_l b_l|; cross: exact for real data, 64 ulp of |a_i||b_j|+|a_j||b_i| for complex; angle: |cos(angle)-a.b/(|a||b|)| <= 64 eps, angle in [0,pi])",
    "C03.complex": "real, imag, conjugate, phase, abs equal numpy real/imag/conj/angle/abs of the array, on the same mesh with the same labels",
    "C03.ufunc": "numpy ufuncs applied to fields (and numbers/arrays) return a Field whose array is the ufunc of the raw arrays",
    "C03.reflected": "c+f, c-f, c*f, c/f, c**f with a number / vector / array c on the left equal numpy c(op)f.array exactly (c*f: either operand order of np.multiply)",
    "C03.reject": "combining fields on different meshes or with incompatible component counts (and wrong-length vectors, unsupported types) raises",
}
RULE = ("per mesh dimension 1-4 x nvdim 1-4 x dtype triples from {int,float,complex}: seeded random region, n, data, validity masks, default/custom "
        "labels and default/permuted mappings; random typed expression trees (depth <= 3 quick / 4 thorough) over "
        "neg/pos/abs/+,-,*,/,**/dot/cross/<</complex parts/ufuncs with operands in either order; plus commute, stack, product, complex-part, "
        "ufunc, reflected and reject kinds; non-trivial = more than one cell; distinct by (kind, params)")
ASSUMPTIONS = ["numpy complex multiplication is not bitwise commutative/reproducible (FMA), hence the 64-ulp budget on complex product nodes only; all real arithmetic is compared exactly",
               "bounded: <= 5 cells per axis, <= 4 dimensions, <= 4 components (<= 8 after stacking), seeded sample of trees and data",
               "integer node results are converted to float64 in the oracle as the Field constructor does (values < 2^53, so exact); python-number ** field is tested in the reflected kind only",
               "a*b == b*a is only stated for operands that carry the same labels (vector/vector) or no labels (scalar field, constants)"]

DT = ["int", "float", "complex"]
LABELS = {1: [None], 2: [None, ["a", "b"]], 3: [None, ["a", "b", "c"], ["z", "x", "y"]], 4: [None, ["p", "q", "r", "t"]]}


# ------------------------------------------------------------------ building blocks
def data(seed, shape, dtype):
    rng = np.random.default_rng(seed)
    if dtype == "int":
        a = rng.integers(-6, 7, size=shape).astype(np.int64)
        return a
    if dtype == "complex":
        return rng.uniform(-3, 3, size=shape) + 1j * rng.uniform(-3, 3, size=shape)
    return rng.uniform(-3, 3, size=shape)


def mask(seed, n):
    rng = np.random.default_rng(seed)
    mode = seed % 5
    if mode == 0:
        return np.ones(n, dtype=bool)
    if mode == 1:
        return np.zeros(n, dtype=bool)
    return rng.uniform(size=n) < (0.3 + 0.15 * mode)


class World:
    """mesh + the three operand fields rebuilt from params"""

    def __init__(self, pr):
        g = pr["geom"]
        self.n = [int(k) for k in g["n"]]
        self.ndim = len(self.n)
        self.k = int(pr["k"])
        self.mesh = df.Mesh(p1=tuple(g["p1"]), p2=tuple(g["p2"]), n=tuple(self.n))
        self.mesh_copy = df.Mesh(p1=tuple(g["p1"]), p2=tuple(g["p2"]), n=tuple(self.n))
        seed = pr["seed"]
        dims = list(self.mesh.region.dims)
        vd = pr.get("vdims")
        mp = None
        if pr.get("mapping") == "perm" and self.k > 1 and self.k <= self.ndim:
            labels = vd if vd is not None else (["x", "y", "z"][:self.k] if self.k <= 3 else ["v%d" % i for i in range(self.k)])
            perm = np.random.default_rng(seed + 3).permutation(self.ndim)[:self.k]
            mp = {lab: dims[j] for lab, j in zip(labels, perm)}
        self.raw, self.fields = {}, {}
        for j, (name, nv) in enumerate((("A", self.k), ("B", self.k), ("S", 1))):
            arr = data(seed + 11 * j, (*self.n, nv), pr["dtypes"][j])
            kw = {}
            if nv > 1 and vd is not None:
                kw["vdims"] = list(vd)
            if nv > 1 and mp is not None:
                kw["vdim_mapping"] = dict(mp)
            self.raw[name] = arr
            self.fields[name] = df.Field(self.mesh, nvdim=nv, value=arr.copy(), dtype=arr.dtype, valid=mask(seed + 7 * j + 1, tuple(self.n)),
                                         unit=[None, "T", "A/m"][(seed + j) % 3], **kw)
        self.arrays = {}   # per-cell ndarray operands handed to the library, by id

    def snapshot(self):
        out = {}
        for name, f in self.fields.items():
            out[name] = (f.array.tobytes(), str(f.array.dtype), f.array.shape, f.valid.tobytes(), str(f.valid.dtype), f.valid.shape,
                         None if f.vdims is None else list(f.vdims), dict(f.vdim_mapping), f.unit, f.nvdim, id(f.mesh), id(f.array), id(f.valid))
        return out

    def unchanged(self, snap):
        now = self.snapshot()
        bad = [name for name in snap if snap[name] != now[name]]
        same_mesh = all(f.mesh is self.mesh for f in self.fields.values()) and self.mesh == self.mesh_copy and \
            list(self.mesh.n) == self.n and len(self.mesh.subregions) == 0
        raw_ok = all(np.array_equal(self.fields[k].array, self.raw[k], equal_nan=True) for k in self.raw)
        return (not bad) and same_mesh and raw_ok, bad


def asfloat(a):
    a = np.asarray(a)
    return a.astype(float) if a.dtype.kind in "iub" else a


def eq(a, b):
    a, b = np.asarray(a), np.asarray(b)
    return a.shape == b.shape and bool(np.array_equal(a, b, equal_nan=True))


def close_sum(got, want, budget):
    """|got-want| <= 64 eps * budget where both finite; non-finite pattern must agree"""
    got, want = np.asarray(got), np.asarray(want)
    if got.shape != want.shape:
        return False
    fin = np.isfinite(want) & np.isfinite(budget)
    if not np.all(np.isfinite(got[fin])):
        return False
    return bool(np.all(np.abs(got[fin] - want[fin]) <= 64 * np.finfo(float).eps * budget[fin] + 1e-300))


def cabs(x):
    return np.abs(np.asarray(x))


def rounding_budget(tag, op, a, b, o):
    """None = the node must be exact; otherwise the per-element magnitude against which 64 ulp are allowed.
    Only complex products / quotients / powers get a budget: numpy's complex multiply is not bitwise reproducible across
    operand order, memory layout or scalar-vs-array evaluation (FMA in the SIMD loops), so 'the numpy value' is defined to rounding only."""
    if not (np.iscomplexobj(a) or np.iscomplexobj(b)):
        return None
    if tag in ("bin", "uf2") and op in ("mul", "multiply"):
        return cabs(a) * cabs(b) + np.zeros(np.shape(o))
    if tag in ("bin", "uf2") and op in ("div", "divide"):
        return cabs(a) / cabs(b) + np.zeros(np.shape(o))
    if tag == "bin" and op == "pow":
        return cabs(o)
    if tag == "cross":
        a, b = np.broadcast_arrays(a, b)
        A_, B_ = cabs(a), cabs(b)
        return np.stack([A_[..., 1] * B_[..., 2] + A_[..., 2] * B_[..., 1], A_[..., 2] * B_[..., 0] + A_[..., 0] * B_[..., 2],
                         A_[..., 0] * B_[..., 1] + A_[..., 1] * B_[..., 0]], axis=-1)
    return None


class LibRaise(Exception):
    def __init__(self, op, exc):
        self.op, self.exc = op, exc


class OracleRaise(Exception):
    pass


UF1 = {"sin": np.sin, "cos": np.cos, "exp": np.exp, "negative": np.negative, "absolute": np.absolute, "conjugate": np.conjugate,
       "square": np.square, "sqrt": np.sqrt}
UF2 = {"add": np.add, "subtract": np.subtract, "multiply": np.multiply, "divide": np.divide, "arctan2": np.arctan2, "hypot": np.hypot,
       "maximum": np.maximum, "minimum": np.minimum}
REAL_ONLY = {"arctan2", "hypot", "maximum", "minimum"}
BIN = {"add": lambda a, b: a + b, "sub": lambda a, b: a - b, "mul": lambda a, b: a * b, "div": lambda a, b: a / b, "pow": lambda a, b: a ** b}
# numpy side: the ufuncs themselves (ndarray.__pow__ has scalar-exponent fast paths that np.power does not share to the last ulp)
NPBIN = {"add": np.add, "sub": np.subtract, "mul": np.multiply, "div": np.divide, "pow": np.power}
PARTS = {"real": np.real, "imag": np.imag, "conjugate": np.conjugate, "phase": np.angle, "abs": np.abs}


def const_value(world, t):
    """(library operand, numpy operand) of a constant node"""
    tag = t[0]
    if tag == "num":
        return t[1], t[1]
    if tag == "npnum":
        return np.float64(t[1]), np.float64(t[1])
    if tag == "cnum":
        return complex(t[1], t[2]), complex(t[1], t[2])
    if tag in ("vec", "cvec"):
        vals = [complex(*x) for x in t[1]] if tag == "cvec" else list(t[1])
        lib = {"tuple": tuple(vals), "list": list(vals), "ndarray": np.array(vals)}[t[2]]
        return lib, np.array(vals)
    if tag == "arr":
        a = data(t[1], (*world.n, t[2]), "float")
        lib = a.copy()
        world.arrays[id(lib)] = (lib, a.tobytes())
        return lib, a
    raise AssertionError(t)


def is_const(t):
    return t[0] in ("num", "npnum", "cnum", "vec", "cvec", "arr")


def ev(world, t, notes):
    """-> (library value, oracle array); raises LibRaise / OracleRaise"""
    tag = t[0]
    if is_const(t):
        return const_value(world, t)
    if tag == "F":
        return world.fields[t[1]], world.raw[t[1]]       # the array as stored (integer leaves stay integer)
    kids = [ev(world, c, notes) for c in t[1:] if isinstance(c, list)]
    try:
        if tag in ("neg", "pos", "abs"):
            o = {"neg": lambda a: -a, "pos": lambda a: +a, "abs": np.abs}[tag](kids[0][1])
        elif tag == "part":
            o = PARTS[t[1]](kids[0][1])
        elif tag == "uf1":
            o = UF1[t[1]](kids[0][1])
        elif tag == "uf2":
            o = UF2[t[1]](kids[0][1], kids[1][1])
        elif tag == "bin":
            o = NPBIN[t[1]](kids[0][1], kids[1][1])
        elif tag == "dot":
            a, b = np.broadcast_arrays(kids[0][1], kids[1][1])
            o = np.zeros(a.shape[:-1], dtype=np.result_type(a, b, float))
            budget = np.zeros(a.shape[:-1])
            for l in range(a.shape[-1]):
                o = o + a[..., l] * b[..., l]
                budget = budget + np.abs(a[..., l] * b[..., l])
            o = o[..., None]
        elif tag == "cross":
            a, b = np.broadcast_arrays(kids[0][1], kids[1][1])
            o = np.stack([a[..., 1] * b[..., 2] - a[..., 2] * b[..., 1], a[..., 2] * b[..., 0] - a[..., 0] * b[..., 2],
                          a[..., 0] * b[..., 1] - a[..., 1] * b[..., 0]], axis=-1)
        elif tag == "stack":
            parts = []
            for (lv, ov) in kids:
                ov = np.asarray(ov)
                if ov.ndim <= 1:      # number or constant vector -> constant columns
                    ov = np.broadcast_to(np.atleast_1d(ov), (*world.n, np.atleast_1d(ov).shape[0]))
                parts.append(ov)
            o = np.concatenate(parts, axis=-1)
        else:
            raise AssertionError(t)
    except AssertionError:
        raise
    except Exception as e:
        raise OracleRaise(repr(e))
    o = asfloat(o)        # a Field stores integer results as float64 (dtype = max(result dtype, float64))
    try:
        la = kids[0][0]
        lb = kids[1][0] if len(kids) > 1 else None
        if tag == "neg":
            r = -la
        elif tag == "pos":
            r = +la
        elif tag == "abs":
            r = abs(la)
        elif tag == "part":
            r = getattr(la, t[1])
        elif tag == "uf1":
            r = UF1[t[1]](la)
        elif tag == "uf2":
            r = UF2[t[1]](la, lb)
        elif tag == "bin":
            r = BIN[t[1]](la, lb)
        elif tag == "dot":
            r = la.dot(lb) if t[-1] == "m" else la @ lb
        elif tag == "cross":
            r = la.cross(lb) if t[-1] == "m" else la & lb
        elif tag == "stack":
            r = la << lb
    except Exception as e:
        raise LibRaise(tag if tag not in ("bin", "uf1", "uf2", "part") else t[1], e)
    if not isinstance(r, df.Field):
        raise LibRaise(tag, TypeError("result is %s, not a Field" % type(r).__name__))
    if tag == "dot":
        bud = budget[..., None]
    else:
        bud = rounding_budget(tag, t[1], kids[0][1], kids[1][1] if len(kids) > 1 else None, o) if len(kids) > 1 else None
    if bud is not None and not eq(r.array, o):
        if not close_sum(r.array, o, bud):
            notes.append({"node": tag if tag != "bin" else t[1], "max_abs_diff": float(np.nanmax(np.abs(r.array - o))) if r.array.shape == np.shape(o) else None,
                          "shapes": [list(r.array.shape), list(np.shape(o))]})
        elif r.array.shape == np.shape(o):
            o = r.array.copy()      # continue from the library's (checked to rounding) value, so nothing above this node is loosened
    return r, o


# ------------------------------------------------------------------ tree generation
class Gen:
    def __init__(self, rng, k, dtypes, ndim):
        self.rng, self.k, self.dtypes = rng, k, dtypes
        self.any_int = "int" in dtypes
        self.cx_leaf = {"A": dtypes[0] == "complex", "B": dtypes[1] == "complex", "S": dtypes[2] == "complex"}

    def can(self, m, d):
        return m in (1, self.k) or (d >= 1 and m in (2, self.k + 1, 2 * self.k))

    def pick(self, xs):
        return xs[int(self.rng.integers(len(xs)))]

    def number(self, allow_complex=True):
        r = self.rng
        c = int(r.integers(5 if allow_complex else 4))
        if c == 0:
            return ["num", int(r.integers(-4, 5)) or 2], False
        if c == 1:
            return ["num", float(np.round(r.uniform(-3, 3), 3))], False
        if c == 2:
            return ["npnum", float(np.round(r.uniform(-3, 3), 3))], False
        if c == 3:
            return ["num", 0.5], False
        return ["cnum", float(np.round(r.uniform(-2, 2), 2)), float(np.round(r.uniform(-2, 2), 2))], True

    def vector(self, m, allow_complex=True):
        r = self.rng
        cont = self.pick(["tuple", "list", "ndarray"])
        if allow_complex and r.integers(5) == 0:
            return ["cvec", [[float(np.round(r.uniform(-2, 2), 2)), float(np.round(r.uniform(-2, 2), 2))] for _ in range(m)], cont], True
        if r.integers(2):
            return ["vec", [int(v) or 1 for v in r.integers(-4, 5, size=m)], cont], False
        return ["vec", [float(np.round(v, 3)) for v in r.uniform(-3, 3, size=m)], cont], False

    def const(self, m, allow_complex=True, allow_array=True):
        """a constant combinable with an nvdim-m field"""
        c = int(self.rng.integers(4))
        if c == 0 or (c == 3 and not allow_array):
            return self.number(allow_complex)
        if c in (1, 2):
            if m == 1 and self.rng.integers(2):
                return self.number(allow_complex)
            return self.vector(m, allow_complex)
        return ["arr", int(self.rng.integers(1 << 30)), m], False

    def field(self, d, m):
        """tree producing a field with m components; returns (tree, is_complex)"""
        r, k = self.rng, self.k
        if d == 0 or (m in (1, k) and r.integers(6) == 0):
            names = [nm for nm, nv in (("A", k), ("B", k), ("S", 1)) if nv == m]
            nm = self.pick(names)
            return ["F", nm], self.cx_leaf[nm]
        choices = []
        if self.can(m, d - 1):
            choices += ["unary", "unary", "bin_ff", "bin_ff", "bin_fc", "bin_cf", "uf2", "pow"]
            if m > 1:
                choices += ["bin_fs", "bin_sf"]
        if m > 1 and self.can(1, d - 1):
            choices += ["bin_sc"]          # scalar field (op) constant vector / per-cell array with m columns
        if m == 1 and k > 1:
            choices += ["dot", "dot"]
        if m == 3 and k == 3:
            choices += ["cross", "cross"]
        if m in (2, k + 1, 2 * k) and m >= 2:
            choices += ["stack", "stack", "stack"]
        c = self.pick(choices)
        op = self.pick(["add", "sub", "mul", "div"])
        if c == "unary":
            t, cx = self.field(d - 1, m)
            u = self.pick(["neg", "pos", "abs", "part", "part", "uf1", "uf1"])
            if u == "part":
                w = self.pick(list(PARTS))
                return ["part", w, t], cx and w == "conjugate"
            if u == "uf1":
                w = self.pick(list(UF1))
                return ["uf1", w, t], cx and w != "absolute"
            return [u, t], cx and u != "abs"
        if c == "bin_ff":
            (a, ca), (b, cb) = self.field(d - 1, m), self.field(d - 1, m)
            return ["bin", op, a, b], ca or cb
        if c in ("bin_fs", "bin_sf"):
            (a, ca), (b, cb) = self.field(d - 1, m), self.field(d - 1, 1)
            return (["bin", op, a, b] if c == "bin_fs" else ["bin", op, b, a]), ca or cb
        if c in ("bin_fc", "bin_cf"):
            (a, ca), (b, cb) = self.field(d - 1, m), self.const(m)
            return (["bin", op, a, b] if c == "bin_fc" else ["bin", op, b, a]), ca or cb
        if c == "bin_sc":
            (a, ca) = self.field(d - 1, 1)
            b, cb = (self.vector(m) if r.integers(3) else (["arr", int(r.integers(1 << 30)), m], False))
            return (["bin", op, a, b] if r.integers(2) else ["bin", op, b, a]), ca or cb
        if c == "pow":
            a, ca = self.field(d - 1, m)
            if not self.any_int and r.integers(3) == 0:
                b, cb = self.field(d - 1, m if r.integers(2) else 1)
            else:
                b, cb = ["num", self.pick([2, 3, 0.5, -1.5, 2.0])], False
            return ["bin", "pow", a, b], ca or cb
        if c == "uf2":
            w = self.pick(list(UF2))
            a, ca = self.field(d - 1, m)
            if ca and w in REAL_ONLY:
                a, ca = ["part", self.pick(["real", "imag", "abs"]), a], False
            form = int(r.integers(4))
            if form == 0:
                b, cb = self.field(d - 1, m)
            elif form == 1:
                b, cb = self.field(d - 1, 1)
            else:
                b, cb = self.const(m, allow_complex=w not in REAL_ONLY)
                if b[0] in ("vec", "cvec") and b[2] != "ndarray":
                    b = [b[0], b[1], "ndarray"]       # ufuncs take arrays, not tuples
            if cb and w in REAL_ONLY:
                b, cb = ["part", self.pick(["real", "imag", "abs"]), b], False
            return (["uf2", w, a, b] if form != 3 else ["uf2", w, b, a]), ca or cb
        if c == "dot":
            a, ca = self.field(d - 1, k)
            b, cb = self.field(d - 1, k) if r.integers(3) else self.vector(k)
            return ["dot", a, b, self.pick(["m", "o"])], ca or cb
        if c == "cross":
            a, ca = self.field(d - 1, 3)
            b, cb = self.field(d - 1, 3) if r.integers(3) else self.vector(3)
            return ["cross", a, b, self.pick(["m", "o"])], ca or cb
        if c == "stack":
            splits = [(m1, m - m1) for m1 in (1, k) if (m - m1) in (1, k)]
            m1, m2 = self.pick(splits)
            form = int(r.integers(5))
            a, ca = self.field(d - 1, m1)
            if form == 0:
                b, cb = (self.number() if m2 == 1 else self.vector(m2))
                return ["stack", a, b], ca or cb
            b, cb = self.field(d - 1, m2)
            return ["stack", a, b], ca or cb
        raise AssertionError(c)


def geom(rng, ndim, tier):
    hi = {1: 5, 2: 4, 3: 3, 4: 2}[ndim] + (0 if tier == "quick" else 1)
    p1, p2 = rand_region(rng, ndim)
    n = [int(rng.integers(1, hi + 1)) for _ in range(ndim)]
    if all(v == 1 for v in n):
        n[int(rng.integers(ndim))] = 2
    return {"p1": p1, "p2": p2, "n": n}


def cases(ctx):
    rng = ctx.rng
    quick = ctx.tier == "quick"
    depth_max = 3 if quick else 4
    reps = 2 if quick else 40

    def base(ndim, k):
        dt = [DT[int(rng.choice(3, p=[0.35, 0.45, 0.2]))] for _ in range(3)]
        labs = LABELS[k]
        return {"geom": geom(rng, ndim, ctx.tier), "k": k, "dtypes": dt, "vdims": labs[int(rng.integers(len(labs)))] if rng.integers(3) != 0 else None,
                "mapping": "perm" if rng.integers(3) == 0 else "default", "seed": int(rng.integers(1 << 30))}

    for ndim in (1, 2, 3, 4):
        for k in (1, 2, 3, 4):
            for _ in range(reps):
                for depth in [d for d in range(1, depth_max + 1) for _ in range(6 if quick else 8)]:
                    pr = base(ndim, k)
                    g = Gen(rng, k, pr["dtypes"], ndim)
                    root_m = [1, k, k, 2, k + 1][int(rng.integers(5))]
                    if not g.can(root_m, depth):
                        root_m = k
                    pr["tree"], _cx = g.field(depth, root_m)
                    pr["depth"] = depth
                    yield "expr", pr
                for u in ("neg", "pos", "abs"):         # every unary operator directly on a labelled operand
                    pr = base(ndim, k)
                    pr["tree"], pr["depth"] = [u, ["F", "A" if rng.integers(4) else "S"]], 1
                    yield "expr", pr
                # commutativity
                for pair in ("FF", "SF", "Fnum", "Fvec", "Farr", "Svec", "Sarr", "SS"):
                    for op in ("mul", "add"):
                        pr = base(ndim, k)
                        pr["pair"], pr["op"] = pair, op
                        yield "commute", pr
                pr = base(ndim, k)
                yield "stack", pr
                for what in ("dot", "cross", "angle"):
                    for other in ("field", "tuple", "list", "ndarray", "reflected"):
                        if what == "cross" and k != 3:
                            continue
                        pr = base(ndim, k)
                        if what == "angle":
                            pr["dtypes"] = [d if d != "complex" else "float" for d in pr["dtypes"]]
                            if other == "reflected":
                                continue
                        pr["what"], pr["other"] = what, other
                        yield "product", pr
                pr = base(ndim, k)
                yield "parts", pr
                for name in list(UF1) + list(UF2):
                    if rng.integers(3 if quick else 1) == 0:
                        pr = base(ndim, k)
                        pr["ufunc"] = name
                        pr["form"] = ["FF", "FS", "SF", "Fnum", "numF", "Farr", "arrF"][int(rng.integers(7))]
                        yield "ufunc", pr
                for op in ("add", "sub", "mul", "div", "pow"):
                    for left in ("int", "float", "complex", "npfloat", "tuple", "list", "ndarray", "percell"):
                        if quick and rng.integers(3):
                            continue
                        pr = base(ndim, k)
                        pr["op"], pr["left"] = op, left
                        yield "reflected", pr
    # rejections
    for why in ("mesh_shift", "mesh_n", "mesh_scale", "nvdim", "vec_len", "type", "cross_nvdim"):
        for op in ("add", "sub", "mul", "div", "pow", "dot", "cross", "angle", "stack", "ufunc_add", "ufunc_multiply"):
            if why == "nvdim" and op == "stack":
                continue
            if why == "cross_nvdim" and op != "cross":
                continue
            if why in ("vec_len", "type") and op in ("stack", "ufunc_add", "ufunc_multiply"):
                continue
            for _ in range(1 if quick else 4):
                ndim = int(rng.integers(1, 5))
                k = 3 if op == "cross" and why != "cross_nvdim" else int(rng.integers(2, 5))
                if why == "cross_nvdim":
                    k = [2, 4][int(rng.integers(2))]
                pr = base(ndim, k)
                pr["why"], pr["op"] = why, op
                yield "reject", pr


# ------------------------------------------------------------------ check
KIND_CLAUSE = {"expr": "C03.expr", "commute": "C03.commute", "stack": "C03.stack", "product": "C03.dot_cross_angle", "parts": "C03.complex", "ufunc": "C03.ufunc", "reflected": "C03.reflected", "reject": "C03.reject"}


def check(kind, pr, ctx):
    with warnings.catch_warnings():
        warnings.simplefilter("ignore")
        with np.errstate(all="ignore"):
            try:
                _check(kind, pr, ctx)
            except Exception as e:      # an exception raised inside the library on a path the checker did not expect to fail
                if not _from_library(e):
                    raise
                ctx.require(False, KIND_CLAUSE[kind], "the library raised unexpectedly while the case was set up / evaluated",
                            sig="unexpected-library-exception:%s" % type(e).__name__, error=repr(e)[:300])


def _from_library(e):
    tb = e.__traceback__
    last = None
    while tb is not None:
        last = tb.tb_frame.f_code.co_filename
        if os.sep + "discretisedfield" + os.sep in last:
            return True
        tb = tb.tb_next
    return False


def field_meta_ok(r, world, nvdim):
    return isinstance(r, df.Field) and r.mesh == world.mesh_copy and r.nvdim == nvdim and r.array.shape == (*world.n, nvdim)


def _check(kind, pr, ctx):
    w = World(pr)
    if int(np.prod(w.n)) == 1:
        ctx.trivial()
    snap = w.snapshot()
    A, B, S = w.fields["A"], w.fields["B"], w.fields["S"]
    rA, rB, rS = w.raw["A"], w.raw["B"], w.raw["S"]
    k, seed = w.k, pr["seed"]
    custom = pr.get("vdims") is not None

    if kind == "expr":
        notes = []
        try:
            r, o = ev(w, pr["tree"], notes)
        except OracleRaise:
            ctx.trivial()
            ctx.require(True, "C03.expr", "numpy itself rejects this expression; skipped")
        except LibRaise as e:
            sig = "lib-raises:%s:%s" % (e.op, type(e.exc).__name__)
            if e.op == "abs" and custom:
                sig = "abs-custom-vdims-raises"
            ctx.require(False, "C03.expr", "the library raised on an expression numpy evaluates", sig=sig, error=repr(e.exc)[:300])
        else:
            ctx.require(not notes, "C03.expr", "a dot node / complex product node differs from numpy by more than 64 ulp", sig="node-rounding", notes=notes)
            nv = np.asarray(o).shape[-1]
            ctx.require(field_meta_ok(r, w, nv), "C03.expr", "result is not a field on the operands' mesh with shape (*n, nvdim)",
                        sig="result-meta", got_shape=getattr(getattr(r, "array", None), "shape", None), want_nvdim=nv)
            ok = eq(r.array, o)
            det = {}
            if not ok and r.array.shape == np.asarray(o).shape:
                bad = np.argwhere(~((r.array == o) | (np.isnan(r.array) & np.isnan(o))))
                det = {"cells_wrong": int(len(bad)), "first": bad[0].tolist(), "got": r.array[tuple(bad[0])], "want": np.asarray(o)[tuple(bad[0])]}
            ctx.require(ok, "C03.expr", "array differs from the numpy evaluation of the same expression", sig="expr-value", **det)
        ok, bad = w.unchanged(snap)
        arrs_ok = all(a.tobytes() == b for a, b in w.arrays.values())
        ctx.require(ok and arrs_ok, "C03.operands", "an operand changed during evaluation", sig="operand-changed", changed=bad)
        return

    if kind == "commute":
        pair, op = pr["pair"], pr["op"]
        num = [2, -1.5, 2.5 - 1j][seed % 3]
        vec = data(seed + 91, (k,), ["int", "float", "complex"][seed % 3])
        vecc = {0: tuple(vec.tolist()), 1: vec.tolist(), 2: vec.copy()}[(seed // 3) % 3]
        arrk = data(seed + 92, (*w.n, k), "float")
        a, b = {"FF": (A, B), "SF": (S, A), "Fnum": (A, num), "Fvec": (A, vecc), "Farr": (A, arrk), "Svec": (S, vecc), "Sarr": (S, arrk),
                "SS": (S, w.fields["S"] * 2 + 1)}[pair]
        if pair == "SS":
            snap = w.snapshot()
        f = BIN[op]
        r1x, r1 = raises(Exception, f, a, b)
        r2x, r2 = raises(Exception, f, b, a)
        if r1x or r2x:
            ctx.require(False, "C03.commute", "a(op)b or b(op)a raised", sig="commute-raises:%s" % pair, error=repr(r1 if r1x else r2)[:200])
        else:
            isf = isinstance(r1, df.Field) and isinstance(r2, df.Field)
            ra_ = a.array if isinstance(a, df.Field) else np.asarray(a)
            rb_ = b.array if isinstance(b, df.Field) else np.asarray(b)
            n1, n2 = NPBIN[op](ra_, rb_), NPBIN[op](rb_, ra_)
            if eq(n1, n2):
                okv = isf and eq(r1.array, r2.array)
            else:       # numpy itself does not commute bitwise on these (complex) operands
                okv = isf and (eq(r1.array, n1) or eq(r1.array, n2)) and (eq(r2.array, n1) or eq(r2.array, n2))
            ctx.require(okv and r1.nvdim == r2.nvdim and r1.mesh == r2.mesh, "C03.commute",
                        "a(op)b and b(op)a differ in value / nvdim / mesh", sig="commute-value:%s" % pair)
            if isf:
                same_lab = r1.vdims == r2.vdims and r1.vdim_mapping == r2.vdim_mapping
                sig = "commute-labels:%s" % pair
                if pair == "SF" and k > 1:
                    sig = "scalar-field-times-vector-field-labels-differ"
                ctx.require(same_lab, "C03.commute", "a(op)b and b(op)a differ in vdims / vdim_mapping", sig=sig,
                            vdims=[r1.vdims, r2.vdims], mapping=[r1.vdim_mapping, r2.vdim_mapping])
                ctx.require(r1.unit == r2.unit, "C03.commute", "a(op)b and b(op)a differ in unit", sig="commute-unit:%s" % pair, units=[r1.unit, r2.unit])
                sigv = "commute-valid:%s" % pair
                if isinstance(b, np.ndarray):
                    sigv = "ndarray-on-the-left-goes-through-ufunc-valid-dropped"
                ctx.require(eq(r1.valid, r2.valid), "C03.commute", "a(op)b and b(op)a differ in valid", sig=sigv)
        ok, bad = w.unchanged(snap)
        ctx.require(ok and eq(arrk, data(seed + 92, (*w.n, k), "float")), "C03.operands", "an operand changed", sig="operand-changed", changed=bad)
        return

    if kind == "stack":
        if k >= 2:
            labs = A.vdims
            rx, r = raises(Exception, lambda: _stack_all([getattr(A, lab) for lab in labs]))
            if rx:
                ctx.require(False, "C03.stack", "stacking the components raised", sig="stack-raises", error=repr(r)[:200])
            else:
                ctx.require(field_meta_ok(r, w, k) and eq(r.array, w.raw["A"]) and eq(r.valid, A.valid), "C03.stack",
                            "stacked components differ from the field (array / nvdim / mesh / valid)", sig="stack-value")
                if not custom and pr.get("mapping") != "perm":
                    ctx.require(r.vdims == A.vdims and r.vdim_mapping == A.vdim_mapping, "C03.stack",
                                "stacked components of a default-labelled field have other labels / mapping", sig="stack-labels",
                                vdims=[r.vdims, A.vdims], mapping=[r.vdim_mapping, A.vdim_mapping])
        # constants
        num = [2, -1.5, 2.5 - 1j][seed % 3]
        vec = data(seed + 91, (2,), ["int", "float"][seed % 2])
        vecc = {0: tuple(vec.tolist()), 1: vec.tolist(), 2: vec.copy()}[(seed // 3) % 3]
        full = lambda c: np.broadcast_to(np.atleast_1d(np.asarray(c)), (*w.n, np.atleast_1d(np.asarray(c)).shape[0]))
        for lhs, rhs, want in ((A, num, np.concatenate([rA, full(num)], -1)), (num, A, np.concatenate([full(num), rA], -1)),
                               (S, vecc, np.concatenate([rS, full(vec)], -1)), (vecc, S, np.concatenate([full(vec), rS], -1)),
                               (S, A, np.concatenate([rS, rA], -1)), (A, B, np.concatenate([rA, rB], -1))):
            if isinstance(lhs, np.ndarray):
                continue     # ndarray << field is numpy's left_shift ufunc, not stacking
            rx, r = raises(Exception, lambda: lhs << rhs)
            ctx.require((not rx) and field_meta_ok(r, w, want.shape[-1]) and eq(r.array, want), "C03.stack", "f<<c / c<<f / f<<g is not the concatenation of the columns",
                        sig="stack-const" if not isinstance(rhs, df.Field) or not isinstance(lhs, df.Field) else "stack-fields",
                        error=repr(r)[:200] if rx else None)
        ok, bad = w.unchanged(snap)
        ctx.require(ok, "C03.operands", "an operand changed", sig="operand-changed", changed=bad)
        return

    if kind == "product":
        what, other = pr["what"], pr["other"]
        vec = data(seed + 91, (k,), pr["dtypes"][1])
        if other == "field":
            lib_b, ob = B, np.asarray(rB)
        else:
            lib_b = {"tuple": tuple(vec.tolist()), "list": vec.tolist(), "ndarray": vec.copy(), "reflected": [tuple(vec.tolist()), vec.tolist(), vec.copy()][seed % 3]}[other]
            ob = np.broadcast_to(asfloat(vec), rA.shape)
        if what == "angle" and k == 1 and other not in ("field",) and seed % 2:
            lib_b, ob = float(vec[0]), np.broadcast_to(asfloat(vec), rA.shape)
        use_op = seed % 2 == 0
        if other == "reflected":
            fn = (lambda: lib_b @ A) if what == "dot" else (lambda: lib_b & A)
        elif what == "dot":
            fn = (lambda: A @ lib_b) if use_op else (lambda: A.dot(lib_b))
        elif what == "cross":
            fn = (lambda: A & lib_b) if use_op else (lambda: A.cross(lib_b))
        else:
            fn = lambda: A.angle(lib_b)
        rx, r = (True, None) if (other == "reflected" and isinstance(lib_b, np.ndarray)) else raises(Exception, fn)
        if other == "reflected" and isinstance(lib_b, np.ndarray):
            ctx.trivial()       # ndarray @ field / ndarray & field are numpy's matmul / bitwise_and, not the field product
            ctx.require(True, "C03.dot_cross_angle", "n/a")
            return
        if rx:
            ctx.require(False, "C03.dot_cross_angle", "%s raised" % what, sig="%s-raises:%s:%s" % (what, other, type(r).__name__), error=repr(r)[:200])
        else:
            want = np.zeros((*w.n, 3 if what == "cross" else 1), dtype=np.result_type(rA, ob, float))
            budget = np.zeros((*w.n, 1))
            for idx in itertools.product(*[range(v) for v in w.n]):
                a, b = rA[idx], ob[idx]
                if other == "reflected" and what == "cross":
                    a, b = b, a
                if what == "cross":
                    want[idx] = [a[1] * b[2] - a[2] * b[1], a[2] * b[0] - a[0] * b[2], a[0] * b[1] - a[1] * b[0]]
                    continue
                s = 0
                for l in range(k):
                    s = s + a[l] * b[l]
                    budget[idx] += abs(a[l] * b[l])
                if what == "dot":
                    want[idx] = s
                else:
                    na = np.sqrt(sum(abs(x) ** 2 for x in a))
                    nb = np.sqrt(sum(abs(x) ** 2 for x in b))
                    want[idx] = s / (na * nb)
            meta = field_meta_ok(r, w, want.shape[-1])
            if what == "dot":
                ok = meta and close_sum(r.array, want, budget)
            elif what == "cross":
                ok = meta and eq(r.array, want)
                if meta and not ok and np.iscomplexobj(want):
                    ok = close_sum(r.array, want, rounding_budget("cross", None, rA if other != "reflected" else ob, ob if other != "reflected" else rA, want))
            else:
                ok = meta
                if meta:
                    th = r.array
                    fin = np.isfinite(want) & (np.abs(want) < 1 - 1e-9)
                    ok = bool(np.all(np.isfinite(th[fin])) and np.all(np.abs(np.cos(th[fin]) - want[fin]) <= 64 * np.finfo(float).eps)
                              and np.all((th[fin] >= 0) & (th[fin] <= np.pi)))
                    par = np.isfinite(want) & ~fin          # (anti)parallel to rounding: 0 or pi (or NaN when the quotient rounds above 1)
                    ok = ok and bool(np.all(np.isnan(th[par]) | (np.abs(np.cos(th[par]) - want[par]) <= 1e-8)))
            ctx.require(ok, "C03.dot_cross_angle", "%s differs from the per-cell formula" % what, sig="%s-value:%s" % (what, other))
        ok, bad = w.unchanged(snap)
        ctx.require(ok, "C03.operands", "an operand changed", sig="operand-changed", changed=bad)
        return

    if kind == "parts":
        for name, fn in PARTS.items():
            for f, raw in ((A, w.raw["A"]), (S, w.raw["S"])):
                rx, r = raises(Exception, getattr, f, name)
                ok = (not rx) and field_meta_ok(r, w, f.nvdim) and eq(r.array, fn(raw))
                lab = (not rx) and isinstance(r, df.Field) and r.vdims == f.vdims and r.vdim_mapping == f.vdim_mapping
                ctx.require(ok, "C03.complex", "%s differs from numpy" % name, sig="part-value:" + name, error=repr(r)[:200] if rx else None)
                ctx.require(lab, "C03.complex", "%s changes labels / mapping" % name, sig="part-labels:" + name)
        ok, bad = w.unchanged(snap)
        ctx.require(ok, "C03.operands", "an operand changed", sig="operand-changed", changed=bad)
        return

    if kind == "ufunc":
        name, form = pr["ufunc"], pr["form"]
        num = [2, -1.5, 0.75][seed % 3]
        arrk = np.abs(data(seed + 92, (*w.n, k), "float")) + 0.5
        real = name in REAL_ONLY
        fa, ra = (A, rA) if not (real and pr["dtypes"][0] == "complex") else (A.real, np.real(rA))
        fb, rb = (B, rB) if not (real and pr["dtypes"][1] == "complex") else (B.imag, np.imag(rB))
        fs, rs = (S, rS) if not (real and pr["dtypes"][2] == "complex") else (S.real, np.real(rS))
        if real and "complex" in pr["dtypes"]:
            snap = w.snapshot()
        if name in UF1:
            rx, r = raises(Exception, UF1[name], fa)
            want = UF1[name](ra)
        else:
            ops = {"FF": ((fa, fb), (ra, rb)), "FS": ((fa, fs), (ra, rs)), "SF": ((fs, fa), (rs, ra)), "Fnum": ((fa, num), (ra, num)),
                   "numF": ((num, fa), (num, ra)), "Farr": ((fa, arrk), (ra, arrk)), "arrF": ((arrk, fa), (arrk, ra))}[form]
            rx, r = raises(Exception, UF2[name], *ops[0])
            want = UF2[name](*ops[1])
        ctx.require((not rx) and field_meta_ok(r, w, want.shape[-1]) and eq(r.array, want), "C03.ufunc", "ufunc result differs from the ufunc of the raw arrays",
                    sig="ufunc:%s" % name, error=repr(r)[:200] if rx else None)
        ok, bad = w.unchanged(snap)
        ctx.require(ok, "C03.operands", "an operand changed", sig="operand-changed", changed=bad)
        return

    if kind == "reflected":
        op, left = pr["op"], pr["left"]
        vec = data(seed + 91, (k,), ["int", "float"][seed % 2])
        vec = np.where(vec == 0, 1, vec)
        c = {"int": int(seed % 5) + 2, "float": 1.75, "complex": 1.5 - 0.5j, "npfloat": np.float64(2.25), "tuple": tuple(vec.tolist()), "list": vec.tolist(),
             "ndarray": vec.copy(), "percell": np.abs(data(seed + 92, (*w.n, k), "float")) + 0.5}[left]
        oc = np.asarray(c)
        f = A
        rx, r = raises(Exception, BIN[op], c, f)
        orx, want = raises(Exception, NPBIN[op], oc, w.raw["A"])      # raw dtypes: numpy's own integer-power rules apply
        if orx:
            ctx.trivial()
            ctx.require(True, "C03.reflected", "numpy rejects; skipped")
        else:
            sig = "reflected:%s:%s" % (op, left)
            if rx and op == "pow" and left in ("int", "float", "complex", "tuple", "list"):
                sig = "rpow-missing"
            okv = (not rx) and field_meta_ok(r, w, k) and (eq(r.array, want) or (op == "mul" and eq(r.array, np.multiply(w.raw["A"], oc))))
            ctx.require(okv, "C03.reflected", "c(op)f differs from numpy / raised", sig=sig,
                        error=repr(r)[:200] if rx else None)
        ok, bad = w.unchanged(snap)
        ctx.require(ok, "C03.operands", "an operand changed", sig="operand-changed", changed=bad)
        return

    if kind == "reject":
        why, op = pr["why"], pr["op"]
        g = pr["geom"]
        p1, p2 = np.array(g["p1"]), np.array(g["p2"])
        other = None
        if why == "mesh_shift":
            m2 = df.Mesh(p1=tuple(p1 + 0.5 * (p2 - p1)), p2=tuple(p2 + 0.5 * (p2 - p1)), n=tuple(w.n))
            other = df.Field(m2, nvdim=k, value=w.raw["B"])
        elif why == "mesh_scale":
            m2 = df.Mesh(p1=tuple(p1), p2=tuple(p1 + 2 * (p2 - p1)), n=tuple(w.n))
            other = df.Field(m2, nvdim=k, value=w.raw["B"])
        elif why == "mesh_n":
            n2 = list(w.n)
            n2[seed % w.ndim] += 1
            m2 = df.Mesh(p1=tuple(p1), p2=tuple(p2), n=tuple(n2))
            other = df.Field(m2, nvdim=k, value=data(seed + 5, (*n2, k), "float"))
        elif why == "nvdim":
            k2 = k + 1 if k < 4 else 2
            other = df.Field(w.mesh, nvdim=k2, value=data(seed + 5, (*w.n, k2), "float"))
        elif why == "cross_nvdim":
            other = B
        elif why == "vec_len":
            L = k + 1
            v = data(seed + 5, (L,), "float")
            other = [tuple(v.tolist()), v.tolist(), v][seed % 3]
        elif why == "type":
            other = ["abc", None, {"a": 1}, object()][seed % 4]
        fns = {"add": lambda: A + other, "sub": lambda: A - other, "mul": lambda: A * other, "div": lambda: A / other, "pow": lambda: A ** other,
               "dot": lambda: A.dot(other), "cross": lambda: A.cross(other), "angle": lambda: A.angle(other), "stack": lambda: A << other,
               "ufunc_add": lambda: np.add(A, other), "ufunc_multiply": lambda: np.multiply(A, other)}
        rx, r = raises(Exception, fns[op])
        rx2 = True
        if isinstance(other, df.Field) and op in ("add", "sub", "mul", "div", "pow", "dot", "cross", "angle", "stack"):
            swapped = {"add": lambda: other + A, "sub": lambda: other - A, "mul": lambda: other * A, "div": lambda: other / A, "pow": lambda: other ** A,
                       "dot": lambda: other.dot(A), "cross": lambda: other.cross(A), "angle": lambda: other.angle(A), "stack": lambda: other << A}
            rx2 = raises(Exception, swapped[op])[0]
        sig = "reject:%s:%s" % (why, op)
        if op.startswith("ufunc") and why.startswith("mesh") and not rx:
            sig = "ufunc-different-mesh-accepted"
        ctx.require(rx and rx2, "C03.reject", "an incompatible combination was accepted", sig=sig,
                    result=None if rx else repr(type(r)), swapped_raised=rx2)
        ok, bad = w.unchanged(snap)
        ctx.require(ok, "C03.operands", "an operand changed by a rejected operation", sig="operand-changed", changed=bad)
        return
    raise AssertionError(kind)


def _stack_all(fields):
    r = fields[0]
    for f in fields[1:]:
        r = r << f
    return r
