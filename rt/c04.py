"""C04 bounded run-time tier: Field.diff on the real code.

Exhaustive part: every validity mask of every line length L <= 10 (quick) / 14 (thorough), both
derivative orders, open and periodic direction, observed through unit-vector response matrices
(one field with L components, component c = unit vector e_c) with the cell size a power of two, so
that every number involved is exactly representable and the comparison is `==`.
Sampled part: 1-4-dimensional meshes, every axis, random masks / values / labels.

The oracle is written out by hand from the property statement (coefficient tables below); it never
calls np.gradient, np.convolve or anything of discretisedfield."""
import itertools
import numpy as np
import discretisedfield as df
from .common import raises, ulp_close

PROPERTY = "C04"
CLAUSES = {
    "C04.stencil_open": "open line: the unit-vector response matrix equals, exactly (dx a power of two), the matrix that applies to every maximal valid run its own stencil (order 1: centred (-1/2,0,1/2)/dx inside, (-3/2,2,-1/2)/dx and mirrored at the ends of runs >= 3, (-1,1)/dx on two-cell runs; order 2: (1,-2,1)/dx^2 inside and on three-cell runs, (2,-5,4,-1)/dx^2 and mirrored at the ends of runs >= 4)",
    "C04.poly_exact": "a run longer than the order returns the exact derivative of a polynomial of degree <=2 (order 1; <=1 on two-cell runs) / <=3 (order 2; <=2 on three-cell runs); a different polynomial on every run, integer coefficients, dx a power of two, compared with ==",
    "C04.zero_short_invalid": "invalid cells and runs not longer than the derivative order yield exactly zero, whatever values they hold",
    "C04.run_isolation": "a cell's result does not depend on values outside its own run: response-matrix entries outside the run are zero, and replacing every value outside a run (invalid cells by +-1e300, other runs by new numbers) leaves the run's result bitwise unchanged",
    "C04.linearity": "diff(a*f+b*g) == a*diff(f)+b*diff(g) within 64 ulp of (|a|max|f|+|b|max|g|)/dx^order",
    "C04.per_line_component": "on 1-4-d meshes, along every axis, every component of every grid line equals the 1-d oracle matrix of that line's mask applied to that line's values (== for integer values and power-of-two cells, else within 64 ulp of max|line values|/dx^order)",
    "C04.line_independence": "changing the values of one grid line of one component leaves every other line and component bitwise unchanged",
    "C04.metadata": "the result keeps the mesh, vdims, unit, vdim_mapping and the validity mask, and has the shape of the field",
    "C04.restrict_off": "restrict2valid=False treats the whole line as one run (response matrix of the all-valid mask), validity mask still kept",
    "C04.ring_centred": "periodic direction, fully valid ring (or restrict2valid=False): response matrix == circulant centred difference with wrap-around ((-1/2,0,1/2)/dx, (1,-2,1)/dx^2), exactly, for every ring length >= 1",
    "C04.ring_shift": "periodic direction: diff of the cyclically shifted field (values and mask) == cyclically shifted diff, bitwise, for every mask",
    "C04.ring_runs": "periodic direction with invalid cells: the ring cut open at an invalid cell is an open line; the response matrix equals the open-line oracle of the cut ring (runs may wrap around the boundary)",
}
RULE = ("line: every (L, mask) with 1 <= L <= 10 (quick) / 14 (thorough) and all 2^L masks, open and periodic, both orders, "
        "dx = 2^e and offset drawn from the seed; grid: seeded 1-4-d meshes (n <= 6 per axis, anisotropic cells, renamed dims, "
        "1-5 components, random masks of density 1/0.9/0.7/0.5, periodic subsets of the directions), every axis, both orders; "
        "trivial = L == 1 / single-cell mesh; distinct by (kind, params)")
ASSUMPTIONS = ["bounded: line lengths <= 14 exhaustively in the masks; values by unit vectors + linearity clause + seeded samples",
               "bounded: multi-dimensional meshes sampled (<= 6 cells per axis, <= 4 dims, <= 5 components)",
               "trusted: numpy elementwise arithmetic, Field construction from an array and a boolean valid array"]
BUDGET_S = {"quick": 120, "thorough": 1500}

SIG_WRAP = "periodic-run-across-boundary-truncated"


# ------------------------------------------------------------------ oracle (hand-written tables)
def runs_of(mask):
    """maximal runs [s, e) of True"""
    out, s = [], None
    for i, v in enumerate(list(mask) + [False]):
        if v and s is None:
            s = i
        elif not v and s is not None:
            out.append((s, i))
            s = None
    return out


# coefficient tables in units of 1/dx (order 1) and 1/dx^2 (order 2)
O1_PAIR = (-1.0, 1.0)                 # both cells of a two-cell run
O1_FIRST = (-1.5, 2.0, -0.5)          # first cell of a run >= 3, on cells s, s+1, s+2
O1_LAST = (0.5, -2.0, 1.5)            # last cell, on cells e-3, e-2, e-1
O1_MID = (-0.5, 0.0, 0.5)             # on j-1, j, j+1
O2_MID = (1.0, -2.0, 1.0)             # on j-1, j, j+1; on a three-cell run all three cells use the run's cells
O2_FIRST = (2.0, -5.0, 4.0, -1.0)     # first cell of a run >= 4, on s..s+3
O2_LAST = (-1.0, 4.0, -5.0, 2.0)      # last cell, on e-4..e-1


def open_matrix(mask, order):
    """expected response matrix (times dx^order) of an open line with validity `mask`"""
    L = len(mask)
    M = np.zeros((L, L))
    for s, e in runs_of(mask):
        n = e - s
        if order == 1:
            if n == 2:
                M[s, s:e] = O1_PAIR
                M[s + 1, s:e] = O1_PAIR
            elif n >= 3:
                M[s, s:s + 3] = O1_FIRST
                M[e - 1, e - 3:e] = O1_LAST
                for j in range(s + 1, e - 1):
                    M[j, j - 1:j + 2] = O1_MID
        else:
            if n == 3:
                for j in range(s, e):
                    M[j, s:e] = O2_MID
            elif n >= 4:
                M[s, s:s + 4] = O2_FIRST
                M[e - 1, e - 4:e] = O2_LAST
                for j in range(s + 1, e - 1):
                    M[j, j - 1:j + 2] = O2_MID
    return M


def circulant_matrix(L, order):
    M = np.zeros((L, L))
    co = O1_MID if order == 1 else O2_MID
    for j in range(L):
        for k, c in zip((-1, 0, 1), co):
            M[j, (j + k) % L] += c
    return M


def ring_matrix(mask, order):
    """expected response matrix (times dx^order) on a ring"""
    L = len(mask)
    if all(mask):
        return circulant_matrix(L, order)
    c = list(mask).index(False)
    perm = [(c + k) % L for k in range(L)]           # cut the ring at the invalid cell c
    Mo = open_matrix([mask[p] for p in perm], order)
    M = np.zeros((L, L))
    for a in range(L):
        for b in range(L):
            M[perm[a], perm[b]] = Mo[a, b]
    return M


def has_wrap_run(mask):
    return bool(mask[0] and mask[-1] and not all(mask))


def wrap_run_cells(mask):
    """cells of the run that crosses the boundary of a ring (empty if none)"""
    if not has_wrap_run(mask):
        return set()
    L = len(mask)
    cells = set()
    i = 0
    while mask[i]:
        cells.add(i)
        i += 1
    i = L - 1
    while mask[i]:
        cells.add(i)
        i -= 1
    return cells


def polyval(c, x):
    return c[0] + c[1] * x + c[2] * x ** 2 + c[3] * x ** 3


def polyder(c, x, order):
    if order == 1:
        return c[1] + 2 * c[2] * x + 3 * c[3] * x ** 2
    return 2 * c[2] + 6 * c[3] * x


# ------------------------------------------------------------------ cases
def cases(ctx):
    rng = ctx.rng
    Lmax = 10 if ctx.tier == "quick" else 14
    for L in range(1, Lmax + 1):
        for m in range(1 << L):
            e = int(rng.integers(-3, 4))
            off = int(rng.integers(-4, 5))
            yield "line", {"L": L, "mask": m, "periodic": False, "e": e, "off": off, "seed": int(rng.integers(1 << 30))}
            yield "line", {"L": L, "mask": m, "periodic": True, "e": e, "off": off, "seed": int(rng.integers(1 << 30))}
    reps = 4 if ctx.tier == "quick" else 16
    names = ["a", "b", "c", "e", "g", "h", "k", "p", "q", "r", "s", "u", "w", "x", "y", "z"]
    vnames = ["p", "q", "r", "s", "u", "w", "ma", "mb", "e1", "e2", "alpha", "x", "y", "z"]
    units = [None, "T", "A/m", "kg"]
    for ndim in (1, 2, 3, 4):
        for bcmode in ("open", "some", "all"):
            for exact in (True, False):
                for _ in range(reps):
                    hi = {1: 9, 2: 6, 3: 5, 4: 4}[ndim]
                    n = rng.integers(1, hi + 1, size=ndim).tolist()
                    if max(n) < 3:
                        n[int(rng.integers(ndim))] = int(rng.integers(3, hi + 1))
                    dims = [str(d) for d in rng.choice(names, size=ndim, replace=False)]
                    if exact:
                        cell = (2.0 ** rng.integers(-3, 4, size=ndim)).tolist()
                        p1 = (np.array(cell) * rng.integers(-5, 6, size=ndim)).tolist()
                    else:
                        cell = (10.0 ** rng.uniform(-9, 1, size=ndim)).tolist()
                        p1 = (np.array(cell) * rng.uniform(-20, 20, size=ndim)).tolist()
                    if bcmode == "open":
                        bc = ""
                    elif bcmode == "all":
                        bc = "".join(dims)
                    else:
                        k = int(rng.integers(1, ndim + 1))
                        bc = "".join(str(d) for d in rng.choice(dims, size=k, replace=False))
                    nvdim = int(rng.integers(1, 6))
                    vdims = [str(v) for v in rng.choice(vnames, size=nvdim, replace=False)]
                    if nvdim == ndim and rng.random() < 0.7:
                        mapping = dict(zip(vdims, [str(d) for d in rng.permutation(dims)]))
                    else:
                        mapping = None
                    yield "grid", {"n": n, "cell": cell, "p1": p1, "dims": dims, "bc": bc, "nvdim": nvdim,
                                   "vdims": vdims if (nvdim > 1 or rng.random() < 0.5) else None,
                                   "mapping": mapping, "unit": units[int(rng.integers(len(units)))],
                                   "density": [1.0, 0.9, 0.7, 0.5][int(rng.integers(4))], "exact": exact,
                                   "seed": int(rng.integers(1 << 30))}
    # fixed corner cases: single-cell / two-cell periodic directions inside a 3-d mesh, fully valid and not
    for dens in (1.0, 0.6):
        yield "grid", {"n": [1, 2, 5], "cell": [0.5, 0.25, 2.0], "p1": [0.0, 1.0, -2.0], "dims": ["u", "v", "w"], "bc": "uvw",
                       "nvdim": 3, "vdims": ["z", "x", "y"], "mapping": {"z": "v", "x": "w", "y": "u"}, "unit": "T",
                       "density": dens, "exact": True, "seed": 5}
        yield "grid", {"n": [2, 1, 3], "cell": [1e-9, 3e-9, 0.7e-9], "p1": [1e-9, 0.0, -5e-9], "dims": ["x", "y", "z"], "bc": "",
                       "nvdim": 2, "vdims": ["ma", "mb"], "mapping": None, "unit": None,
                       "density": dens, "exact": False, "seed": 6}


# ------------------------------------------------------------------ checks
def check(kind, pr, ctx):
    if kind == "line":
        return check_line(pr, ctx)
    return check_grid(pr, ctx)


def _meta_ok(d, f):
    return (d.mesh == f.mesh and d.mesh.bc == f.mesh.bc and d.mesh.region.dims == f.mesh.region.dims
            and d.vdims == f.vdims and d.unit == f.unit and d.vdim_mapping == f.vdim_mapping
            and d.nvdim == f.nvdim and d.array.shape == f.array.shape
            and d.valid.shape == f.valid.shape and np.array_equal(d.valid, f.valid))


def check_line(pr, ctx):
    L, m, periodic = pr["L"], pr["mask"], pr["periodic"]
    mask = [bool((m >> i) & 1) for i in range(L)]
    dx = 2.0 ** pr["e"]
    off = pr["off"]
    rng = np.random.default_rng(pr["seed"])
    if L == 1:
        ctx.trivial()
    mesh = df.Mesh(p1=off * dx, p2=(off + L) * dx, n=L, bc="x" if periodic else "")
    assert mesh.cell[0] == dx
    valid = np.array(mask, dtype=bool)
    U = df.Field(mesh, nvdim=L, value=np.eye(L).reshape(L, L), valid=valid.copy(), unit="T")
    rs = runs_of(mask)
    run_of = {}
    for s, e in rs:
        for j in range(s, e):
            run_of[j] = (s, e)
    x = (off + np.arange(L) + 0.5) * dx               # cell centres, exact

    for order in (1, 2):
        sc = dx ** order
        r, d = raises(Exception, U.diff, "x", order=order)
        if r:
            ctx.require(False, "C04.stencil_open" if not periodic else "C04.ring_runs", "diff raised", sig="raises-" + type(d).__name__,
                        error=repr(d), order=order)
            continue
        D = d.array                                    # D[j, c] = response of cell j to a unit value in cell c
        ctx.require(_meta_ok(d, U), "C04.metadata", "mesh/vdims/unit/vdim_mapping/valid not kept", order=order)
        inval = [j for j in range(L) if not mask[j]]
        short = [j for j in range(L) if mask[j] and (not periodic or not all(mask)) and _runlen(mask, j, periodic) <= order]
        ctx.require(not np.any(D[inval, :]) and not np.any(D[short, :]), "C04.zero_short_invalid",
                    "non-zero result in an invalid cell or a run not longer than the order", order=order, D=D * sc)
        if not periodic:
            E = open_matrix(mask, order) / sc
            ctx.require(np.array_equal(D, E), "C04.stencil_open", "response matrix differs from the per-run stencil matrix",
                        order=order, got=D * sc, want=E * sc)
            leak = any(D[j, i] != 0 for j in run_of for i in range(L) if not (run_of[j][0] <= i < run_of[j][1]))
            ctx.require(not leak, "C04.run_isolation", "response to a unit value outside the cell's run", order=order)
            _poly_and_isolation(ctx, mesh, mask, rs, x, dx, order, rng)
            r, d0 = raises(Exception, U.diff, "x", order=order, restrict2valid=False)
            E0 = open_matrix([True] * L, order) / sc
            ctx.require(not r and np.array_equal(d0.array, E0) and np.array_equal(d0.valid, valid), "C04.restrict_off",
                        "restrict2valid=False is not the all-valid response (or validity not kept)", order=order)
        else:
            E = ring_matrix(mask, order) / sc
            ok = np.array_equal(D, E)
            if all(mask):
                ctx.require(ok, "C04.ring_centred", "fully valid ring: not the centred difference with wrap-around",
                            order=order, got=D * sc, want=E * sc)
            else:
                badrows = set(np.nonzero(np.any(D != E, axis=1))[0].tolist())
                sig = SIG_WRAP if (badrows and badrows <= wrap_run_cells(mask)) else None
                ctx.require(ok, "C04.ring_runs", "ring with invalid cells: response differs from the open-line oracle of the cut ring",
                            sig=sig, order=order, mask=[int(b) for b in mask], rows=sorted(badrows),
                            got=D[sorted(badrows)] * sc, want=E[sorted(badrows)] * sc)
            r, d0 = raises(Exception, U.diff, "x", order=order, restrict2valid=False)
            E0 = circulant_matrix(L, order) / sc
            ok0 = not r and np.array_equal(d0.array, E0)
            ctx.require(ok0, "C04.ring_centred", "restrict2valid=False on a ring: not the centred difference with wrap-around", order=order)
            ctx.require(ok0 and np.array_equal(d0.valid, valid), "C04.restrict_off", "restrict2valid=False on a ring (or validity not kept)", order=order)
            shifts = range(1, L) if L <= 6 else sorted({1, L // 2, L - 1})
            for s in shifts:
                Us = df.Field(mesh, nvdim=L, value=np.roll(np.eye(L), s, axis=0), valid=np.roll(valid, s))
                r, ds = raises(Exception, Us.diff, "x", order=order)
                oks = not r and np.array_equal(ds.array, np.roll(D, s, axis=0))
                smask = np.roll(valid, s).tolist()
                sig = SIG_WRAP if (has_wrap_run(mask) or has_wrap_run(smask)) else None
                ctx.require(oks, "C04.ring_shift", "diff does not commute with the cyclic shift", sig=sig, order=order, shift=s,
                            mask=[int(b) for b in mask])


def _runlen(mask, j, periodic):
    L = len(mask)
    if not mask[j]:
        return 0
    if periodic:
        if all(mask):
            return L
        n = 1
        i = (j + 1) % L
        while mask[i]:
            n += 1
            i = (i + 1) % L
        i = (j - 1) % L
        while mask[i]:
            n += 1
            i = (i - 1) % L
        return n
    a = j
    while a > 0 and mask[a - 1]:
        a -= 1
    b = j
    while b < L - 1 and mask[b + 1]:
        b += 1
    return b - a + 1


def _poly_and_isolation(ctx, mesh, mask, rs, x, dx, order, rng):
    """open line: per-run polynomials of the highest exact degree, garbage in the invalid cells"""
    L = len(mask)
    K = 2
    vals = rng.integers(-50, 51, size=(L, K)).astype(float)          # garbage in invalid cells
    want = np.zeros((L, K))
    for s, e in rs:
        n = e - s
        if order == 1:
            deg = 2 if n >= 3 else 1
        else:
            deg = 3 if n >= 4 else 2
        for k in range(K):
            c = [0.0] * 4
            for q in range(deg + 1):
                c[q] = float(rng.integers(-6, 7))
            if c[deg] == 0:
                c[deg] = 1.0
            vals[s:e, k] = polyval(c, x[s:e])
            if n > order:
                want[s:e, k] = polyder(c, x[s:e], order)
    valid = np.array(mask, dtype=bool)
    P = df.Field(mesh, nvdim=K, value=vals.copy(), valid=valid.copy())
    r, d = raises(Exception, P.diff, "x", order=order)
    if r:
        ctx.require(False, "C04.poly_exact", "diff raised", sig="raises-" + type(d).__name__, error=repr(d))
        return
    out = d.array
    longc = np.zeros(L, dtype=bool)
    for s, e in rs:
        if e - s > order:
            longc[s:e] = True
    ctx.require(np.array_equal(out[longc], want[longc]), "C04.poly_exact", "derivative of a per-run polynomial is not exact",
                order=order, mask=[int(b) for b in mask], got=out[longc], want=want[longc])
    ctx.require(not np.any(out[~longc]), "C04.zero_short_invalid", "invalid cells / short runs holding values do not yield zero",
                order=order, mask=[int(b) for b in mask])
    if rs:
        s, e = rs[int(rng.integers(len(rs)))]
        v2 = np.where(rng.random((L, K)) < 0.5, 1e300, -1e300)
        for s2, e2 in rs:
            v2[s2:e2] = rng.uniform(-1e3, 1e3, size=(e2 - s2, K))
        v2[s:e] = vals[s:e]
        P2 = df.Field(mesh, nvdim=K, value=v2, valid=valid.copy())
        r, d2 = raises(Exception, P2.diff, "x", order=order)
        ctx.require(not r and np.array_equal(d2.array[s:e], out[s:e]) and not np.any(d2.array[~valid]), "C04.run_isolation",
                    "values outside the run change the run's result (or invalid cells become non-zero)", order=order,
                    mask=[int(b) for b in mask], run=[s, e])


# ------------------------------------------------------------------ grid
def _build_grid(pr):
    n = list(pr["n"])
    ndim = len(n)
    cell = np.array(pr["cell"], dtype=float)
    p1 = np.array(pr["p1"], dtype=float)
    p2 = p1 + cell * np.array(n)
    region = df.Region(p1=tuple(p1), p2=tuple(p2), dims=tuple(pr["dims"]))
    mesh = df.Mesh(region=region, n=tuple(n), bc=pr["bc"])
    dxs = (np.maximum(p1, p2) - np.minimum(p1, p2)) / np.array(n)
    return mesh, n, ndim, dxs


def _oracle_axis(vals, valid, axis, order, dx, periodic, exact):
    """expected derivative array and per-entry comparison scale; plain loops over lines and components"""
    n = vals.shape[:-1]
    nv = vals.shape[-1]
    exp = np.zeros_like(vals)
    scale = np.zeros_like(vals)
    wrapcells = np.zeros(n, dtype=bool)
    others = [range(k) for i, k in enumerate(n) if i != axis]
    cache = {}
    for rest in itertools.product(*others):
        idx = list(rest)
        idx.insert(axis, slice(None))
        idx = tuple(idx)
        mk = tuple(bool(b) for b in valid[idx])
        if mk not in cache:
            M = (ring_matrix(mk, order) if periodic else open_matrix(mk, order)) / dx ** order
            w = np.zeros(len(mk), dtype=bool)
            if periodic:
                w[sorted(wrap_run_cells(mk))] = True
            cache[mk] = (M, w)
        M, w = cache[mk]
        wrapcells[idx] = w
        for c in range(nv):
            line = vals[idx + (c,)]
            acc = np.zeros(len(mk))
            for j in range(len(mk)):
                tot = 0.0
                for i in range(len(mk)):
                    if M[j, i] != 0.0:
                        tot += M[j, i] * line[i]
                acc[j] = tot
            exp[idx + (c,)] = acc
            scale[idx + (c,)] = np.max(np.abs(line)) / dx ** order
    return exp, scale, wrapcells


def check_grid(pr, ctx):
    mesh, n, ndim, dxs = _build_grid(pr)
    if int(np.prod(n)) == 1:
        ctx.trivial()
    rng = np.random.default_rng(pr["seed"])
    nv = pr["nvdim"]
    exact = pr["exact"]
    shape = (*n, nv)
    if exact:
        F = rng.integers(-40, 41, size=shape).astype(float)
        G = rng.integers(-40, 41, size=shape).astype(float)
    else:
        F = rng.uniform(-1, 1, size=shape) * 10.0 ** rng.uniform(-6, 6)
        G = rng.uniform(-1, 1, size=shape) * 10.0 ** rng.uniform(-6, 6)
    valid = rng.random(tuple(n)) < pr["density"]
    kw = dict(nvdim=nv, vdims=pr["vdims"], unit=pr["unit"], vdim_mapping=pr["mapping"])
    f = df.Field(mesh, value=F.copy(), valid=valid.copy(), **kw)
    a, b = float(rng.uniform(-3, 3)), float(rng.uniform(-3, 3))
    H = a * F + b * G
    g = df.Field(mesh, value=G.copy(), valid=valid.copy(), **kw)
    h = df.Field(mesh, value=H.copy(), valid=valid.copy(), **kw)
    eps = np.finfo(float).eps
    for axis, dname in enumerate(pr["dims"]):
        periodic = dname in pr["bc"]
        dx = dxs[axis]
        for order in (1, 2):
            r, d = raises(Exception, f.diff, dname, order=order)
            if r:
                ctx.require(False, "C04.per_line_component", "diff raised", sig="raises-" + type(d).__name__, error=repr(d),
                            axis=axis, order=order)
                continue
            out = d.array
            ctx.require(_meta_ok(d, f), "C04.metadata", "mesh/vdims/unit/vdim_mapping/valid not kept", axis=axis, order=order)
            exp, scale, wrapcells = _oracle_axis(F, valid, axis, order, dx, periodic, exact)
            if exact:
                bad = out != exp
            else:
                bad = np.abs(out - exp) > 64 * eps * np.maximum(scale, np.maximum(np.abs(out), np.abs(exp)))
            badcells = np.any(bad, axis=-1)
            sig = SIG_WRAP if (badcells.any() and not np.any(badcells & ~wrapcells)) else None
            ctx.require(not bad.any(), "C04.per_line_component", "a line/component differs from the 1-d oracle of its own mask and values",
                        sig=sig, axis=axis, order=order, periodic=periodic, nbad=int(bad.sum()),
                        first=[int(v) for v in np.argwhere(bad)[0]] if bad.any() else None)
            ctx.require(not np.any(out[~valid]), "C04.zero_short_invalid", "invalid cells do not yield zero", axis=axis, order=order)
            # restrict2valid=False
            r, d0 = raises(Exception, f.diff, dname, order=order, restrict2valid=False)
            if r:
                ctx.require(False, "C04.restrict_off", "diff raised", sig="raises-" + type(d0).__name__, error=repr(d0))
            else:
                exp0, scale0, _ = _oracle_axis(F, np.ones_like(valid), axis, order, dx, periodic, exact)
                if exact:
                    bad0 = d0.array != exp0
                else:
                    bad0 = np.abs(d0.array - exp0) > 64 * eps * np.maximum(scale0, np.maximum(np.abs(d0.array), np.abs(exp0)))
                ctx.require(not bad0.any() and np.array_equal(d0.valid, valid), "C04.restrict_off",
                            "restrict2valid=False differs from the all-valid oracle (or validity not kept)", axis=axis, order=order,
                            nbad=int(bad0.sum()))
            # linearity
            r1, dg = raises(Exception, g.diff, dname, order=order)
            r2, dh = raises(Exception, h.diff, dname, order=order)
            if r1 or r2:
                ctx.require(False, "C04.linearity", "diff raised", sig="raises")
            else:
                lin = a * out + b * dg.array
                sc = (abs(a) * np.max(np.abs(F)) + abs(b) * np.max(np.abs(G))) / dx ** order
                ctx.require(ulp_close(dh.array, lin, 64, sc), "C04.linearity", "diff(a f + b g) != a diff f + b diff g",
                            axis=axis, order=order, err=float(np.max(np.abs(dh.array - lin))), scale=float(sc))
            # independence of lines and components
            F2 = F.copy()
            rest = [int(rng.integers(k)) for i, k in enumerate(n) if i != axis]
            idx = list(rest)
            idx.insert(axis, slice(None))
            c = int(rng.integers(nv))
            F2[tuple(idx) + (c,)] = rng.uniform(-1e3, 1e3, size=n[axis])
            f2 = df.Field(mesh, value=F2, valid=valid.copy(), **kw)
            r, d2 = raises(Exception, f2.diff, dname, order=order)
            if r:
                ctx.require(False, "C04.line_independence", "diff raised", sig="raises")
            else:
                same = d2.array == out
                same[tuple(idx) + (c,)] = True
                ctx.require(bool(same.all()), "C04.line_independence", "changing one line of one component changed another line/component",
                            axis=axis, order=order, line=rest, comp=c)
