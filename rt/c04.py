"""C04 bounded run-time tier: Field.diff on the real code.

Exhaustive part: every validity mask of every line length L <= 10 (quick) / 14 (thorough), both
derivative orders, open and periodic direction, observed through unit-vector response matrices
(one field with L components, component c = unit vector e_c) with the cell size a power of two, so
that every number involved is exactly representable and the comparison is `==`.
Sampled part: 1-4-dimensional meshes, every axis, random masks / values / labels.
Scale / offset part (kind "offs", and the grid cases with "voff"): the same clauses on data whose constant term
dominates (values of a run within 2^-7 ... 2^-34 / 1e-3 ... 1e-11 relative of each other), on magnitudes
1e-12 ... 1e12, cell sizes 1e-9 ... 1e6 and regions far from the origin; oracle = the per-run stencil matrix /
the analytic derivative evaluated in exact rational arithmetic (fractions.Fraction) on the floating-point inputs;
dyadic inputs are compared with ==, decimal inputs within 64 ulp of max|run values| / dx^order.

The oracle is written out by hand from the property statement (coefficient tables below); it never
calls np.gradient, np.convolve or anything of discretisedfield."""
import itertools
from fractions import Fraction as Fr
import numpy as np
import discretisedfield as df
from .common import raises, ulp_close

PROPERTY = "C04"
CLAUSES = {
    "C04.stencil_open": "open line: the unit-vector response matrix equals, exactly (dx a power of two), the matrix that applies to every maximal valid run its own stencil (order 1: centred (-1/2,0,1/2)/dx inside, (-3/2,2,-1/2)/dx and mirrored at the ends of runs >= 3, (-1,1)/dx on two-cell runs; order 2: (1,-2,1)/dx^2 inside and on three-cell runs, (2,-5,4,-1)/dx^2 and mirrored at the ends of runs >= 4)",
    "C04.poly_exact": "a run longer than the order returns the exact derivative of a polynomial of degree <=2 (order 1; <=1 on two-cell runs) / <=3 (order 2; <=2 on three-cell runs); a different polynomial on every run, integer coefficients, dx a power of two, compared with ==",
    "C04.zero_short_invalid": "invalid cells and runs not longer than the derivative order yield exactly zero, whatever values they hold",
    "C04.run_isolation": "a cell's result does not depend on values outside its own run: response-matrix entries outside the run are zero, and replacing every value outside a run (invalid cells by +-1e300, other runs by new numbers) leaves the run's result bitwise unchanged",
    "C04.poly_exact_offset": "as poly_exact, for polynomials whose constant term dominates (values of a run within 2^-7 ... 2^-34 relative of each other) or is absent, at magnitudes 2^-40 ... 2^40 (1e-12 ... 1e12), dx = 2^-30 ... 2^20, regions up to 2^24 cells away from the origin: dyadic data (integer multiples of a quantum, < 2^46 quanta, every stencil intermediate representable) compared with == to the analytic derivative; decimal data (300 + 1e-4 x, 8e5 + 1e-3 x, C (1 + r b(u)), r = 1e-3 ... 1e-11, dx = d 10^-9..6) within 64 ulp of max|run values|/dx^order (+ order * 2 ulp(max|corner|)/(L dx) relative, the rounding of the cell size carried by decimal region corners); also with restrict2valid=False on fully valid lines",
    "C04.exact_rational": "open line, any data at these scales (a polynomial per run, values of the same scale in the invalid cells; a constant line; a constant line with one deviating cell, |deviation| << |constant|), restrict2valid on and off: result == the per-run stencil matrix applied to the floating-point values in exact rational arithmetic (dyadic: ==; decimal: within 64 ulp of max|run values|/dx^order + the corner rounding as in poly_exact_offset)",
    "C04.offset_invariance": "linearity with a constant: diff(g + c) == diff(g) (+ diff(c) = 0) for a per-component constant c with |c| up to 2^34 max|g|: bitwise for dyadic data (g + c exact), within 64 ulp of max(|g|, |g + c|)/dx^order over the run for decimal data; both orders, open and periodic, restrict2valid on and off",
    "C04.linearity": "diff(a*f+b*g) == a*diff(f)+b*diff(g) within 64 ulp of (|a|max|f|+|b|max|g|)/dx^order",
    "C04.per_line_component": "on 1-4-d meshes, along every axis, every component of every grid line equals the 1-d oracle matrix of that line's mask applied to that line's values (== for integer values and power-of-two cells, else within 64 ulp of max|line values|/dx^order; the 'voff' cases repeat this on values dominated by a per-component constant (relative variation 1e-4 ... 1e-10, magnitudes 1e-12 ... 1e12), cells 2^-30 ... 2^20 / 1e-9 ... 1e6 and regions up to 4e6 cells away from the origin, decimal far-away regions with the additional relative term order * 2 ulp(max|corner|)/(n dx))",
    "C04.line_independence": "changing the values of one grid line of one component leaves every other line and component bitwise unchanged",
    "C04.metadata": "the result keeps the mesh, vdims, unit, vdim_mapping and the validity mask, and has the shape of the field",
    "C04.restrict_off": "restrict2valid=False treats the whole line as one run (response matrix of the all-valid mask), validity mask still kept",
    "C04.ring_centred": "periodic direction, fully valid ring (or restrict2valid=False): response matrix == circulant centred difference with wrap-around ((-1/2,0,1/2)/dx, (1,-2,1)/dx^2), exactly, for every ring length >= 1; the same circulant applied in exact rational arithmetic to offset-dominated / tiny / huge data (kind offs)",
    "C04.ring_shift": "periodic direction: diff of the cyclically shifted field (values and mask) == cyclically shifted diff, bitwise, for every mask (unit vectors; offset-dominated / tiny / huge data with restrict2valid on and off)",
    "C04.ring_runs": "periodic direction with invalid cells: the ring cut open at an invalid cell is an open line; the response matrix equals the open-line oracle of the cut ring (runs may wrap around the boundary); the same matrix applied in exact rational arithmetic to offset-dominated / tiny / huge data (kind offs)",
}
RULE = ("line: every (L, mask) with 1 <= L <= 10 (quick) / 14 (thorough) and all 2^L masks, open and periodic, both orders, "
        "dx = 2^e and offset drawn from the seed; grid: seeded 1-4-d meshes (n <= 6 per axis, anisotropic cells, renamed dims, "
        "1-5 components, random masks of density 1/0.9/0.7/0.5, periodic subsets of the directions), every axis, both orders; "
        "offs: every (L, mask) with L <= 8 (quick) / 10 (thorough), open and periodic, dyadic data (dx = 2^e, e in -30..20, region offset up to 2^24 cells, "
        "4 components of fixed scale classes: tiny without offset, offset-dominated, random, huge), plus seeded longer lines (L <= 12) and seeded decimal "
        "lines (dx = d*10^-9..6, magnitudes 1e-12..1e12, literal families 300+1e-4x, 8e5+1e-3x, 2^20+x^2/16); grid cases with 'voff' repeat the grid "
        "clauses on offset-dominated values and far-away regions; "
        "trivial = L == 1 / single-cell mesh; distinct by (kind, params)")
ASSUMPTIONS = ["bounded: line lengths <= 14 exhaustively in the masks; values by unit vectors + linearity clause + seeded samples",
               "bounded: multi-dimensional meshes sampled (<= 6 cells per axis, <= 4 dims, <= 5 components)",
               "bounded: scale/offset region sampled per case (one draw of magnitude, closeness ratio, cell size and region offset per component and case)",
               "trusted: numpy elementwise arithmetic, Field construction from an array and a boolean valid array, fractions.Fraction"]
BUDGET_S = {"quick": 120, "thorough": 1500}

SIG_WRAP = "periodic-run-across-boundary-truncated"
# Field.diff builds a one-layer mesh with Mesh.sel -> Mesh(cell=...), whose divisibility test uses the absolute tolerance
# 1e-3 * min(cell) for every axis: strongly anisotropic cells far from the origin (ulp(corner) > 1e-3 * min(cell)) raise
SIG_SEL = "diff-raises-divisibility-anisotropic-far-region"


# ------------------------------------------------------------------ oracle (hand-written tables)
def runs_of(mask):
    """maximal runs [s, e) of True"""
    out, s = [], None
    for i, v in enumerate(list(mask) + [False]):
        if v and s is None:
            s = i
        elif not v and s is not None:
            out.append((s, i))
            s = None
    return out


# coefficient tables in units of 1/dx (order 1) and 1/dx^2 (order 2)
O1_PAIR = (-1.0, 1.0)                 # both cells of a two-cell run
O1_FIRST = (-1.5, 2.0, -0.5)          # first cell of a run >= 3, on cells s, s+1, s+2
O1_LAST = (0.5, -2.0, 1.5)            # last cell, on cells e-3, e-2, e-1
O1_MID = (-0.5, 0.0, 0.5)             # on j-1, j, j+1
O2_MID = (1.0, -2.0, 1.0)             # on j-1, j, j+1; on a three-cell run all three cells use the run's cells
O2_FIRST = (2.0, -5.0, 4.0, -1.0)     # first cell of a run >= 4, on s..s+3
O2_LAST = (-1.0, 4.0, -5.0, 2.0)      # last cell, on e-4..e-1


def open_matrix(mask, order):
    """expected response matrix (times dx^order) of an open line with validity `mask`"""
    L = len(mask)
    M = np.zeros((L, L))
    for s, e in runs_of(mask):
        n = e - s
        if order == 1:
            if n == 2:
                M[s, s:e] = O1_PAIR
                M[s + 1, s:e] = O1_PAIR
            elif n >= 3:
                M[s, s:s + 3] = O1_FIRST
                M[e - 1, e - 3:e] = O1_LAST
                for j in range(s + 1, e - 1):
                    M[j, j - 1:j + 2] = O1_MID
        else:
            if n == 3:
                for j in range(s, e):
                    M[j, s:e] = O2_MID
            elif n >= 4:
                M[s, s:s + 4] = O2_FIRST
                M[e - 1, e - 4:e] = O2_LAST
                for j in range(s + 1, e - 1):
                    M[j, j - 1:j + 2] = O2_MID
    return M


def circulant_matrix(L, order):
    M = np.zeros((L, L))
    co = O1_MID if order == 1 else O2_MID
    for j in range(L):
        for k, c in zip((-1, 0, 1), co):
            M[j, (j + k) % L] += c
    return M


def ring_matrix(mask, order):
    """expected response matrix (times dx^order) on a ring"""
    L = len(mask)
    if all(mask):
        return circulant_matrix(L, order)
    c = list(mask).index(False)
    perm = [(c + k) % L for k in range(L)]           # cut the ring at the invalid cell c
    Mo = open_matrix([mask[p] for p in perm], order)
    M = np.zeros((L, L))
    for a in range(L):
        for b in range(L):
            M[perm[a], perm[b]] = Mo[a, b]
    return M


def has_wrap_run(mask):
    return bool(mask[0] and mask[-1] and not all(mask))


def wrap_run_cells(mask):
    """cells of the run that crosses the boundary of a ring (empty if none)"""
    if not has_wrap_run(mask):
        return set()
    L = len(mask)
    cells = set()
    i = 0
    while mask[i]:
        cells.add(i)
        i += 1
    i = L - 1
    while mask[i]:
        cells.add(i)
        i -= 1
    return cells


def polyval(c, x):
    return c[0] + c[1] * x + c[2] * x ** 2 + c[3] * x ** 3


def polyder(c, x, order):
    if order == 1:
        return c[1] + 2 * c[2] * x + 3 * c[3] * x ** 2
    return 2 * c[2] + 6 * c[3] * x


# ------------------------------------------------------------------ cases
def cases(ctx):
    rng = ctx.rng
    Lmax = 10 if ctx.tier == "quick" else 14
    for L in range(1, Lmax + 1):
        for m in range(1 << L):
            e = int(rng.integers(-3, 4))
            off = int(rng.integers(-4, 5))
            yield "line", {"L": L, "mask": m, "periodic": False, "e": e, "off": off, "seed": int(rng.integers(1 << 30))}
            yield "line", {"L": L, "mask": m, "periodic": True, "e": e, "off": off, "seed": int(rng.integers(1 << 30))}
    reps = 4 if ctx.tier == "quick" else 16
    names = ["a", "b", "c", "e", "g", "h", "k", "p", "q", "r", "s", "u", "w", "x", "y", "z"]
    vnames = ["p", "q", "r", "s", "u", "w", "ma", "mb", "e1", "e2", "alpha", "x", "y", "z"]
    units = [None, "T", "A/m", "kg"]
    for ndim in (1, 2, 3, 4):
        for bcmode in ("open", "some", "all"):
            for exact in (True, False):
                for _ in range(reps):
                    hi = {1: 9, 2: 6, 3: 5, 4: 4}[ndim]
                    n = rng.integers(1, hi + 1, size=ndim).tolist()
                    if max(n) < 3:
                        n[int(rng.integers(ndim))] = int(rng.integers(3, hi + 1))
                    dims = [str(d) for d in rng.choice(names, size=ndim, replace=False)]
                    if exact:
                        cell = (2.0 ** rng.integers(-3, 4, size=ndim)).tolist()
                        p1 = (np.array(cell) * rng.integers(-5, 6, size=ndim)).tolist()
                    else:
                        cell = (10.0 ** rng.uniform(-9, 1, size=ndim)).tolist()
                        p1 = (np.array(cell) * rng.uniform(-20, 20, size=ndim)).tolist()
                    if bcmode == "open":
                        bc = ""
                    elif bcmode == "all":
                        bc = "".join(dims)
                    else:
                        k = int(rng.integers(1, ndim + 1))
                        bc = "".join(str(d) for d in rng.choice(dims, size=k, replace=False))
                    nvdim = int(rng.integers(1, 6))
                    vdims = [str(v) for v in rng.choice(vnames, size=nvdim, replace=False)]
                    if nvdim == ndim and rng.random() < 0.7:
                        mapping = dict(zip(vdims, [str(d) for d in rng.permutation(dims)]))
                    else:
                        mapping = None
                    yield "grid", {"n": n, "cell": cell, "p1": p1, "dims": dims, "bc": bc, "nvdim": nvdim,
                                   "vdims": vdims if (nvdim > 1 or rng.random() < 0.5) else None,
                                   "mapping": mapping, "unit": units[int(rng.integers(len(units)))],
                                   "density": [1.0, 0.9, 0.7, 0.5][int(rng.integers(4))], "exact": exact,
                                   "seed": int(rng.integers(1 << 30))}
    # fixed corner cases: single-cell / two-cell periodic directions inside a 3-d mesh, fully valid and not
    for dens in (1.0, 0.6):
        yield "grid", {"n": [1, 2, 5], "cell": [0.5, 0.25, 2.0], "p1": [0.0, 1.0, -2.0], "dims": ["u", "v", "w"], "bc": "uvw",
                       "nvdim": 3, "vdims": ["z", "x", "y"], "mapping": {"z": "v", "x": "w", "y": "u"}, "unit": "T",
                       "density": dens, "exact": True, "seed": 5}
        yield "grid", {"n": [2, 1, 3], "cell": [1e-9, 3e-9, 0.7e-9], "p1": [1e-9, 0.0, -5e-9], "dims": ["x", "y", "z"], "bc": "",
                       "nvdim": 2, "vdims": ["ma", "mb"], "mapping": None, "unit": None,
                       "density": dens, "exact": False, "seed": 6}
    # scale / offset region: lines (kind offs) and grids with offset-dominated values in far-away regions
    yield from _offs_cases(ctx)
    for ndim in (1, 2, 3, 4):
        for bcmode in ("open", "some", "all"):
            for exact in (True, False):
                for _ in range(3 if ctx.tier == "quick" else 12):
                    hi = {1: 9, 2: 6, 3: 5, 4: 4}[ndim]
                    n = rng.integers(1, hi + 1, size=ndim).tolist()
                    if max(n) < 4:
                        n[int(rng.integers(ndim))] = int(rng.integers(4, hi + 1))
                    dims = [str(d) for d in rng.choice(names, size=ndim, replace=False)]
                    far = rng.integers(0, 3, size=ndim)                  # 0 near the origin, 1: ~2^12 cells away, 2: ~2^22 cells away
                    sgn = np.where(rng.random(ndim) < 0.5, -1, 1)
                    if exact:
                        cell = (2.0 ** rng.integers(-30, 21, size=ndim)).tolist()
                        p1 = (np.array(cell) * (sgn * (np.array([0, 1 << 12, 1 << 22])[far] + rng.integers(-5, 6, size=ndim)))).tolist()
                    else:
                        cell = (np.round(rng.uniform(1, 10, size=ndim), 2) * 10.0 ** rng.integers(-9, 6, size=ndim)).tolist()
                        p1 = (np.array(cell) * sgn * (np.array([0.0, 4e3, 4e6])[far] + rng.uniform(-20, 20, size=ndim))).tolist()
                    if bcmode == "open":
                        bc = ""
                    elif bcmode == "all":
                        bc = "".join(dims)
                    else:
                        k = int(rng.integers(1, ndim + 1))
                        bc = "".join(str(d) for d in rng.choice(dims, size=k, replace=False))
                    nvdim = int(rng.integers(1, 5))
                    vdims = [str(v) for v in rng.choice(vnames, size=nvdim, replace=False)]
                    yield "grid", {"n": n, "cell": cell, "p1": p1, "dims": dims, "bc": bc, "nvdim": nvdim,
                                   "vdims": vdims if nvdim > 1 else None, "mapping": None, "unit": units[int(rng.integers(len(units)))],
                                   "density": [1.0, 0.9, 0.7][int(rng.integers(3))], "exact": exact,
                                   "voff": [1e-4, 1e-6, 1e-8, 1e-10][int(rng.integers(4))], "seed": int(rng.integers(1 << 30))}


# ------------------------------------------------------------------ checks
def check(kind, pr, ctx):
    if kind == "line":
        return check_line(pr, ctx)
    if kind == "offs":
        return check_offs(pr, ctx)
    return check_grid(pr, ctx)


def _meta_ok(d, f):
    return (d.mesh == f.mesh and d.mesh.bc == f.mesh.bc and d.mesh.region.dims == f.mesh.region.dims
            and d.vdims == f.vdims and d.unit == f.unit and d.vdim_mapping == f.vdim_mapping
            and d.nvdim == f.nvdim and d.array.shape == f.array.shape
            and d.valid.shape == f.valid.shape and np.array_equal(d.valid, f.valid))


def check_line(pr, ctx):
    L, m, periodic = pr["L"], pr["mask"], pr["periodic"]
    mask = [bool((m >> i) & 1) for i in range(L)]
    dx = 2.0 ** pr["e"]
    off = pr["off"]
    rng = np.random.default_rng(pr["seed"])
    if L == 1:
        ctx.trivial()
    mesh = df.Mesh(p1=off * dx, p2=(off + L) * dx, n=L, bc="x" if periodic else "")
    assert mesh.cell[0] == dx
    valid = np.array(mask, dtype=bool)
    U = df.Field(mesh, nvdim=L, value=np.eye(L).reshape(L, L), valid=valid.copy(), unit="T")
    rs = runs_of(mask)
    run_of = {}
    for s, e in rs:
        for j in range(s, e):
            run_of[j] = (s, e)
    x = (off + np.arange(L) + 0.5) * dx               # cell centres, exact

    for order in (1, 2):
        sc = dx ** order
        r, d = raises(Exception, U.diff, "x", order=order)
        if r:
            ctx.require(False, "C04.stencil_open" if not periodic else "C04.ring_runs", "diff raised", sig="raises-" + type(d).__name__,
                        error=repr(d), order=order)
            continue
        D = d.array                                    # D[j, c] = response of cell j to a unit value in cell c
        ctx.require(_meta_ok(d, U), "C04.metadata", "mesh/vdims/unit/vdim_mapping/valid not kept", order=order)
        inval = [j for j in range(L) if not mask[j]]
        short = [j for j in range(L) if mask[j] and (not periodic or not all(mask)) and _runlen(mask, j, periodic) <= order]
        ctx.require(not np.any(D[inval, :]) and not np.any(D[short, :]), "C04.zero_short_invalid",
                    "non-zero result in an invalid cell or a run not longer than the order", order=order, D=D * sc)
        if not periodic:
            E = open_matrix(mask, order) / sc
            ctx.require(np.array_equal(D, E), "C04.stencil_open", "response matrix differs from the per-run stencil matrix",
                        order=order, got=D * sc, want=E * sc)
            leak = any(D[j, i] != 0 for j in run_of for i in range(L) if not (run_of[j][0] <= i < run_of[j][1]))
            ctx.require(not leak, "C04.run_isolation", "response to a unit value outside the cell's run", order=order)
            _poly_and_isolation(ctx, mesh, mask, rs, x, dx, order, rng)
            r, d0 = raises(Exception, U.diff, "x", order=order, restrict2valid=False)
            E0 = open_matrix([True] * L, order) / sc
            ctx.require(not r and np.array_equal(d0.array, E0) and np.array_equal(d0.valid, valid), "C04.restrict_off",
                        "restrict2valid=False is not the all-valid response (or validity not kept)", order=order)
        else:
            E = ring_matrix(mask, order) / sc
            ok = np.array_equal(D, E)
            if all(mask):
                ctx.require(ok, "C04.ring_centred", "fully valid ring: not the centred difference with wrap-around",
                            order=order, got=D * sc, want=E * sc)
            else:
                badrows = set(np.nonzero(np.any(D != E, axis=1))[0].tolist())
                sig = SIG_WRAP if (badrows and badrows <= wrap_run_cells(mask)) else None
                ctx.require(ok, "C04.ring_runs", "ring with invalid cells: response differs from the open-line oracle of the cut ring",
                            sig=sig, order=order, mask=[int(b) for b in mask], rows=sorted(badrows),
                            got=D[sorted(badrows)] * sc, want=E[sorted(badrows)] * sc)
            r, d0 = raises(Exception, U.diff, "x", order=order, restrict2valid=False)
            E0 = circulant_matrix(L, order) / sc
            ok0 = not r and np.array_equal(d0.array, E0)
            ctx.require(ok0, "C04.ring_centred", "restrict2valid=False on a ring: not the centred difference with wrap-around", order=order)
            ctx.require(ok0 and np.array_equal(d0.valid, valid), "C04.restrict_off", "restrict2valid=False on a ring (or validity not kept)", order=order)
            shifts = range(1, L) if L <= 6 else sorted({1, L // 2, L - 1})
            for s in shifts:
                Us = df.Field(mesh, nvdim=L, value=np.roll(np.eye(L), s, axis=0), valid=np.roll(valid, s))
                r, ds = raises(Exception, Us.diff, "x", order=order)
                oks = not r and np.array_equal(ds.array, np.roll(D, s, axis=0))
                smask = np.roll(valid, s).tolist()
                sig = SIG_WRAP if (has_wrap_run(mask) or has_wrap_run(smask)) else None
                ctx.require(oks, "C04.ring_shift", "diff does not commute with the cyclic shift", sig=sig, order=order, shift=s,
                            mask=[int(b) for b in mask])


def _runlen(mask, j, periodic):
    L = len(mask)
    if not mask[j]:
        return 0
    if periodic:
        if all(mask):
            return L
        n = 1
        i = (j + 1) % L
        while mask[i]:
            n += 1
            i = (i + 1) % L
        i = (j - 1) % L
        while mask[i]:
            n += 1
            i = (i - 1) % L
        return n
    a = j
    while a > 0 and mask[a - 1]:
        a -= 1
    b = j
    while b < L - 1 and mask[b + 1]:
        b += 1
    return b - a + 1


def _poly_and_isolation(ctx, mesh, mask, rs, x, dx, order, rng):
    """open line: per-run polynomials of the highest exact degree, garbage in the invalid cells"""
    L = len(mask)
    K = 2
    vals = rng.integers(-50, 51, size=(L, K)).astype(float)          # garbage in invalid cells
    want = np.zeros((L, K))
    for s, e in rs:
        n = e - s
        if order == 1:
            deg = 2 if n >= 3 else 1
        else:
            deg = 3 if n >= 4 else 2
        for k in range(K):
            c = [0.0] * 4
            for q in range(deg + 1):
                c[q] = float(rng.integers(-6, 7))
            if c[deg] == 0:
                c[deg] = 1.0
            vals[s:e, k] = polyval(c, x[s:e])
            if n > order:
                want[s:e, k] = polyder(c, x[s:e], order)
    valid = np.array(mask, dtype=bool)
    P = df.Field(mesh, nvdim=K, value=vals.copy(), valid=valid.copy())
    r, d = raises(Exception, P.diff, "x", order=order)
    if r:
        ctx.require(False, "C04.poly_exact", "diff raised", sig="raises-" + type(d).__name__, error=repr(d))
        return
    out = d.array
    longc = np.zeros(L, dtype=bool)
    for s, e in rs:
        if e - s > order:
            longc[s:e] = True
    ctx.require(np.array_equal(out[longc], want[longc]), "C04.poly_exact", "derivative of a per-run polynomial is not exact",
                order=order, mask=[int(b) for b in mask], got=out[longc], want=want[longc])
    ctx.require(not np.any(out[~longc]), "C04.zero_short_invalid", "invalid cells / short runs holding values do not yield zero",
                order=order, mask=[int(b) for b in mask])
    if rs:
        s, e = rs[int(rng.integers(len(rs)))]
        v2 = np.where(rng.random((L, K)) < 0.5, 1e300, -1e300)
        for s2, e2 in rs:
            v2[s2:e2] = rng.uniform(-1e3, 1e3, size=(e2 - s2, K))
        v2[s:e] = vals[s:e]
        P2 = df.Field(mesh, nvdim=K, value=v2, valid=valid.copy())
        r, d2 = raises(Exception, P2.diff, "x", order=order)
        ctx.require(not r and np.array_equal(d2.array[s:e], out[s:e]) and not np.any(d2.array[~valid]), "C04.run_isolation",
                    "values outside the run change the run's result (or invalid cells become non-zero)", order=order,
                    mask=[int(b) for b in mask], run=[s, e])


# ------------------------------------------------------------------ grid
def _build_grid(pr):
    n = list(pr["n"])
    ndim = len(n)
    cell = np.array(pr["cell"], dtype=float)
    p1 = np.array(pr["p1"], dtype=float)
    p2 = p1 + cell * np.array(n)
    region = df.Region(p1=tuple(p1), p2=tuple(p2), dims=tuple(pr["dims"]))
    mesh = df.Mesh(region=region, n=tuple(n), bc=pr["bc"])
    dxs = (np.maximum(p1, p2) - np.minimum(p1, p2)) / np.array(n)
    return mesh, n, ndim, dxs


def _oracle_axis(vals, valid, axis, order, dx, periodic, exact):
    """expected derivative array and per-entry comparison scale; plain loops over lines and components"""
    n = vals.shape[:-1]
    nv = vals.shape[-1]
    exp = np.zeros_like(vals)
    scale = np.zeros_like(vals)
    wrapcells = np.zeros(n, dtype=bool)
    others = [range(k) for i, k in enumerate(n) if i != axis]
    cache = {}
    for rest in itertools.product(*others):
        idx = list(rest)
        idx.insert(axis, slice(None))
        idx = tuple(idx)
        mk = tuple(bool(b) for b in valid[idx])
        if mk not in cache:
            M = (ring_matrix(mk, order) if periodic else open_matrix(mk, order)) / dx ** order
            w = np.zeros(len(mk), dtype=bool)
            if periodic:
                w[sorted(wrap_run_cells(mk))] = True
            cache[mk] = (M, w)
        M, w = cache[mk]
        wrapcells[idx] = w
        for c in range(nv):
            line = vals[idx + (c,)]
            acc = np.zeros(len(mk))
            for j in range(len(mk)):
                tot = 0.0
                for i in range(len(mk)):
                    if M[j, i] != 0.0:
                        tot += M[j, i] * line[i]
                acc[j] = tot
            exp[idx + (c,)] = acc
            scale[idx + (c,)] = np.max(np.abs(line)) / dx ** order
    return exp, scale, wrapcells


def check_grid(pr, ctx):
    mesh, n, ndim, dxs = _build_grid(pr)
    if int(np.prod(n)) == 1:
        ctx.trivial()
    rng = np.random.default_rng(pr["seed"])
    nv = pr["nvdim"]
    exact = pr["exact"]
    shape = (*n, nv)
    if exact:
        F = rng.integers(-40, 41, size=shape).astype(float)
        G = rng.integers(-40, 41, size=shape).astype(float)
    else:
        F = rng.uniform(-1, 1, size=shape) * 10.0 ** rng.uniform(-6, 6)
        G = rng.uniform(-1, 1, size=shape) * 10.0 ** rng.uniform(-6, 6)
    voff = pr.get("voff")
    if voff is not None:
        # offset-dominated values: every component of f and g sits on its own large constant, variation ~ voff * constant
        if exact:
            big = 1 << min(44, max(8, int(np.log2(40.0 / voff))))
            F = F + (big + rng.integers(0, 50, size=nv)) * np.where(rng.random(nv) < 0.5, -1.0, 1.0)
            G = G + (big + rng.integers(0, 50, size=nv)) * np.where(rng.random(nv) < 0.5, -1.0, 1.0)
            q = 2.0 ** int(rng.integers(-70, 0))
            F, G = F * q, G * q
        else:
            C = rng.uniform(1, 10, size=nv) * 10.0 ** rng.integers(-12, 13, size=nv) * np.where(rng.random(nv) < 0.5, -1.0, 1.0)
            F = C * (1.0 + voff * rng.uniform(-1, 1, size=shape))
            G = C[::-1] * (1.0 + voff * rng.uniform(-1, 1, size=shape))
    valid = rng.random(tuple(n)) < pr["density"]
    kw = dict(nvdim=nv, vdims=pr["vdims"], unit=pr["unit"], vdim_mapping=pr["mapping"])
    f = df.Field(mesh, value=F.copy(), valid=valid.copy(), **kw)
    a, b = float(rng.uniform(-3, 3)), float(rng.uniform(-3, 3))
    H = a * F + b * G
    g = df.Field(mesh, value=G.copy(), valid=valid.copy(), **kw)
    h = df.Field(mesh, value=H.copy(), valid=valid.copy(), **kw)
    eps = np.finfo(float).eps
    for axis, dname in enumerate(pr["dims"]):
        periodic = dname in pr["bc"]
        dx = dxs[axis]
        for order in (1, 2):
            r, d = raises(Exception, f.diff, dname, order=order)
            if r:
                sig = "raises-" + type(d).__name__
                if isinstance(d, ValueError) and "cannot be divided" in str(d):
                    sig = SIG_SEL
                ctx.require(False, "C04.per_line_component", "diff raised", sig=sig, error=repr(d),
                            axis=axis, order=order)
                continue
            out = d.array
            ctx.require(_meta_ok(d, f), "C04.metadata", "mesh/vdims/unit/vdim_mapping/valid not kept", axis=axis, order=order)
            exp, scale, wrapcells = _oracle_axis(F, valid, axis, order, dx, periodic, exact)
            # far-away decimal regions (voff cases): the corners carry the cell size only to 2 ulp(max|corner|)/(n dx) relative
            geo = 0.0
            if voff is not None and not exact:
                geo = order * 2 * eps * max(abs(pr["p1"][axis]), abs(pr["p1"][axis] + pr["cell"][axis] * n[axis])) / (n[axis] * dx)
            if exact:
                bad = out != exp
            else:
                bad = np.abs(out - exp) > 64 * eps * np.maximum(scale, np.maximum(np.abs(out), np.abs(exp))) + geo * np.abs(exp)
            badcells = np.any(bad, axis=-1)
            sig = SIG_WRAP if (badcells.any() and not np.any(badcells & ~wrapcells)) else None
            ctx.require(not bad.any(), "C04.per_line_component", "a line/component differs from the 1-d oracle of its own mask and values",
                        sig=sig, axis=axis, order=order, periodic=periodic, nbad=int(bad.sum()),
                        first=[int(v) for v in np.argwhere(bad)[0]] if bad.any() else None)
            ctx.require(not np.any(out[~valid]), "C04.zero_short_invalid", "invalid cells do not yield zero", axis=axis, order=order)
            # restrict2valid=False
            r, d0 = raises(Exception, f.diff, dname, order=order, restrict2valid=False)
            if r:
                ctx.require(False, "C04.restrict_off", "diff raised", sig="raises-" + type(d0).__name__, error=repr(d0))
            else:
                exp0, scale0, _ = _oracle_axis(F, np.ones_like(valid), axis, order, dx, periodic, exact)
                if exact:
                    bad0 = d0.array != exp0
                else:
                    bad0 = np.abs(d0.array - exp0) > 64 * eps * np.maximum(scale0, np.maximum(np.abs(d0.array), np.abs(exp0))) + geo * np.abs(exp0)
                ctx.require(not bad0.any() and np.array_equal(d0.valid, valid), "C04.restrict_off",
                            "restrict2valid=False differs from the all-valid oracle (or validity not kept)", axis=axis, order=order,
                            nbad=int(bad0.sum()))
            # linearity
            r1, dg = raises(Exception, g.diff, dname, order=order)
            r2, dh = raises(Exception, h.diff, dname, order=order)
            if r1 or r2:
                ctx.require(False, "C04.linearity", "diff raised", sig="raises")
            else:
                lin = a * out + b * dg.array
                sc = (abs(a) * np.max(np.abs(F)) + abs(b) * np.max(np.abs(G))) / dx ** order
                ctx.require(ulp_close(dh.array, lin, 64, sc), "C04.linearity", "diff(a f + b g) != a diff f + b diff g",
                            axis=axis, order=order, err=float(np.max(np.abs(dh.array - lin))), scale=float(sc))
            # independence of lines and components
            F2 = F.copy()
            rest = [int(rng.integers(k)) for i, k in enumerate(n) if i != axis]
            idx = list(rest)
            idx.insert(axis, slice(None))
            c = int(rng.integers(nv))
            F2[tuple(idx) + (c,)] = rng.uniform(-1e3, 1e3, size=n[axis])
            f2 = df.Field(mesh, value=F2, valid=valid.copy(), **kw)
            r, d2 = raises(Exception, f2.diff, dname, order=order)
            if r:
                ctx.require(False, "C04.line_independence", "diff raised", sig="raises")
            else:
                same = d2.array == out
                same[tuple(idx) + (c,)] = True
                ctx.require(bool(same.all()), "C04.line_independence", "changing one line of one component changed another line/component",
                            axis=axis, order=order, line=rest, comp=c)


# ------------------------------------------------------------------ scale / offset region (kind "offs")
EPS = float(np.finfo(float).eps)
CAPQ = 1 << 44                                     # dyadic data: |value| <= 2^44 quanta, every stencil intermediate < 2^53 quanta
RATIOS2 = [None, 2.0 ** -7, 2.0 ** -14, 2.0 ** -17, 2.0 ** -20, 2.0 ** -27, 2.0 ** -34]
RATIOS10 = [None, 1e-3, 1e-5, 3e-6, 1e-6, 1e-7, 1e-9, 1e-11]
# literal decimal families of the form C + s1 x + s2 x^2 (x = cell-centre coordinate), with their cell size
LITERALS = [[300.0, 1e-4, 0.0, 1.0], [8e5, 1e-3, 0.0, 1.0], [2.0 ** 20, 0.0, 0.0625, 1.0], [300.0, 1e-4, 0.0, 5e-9],
            [8e5, 1e5, 0.0, 2.5e-9], [1e-12, 0.0, 1e-3, 1e-9], [-4.2e11, 3.0, 1e-7, 1e3], [1.0, 1e-9, 1e-10, 0.5]]


def _offs_cases(ctx):
    rng = ctx.rng
    quick = ctx.tier == "quick"

    def geo():
        c = int(rng.integers(4))
        j = int(rng.integers(-4, 5))
        if c <= 1:
            return j
        sgn = 1 if rng.random() < 0.5 else -1
        return sgn * ((1 << (12 if c == 2 else 24)) + j)

    def dyadic(L, m, periodic):
        return "offs", {"L": L, "mask": m, "periodic": periodic, "dyadic": True, "e": int(rng.integers(-30, 21)), "off": geo(),
                        "seed": int(rng.integers(1 << 30))}

    def randmask(L):
        dens = [1.0, 0.9, 0.7, 0.5][int(rng.integers(4))]
        return sum((1 << i) for i in range(L) if rng.random() < dens)

    Lex = 8 if quick else 10
    for L in range(1, Lex + 1):
        for m in range(1 << L):
            for periodic in (False, True):
                yield dyadic(L, m, periodic)
    for _ in range(200 if quick else 2000):
        L = int(rng.integers(Lex + 1, 13))
        yield dyadic(L, randmask(L), bool(rng.integers(2)))
    for _ in range(600 if quick else 6000):
        L = int(rng.integers(2, 13))
        dx = float(round(float(rng.uniform(1, 10)), 2)) * 10.0 ** int(rng.integers(-9, 6))
        off = float(rng.uniform(-20, 20)) if rng.random() < 0.6 else float(rng.uniform(-1, 1) * 10.0 ** int(rng.integers(2, 7)))
        yield "offs", {"L": L, "mask": randmask(L), "periodic": bool(rng.integers(2)), "dyadic": False, "dx": dx, "off": off,
                       "seed": int(rng.integers(1 << 30))}
    for li, lit in enumerate(LITERALS):
        for L in (5, 10):
            for m in ((1 << L) - 1, ((1 << L) - 1) & ~(1 << (L // 2)), ((1 << L) - 1) & ~1 & ~(1 << (L - 2))):
                for periodic in (False, True):
                    yield "offs", {"L": L, "mask": m, "periodic": periodic, "dyadic": False, "dx": lit[3], "off": 0.0, "lit": li,
                                   "seed": 11 + li}


def _run_cells(mask, periodic, restrict):
    """maximal runs as lists of cell indices in line / ring order"""
    L = len(mask)
    if not restrict:
        return [list(range(L))]
    if not periodic or all(mask) or not any(mask):
        return [list(range(s, e)) for s, e in runs_of(mask)]
    c = list(mask).index(False)
    perm = [(c + k) % L for k in range(L)]
    return [[perm[a] for a in range(s, e)] for s, e in runs_of([mask[p] for p in perm])]


def _matrix(mask, periodic, order, restrict):
    mk = list(mask) if restrict else [True] * len(mask)
    return ring_matrix(mk, order) if periodic else open_matrix(mk, order)


def _apply_exact(M, A, dxF, order):
    """the stencil matrix applied to the floating-point values in exact rational arithmetic"""
    L, K = A.shape
    AF = [[Fr(float(A[i, k])) for k in range(K)] for i in range(L)]
    MF = [[(i, Fr(float(M[j, i]))) for i in range(L) if M[j, i] != 0.0] for j in range(L)]
    sc = dxF ** order
    return [[sum((c * AF[i][k] for i, c in MF[j]), Fr(0)) / sc for k in range(K)] for j in range(L)]


def _run_scale(A, runs, dx, order):
    """per entry: max |value| over the entry's own run / dx^order (zero outside the runs)"""
    S = np.zeros(A.shape)
    for cells in runs:
        S[cells, :] = np.max(np.abs(A[cells, :]), axis=0) / dx ** order
    return S


def _bad(got, EF, S, dyadic, geo=0.0):
    """entries that differ from the exact-rational expectation (dyadic: ==, decimal: 64 ulp of the run scale plus the
    relative rounding `geo` of the cell size that the region corners themselves carry)"""
    L, K = got.shape
    bad = np.zeros((L, K), dtype=bool)
    for j in range(L):
        for k in range(K):
            g = float(got[j, k])
            if not np.isfinite(g):
                bad[j, k] = True
            elif dyadic:
                e = float(EF[j][k])
                assert Fr(e) == EF[j][k], "dyadic expectation not representable (generator bound broken)"
                bad[j, k] = g != e
            else:
                bad[j, k] = abs(Fr(g) - EF[j][k]) > Fr(64 * EPS * max(float(S[j, k]), abs(g)) + geo * abs(g))
    return bad


def _poly_eval(c, u, der, h):
    """d^der/dx^der of sum_q c[q] ((x - xref)/h)^q at (x - xref)/h = u, exact"""
    tot = Fr(0)
    for q in range(der, len(c)):
        f = 1
        for t in range(der):
            f *= (q - t)
        tot += c[q] * f * u ** (q - der)
    return tot / h ** der


def _gen_data(rng, pr, mask, periodic, order, xF, dxF):
    """K components; a polynomial per (restricted) run and component; values of the same scale in the invalid cells.
    returns A (floats), polys[k] = {first cell of run: (coeffs, cells, uvals, h)}, const[k] (a representable constant)"""
    L = len(mask)
    dyadic = pr["dyadic"]
    runs = _run_cells(mask, periodic, True)
    K = 4
    A = np.zeros((L, K))
    polys = [dict() for _ in range(K)]
    const = [0.0] * K
    lit = pr.get("lit")
    for k in range(K):
        # scale classes: 0 tiny, no offset; 1 offset-dominated; 2 anything; 3 huge
        if dyadic:
            U = [int(rng.integers(-40, -29)), int(rng.integers(-12, 41)), int(rng.integers(-40, 41)), int(rng.integers(25, 41))][k]
            ratio = [None, RATIOS2[int(rng.integers(3, 7))], RATIOS2[int(rng.integers(len(RATIOS2)))],
                     RATIOS2[int(rng.integers(0, 3))]][k]
            N = [0] * L
            c0s = {}
            for cells in runs:
                n = len(cells)
                deg = (2 if n >= 3 else 1) if order == 1 else (3 if n >= 4 else 2)
                c = [0, int(rng.integers(-100, 101)), int(rng.integers(-20, 21)), int(rng.integers(-3, 4))]
                for q in range(deg + 1, 4):
                    c[q] = 0
                if c[deg] == 0:
                    c[deg] = 1
                var = [c[1] * u + c[2] * u ** 2 + c[3] * u ** 3 for u in range(n)]
                mv = max(1, max(abs(v) for v in var))
                if ratio is None:
                    c[0] = int(rng.integers(-50, 51))
                else:
                    c[0] = min(CAPQ - mv, int(mv / ratio) + int(rng.integers(0, 8)))
                    if rng.random() < 0.5:
                        c[0] = -c[0]
                for u, i in enumerate(cells):
                    N[i] = c[0] + var[u]
                c0s[cells[0]] = c[0]
                polys[k][cells[0]] = ([Fr(v) for v in c], cells, list(range(n)), None)
            base = list(c0s.values())
            for i in range(L):
                if not mask[i]:
                    b = base[int(rng.integers(len(base)))] if base else int(rng.integers(-50, 51))
                    N[i] = b + int(rng.integers(-9, 10))
            top = max(1, max(abs(v) for v in N))
            q = 2.0 ** (U - top.bit_length())
            A[:, k] = [float(v) * q for v in N]
            polys[k] = {s: ([v * Fr(q) for v in c], cells, us, dxF) for s, (c, cells, us, _) in polys[k].items()}
            const[k] = float(base[0] if base else N[0]) * q
        elif lit is not None and k == 0:
            C, s1, s2, _ = LITERALS[lit]
            c = [Fr(C), Fr(s1), Fr(s2), Fr(0)]
            for cells in runs:
                n = len(cells)
                us = [xF[cells[0]] + u * dxF for u in range(n)]      # ring-unrolled coordinate
                if order == 1 and n < 3:
                    cc = [c[0], c[1], Fr(0), Fr(0)]
                else:
                    cc = c
                for u, i in zip(us, cells):
                    A[i, k] = float(_poly_eval(cc, u, 0, Fr(1)))
                polys[k][cells[0]] = (cc, cells, us, Fr(1))
            for i in range(L):
                if not mask[i]:
                    A[i, k] = C * (1.0 + 1e-7 * float(rng.uniform(-1, 1)))
            const[k] = C
        else:
            U = [int(rng.integers(-12, -8)), int(rng.integers(-4, 13)), int(rng.integers(-12, 13)), int(rng.integers(8, 13))][k]
            ratio = [None, RATIOS10[int(rng.integers(2, 8))], RATIOS10[int(rng.integers(len(RATIOS10)))],
                     RATIOS10[int(rng.integers(0, 3))]][k]
            Cs = []
            for cells in runs:
                n = len(cells)
                deg = (2 if n >= 3 else 1) if order == 1 else (3 if n >= 4 else 2)
                C = float(rng.uniform(1, 10)) * 10.0 ** U * (1 if rng.random() < 0.5 else -1)
                b = [float(rng.uniform(-1, 1)) for _ in range(4)]
                if ratio is None:
                    c = [Fr(C * b[0])] + [Fr(C) * Fr(b[q]) / n ** q for q in (1, 2, 3)]
                else:
                    c = [Fr(C)] + [Fr(C) * Fr(ratio) * Fr(b[q]) / n ** q for q in (1, 2, 3)]
                for q in range(deg + 1, 4):
                    c[q] = Fr(0)
                for u, i in enumerate(cells):
                    A[i, k] = float(_poly_eval(c, Fr(u), 0, Fr(1)))
                polys[k][cells[0]] = (c, cells, list(range(n)), dxF)
                Cs.append(float(c[0]))
            for i in range(L):
                if not mask[i]:
                    b = Cs[int(rng.integers(len(Cs)))] if Cs else 10.0 ** U
                    A[i, k] = b * (1.0 + 1e-6 * float(rng.uniform(-1, 1)))
            const[k] = Cs[0] if Cs else float(A[0, k])
    return A, polys, const


def _gen_deviation(rng, pr, L):
    """component c < K-1: a constant line with one deviating cell (|deviation| << |constant|); last component: exactly constant"""
    dyadic = pr["dyadic"]
    cellsel = sorted(rng.choice(L, size=min(L, 5), replace=False).tolist())
    K = len(cellsel) + 1
    A = np.zeros((L, K))
    for k in range(K):
        if dyadic:
            U = int(rng.integers(-40, 41))
            d = int(rng.integers(1, 100)) * (1 if rng.random() < 0.5 else -1)
            ratio = RATIOS2[int(rng.integers(1, len(RATIOS2)))]
            c0 = min(CAPQ - 100, int(abs(d) / ratio)) * (1 if rng.random() < 0.5 else -1)
            q = 2.0 ** (U - abs(c0).bit_length())
            A[:, k] = float(c0) * q
            if k < K - 1:
                A[cellsel[k], k] = float(c0 + d) * q
        else:
            C = float(rng.uniform(1, 10)) * 10.0 ** int(rng.integers(-12, 13)) * (1 if rng.random() < 0.5 else -1)
            ratio = RATIOS10[int(rng.integers(1, len(RATIOS10)))]
            A[:, k] = C
            if k < K - 1:
                A[cellsel[k], k] = C * (1.0 + ratio * float(rng.uniform(0.5, 1) * (1 if rng.random() < 0.5 else -1)))
    return A


def check_offs(pr, ctx):
    L, m, periodic, dyadic = pr["L"], pr["mask"], pr["periodic"], pr["dyadic"]
    mask = [bool((m >> i) & 1) for i in range(L)]
    valid = np.array(mask, dtype=bool)
    if L == 1:
        ctx.trivial()
    rng = np.random.default_rng(pr["seed"])
    if dyadic:
        dx = 2.0 ** pr["e"]
        p1, p2 = pr["off"] * dx, (pr["off"] + L) * dx
    else:
        dx = float(pr["dx"])
        p1 = pr["off"] * dx
        p2 = p1 + L * dx
    mesh = df.Mesh(p1=p1, p2=p2, n=L, bc="x" if periodic else "")
    dxF = (Fr(p2) - Fr(p1)) / L                         # the cell size of the region handed over, exact
    if dyadic:
        assert mesh.cell[0] == dx == float(dxF)
    xF = [Fr(p1) + (Fr(2 * i + 1) / 2) * dxF for i in range(L)]
    # decimal regions: a corner is only given to 1 ulp of its own magnitude; spread over the line this is a relative
    # uncertainty of the cell size (and `order` times that of the derivative).  Zero for dyadic regions.
    geo1 = 0.0 if dyadic else 2 * EPS * max(abs(p1), abs(p2)) / (L * dx)
    wrapc = wrap_run_cells(mask) if periodic else set()
    ring_clause = "C04.ring_centred" if all(mask) else "C04.ring_runs"

    def field(A, v=None):
        return df.Field(mesh, nvdim=A.shape[1], value=A.copy(), valid=(valid if v is None else v).copy(), unit="K")

    def run(A, order, restrict, clause, v=None):
        r, d = raises(Exception, field(A, v).diff, "x", order=order, restrict2valid=restrict)
        if r:
            ctx.require(False, clause, "diff raised", sig="raises-" + type(d).__name__, error=repr(d), order=order, restrict=restrict)
            return None
        return d

    def against_matrix(A, got, order, restrict, what):
        """got == stencil matrix of the mask applied to A in exact rational arithmetic"""
        runs = _run_cells(mask, periodic, restrict)
        EF = _apply_exact(_matrix(mask, periodic, order, restrict), A, dxF, order)
        S = _run_scale(A, runs, dx, order)
        bad = _bad(got, EF, S, dyadic, order * geo1)
        rows = sorted(set(np.nonzero(bad.any(axis=1))[0].tolist()))
        det = dict(order=order, restrict=restrict, mask=[int(b) for b in mask], rows=rows, data=what,
                   got=got[rows], want=[[float(v) for v in EF[j]] for j in rows], values=A)
        if periodic:
            full = all(mask) or not restrict
            sig = SIG_WRAP if (rows and not full and set(rows) <= wrapc) else None
            ctx.require(not rows, "C04.ring_centred" if full else "C04.ring_runs",
                        "ring: result differs from the wrap-around stencil matrix applied exactly to the values", sig=sig, **det)
        else:
            ctx.require(not rows, "C04.exact_rational", "result differs from the per-run stencil matrix applied exactly to the values", **det)
        if not restrict:
            ctx.require(not rows, "C04.restrict_off", "restrict2valid=False: result differs from the single-run stencil matrix applied exactly",
                        **det)
        else:
            zero = [j for j in range(L) if not mask[j] or ((not periodic or not all(mask)) and _runlen(mask, j, periodic) <= order)]
            ctx.require(not np.any(got[zero, :]), "C04.zero_short_invalid", "non-zero result in an invalid cell or a run not longer than the order",
                        order=order, mask=[int(b) for b in mask], data=what, got=got[zero])
        return rows

    for order in (1, 2):
        A, polys, const = _gen_data(rng, pr, mask, periodic, order, xF, dxF)
        Cv = np.array(const)
        G = A - Cv                                       # dyadic: exact; decimal: G + c rounds to A within 1/2 ulp of |A|
        Dv = _gen_deviation(rng, pr, L)
        res = {}
        for restrict in (True, False):
            d = run(A, order, restrict, "C04.exact_rational" if not periodic else ring_clause)
            if d is None:
                continue
            got = d.array
            res[restrict] = got
            ctx.require(_meta_ok(d, field(A)), "C04.metadata", "mesh/vdims/unit/vdim_mapping/valid not kept", order=order, restrict=restrict)
            against_matrix(A, got, order, restrict, "polynomial per run")
            # analytic derivative of the polynomials (open lines; with the restriction off only fully valid lines are one polynomial)
            if not periodic and (restrict or all(mask)):
                S = _run_scale(A, _run_cells(mask, False, True), dx, order)
                badp = []
                for k in range(A.shape[1]):
                    for s, (c, cells, us, h) in polys[k].items():
                        if len(cells) <= order:
                            continue
                        for u, i in zip(us, cells):
                            want = _poly_eval(c, Fr(u), order, Fr(h))
                            g = float(got[i, k])
                            if dyadic:
                                okp = np.isfinite(g) and Fr(g) == want
                            else:
                                okp = np.isfinite(g) and abs(Fr(g) - want) <= Fr(64 * EPS * max(float(S[i, k]), abs(g)) + order * geo1 * abs(g))
                            if not okp:
                                badp.append([i, k, g, float(want), float(A[i, k])])
                ctx.require(not badp, "C04.poly_exact_offset", "derivative of a per-run polynomial with a dominant constant term / at an extreme scale is not exact",
                            order=order, restrict=restrict, mask=[int(b) for b in mask], nbad=len(badp), first=badp[:4], dx=dx)
            # linearity with a constant
            dg = run(G, order, restrict, "C04.offset_invariance")
            if dg is not None:
                if dyadic:
                    badc = dg.array != got
                else:
                    S = _run_scale(np.maximum(np.abs(A), np.abs(G)), _run_cells(mask, periodic, restrict), dx, order)
                    badc = ~(np.abs(dg.array - got) <= 64 * EPS * np.maximum(S, np.maximum(np.abs(got), np.abs(dg.array))))
                ctx.require(not badc.any(), "C04.offset_invariance", "diff(g + c) != diff(g) for a per-component constant c",
                            order=order, restrict=restrict, periodic=periodic, mask=[int(b) for b in mask], c=Cv,
                            first=[int(v) for v in np.argwhere(badc)[0]] if badc.any() else None, with_c=got, without_c=dg.array)
            # constant lines, lines constant except one cell
            dd = run(Dv, order, restrict, "C04.exact_rational" if not periodic else ring_clause)
            if dd is not None:
                against_matrix(Dv, dd.array, order, restrict, "constant line with one deviating cell")
            # ring: cyclic shifts
            if periodic and L > 1:
                for s in (sorted({1, L // 2}) if restrict else [L - 1]):
                    smask = np.roll(valid, s)
                    ds = run(np.roll(A, s, axis=0), order, restrict, "C04.ring_shift", v=smask)
                    if ds is None:
                        continue
                    badrows = set(np.nonzero(np.any(ds.array != np.roll(got, s, axis=0), axis=1))[0].tolist())
                    known = wrap_run_cells(smask.tolist()) | {(j + s) % L for j in wrapc}
                    sig = SIG_WRAP if (badrows and restrict and badrows <= known) else None
                    ctx.require(not badrows, "C04.ring_shift", "diff does not commute with the cyclic shift (offset-dominated / scaled data)",
                                sig=sig, order=order, restrict=restrict, shift=s, mask=[int(b) for b in mask], rows=sorted(badrows))
        # independence of runs: other runs moved to another offset and scale, invalid cells to +-1e300
        runs = _run_cells(mask, periodic, True)
        if runs and True in res:
            keep = runs[int(rng.integers(len(runs)))]
            A2 = np.where(rng.random(A.shape) < 0.5, 1e300, -1e300)
            for cells in runs:
                A2[cells, :] = A[cells, :] * (2.0 ** rng.integers(-20, 21, size=A.shape[1])) + Cv * float(rng.integers(-3, 4))
            A2[keep, :] = A[keep, :]
            d2 = run(A2, order, True, "C04.run_isolation")
            if d2 is not None:
                badrows = set(j for j in keep if np.any(d2.array[j] != res[True][j]))
                sig = SIG_WRAP if (badrows and badrows <= wrapc) else None
                ctx.require(not badrows and not np.any(d2.array[~valid]), "C04.run_isolation",
                            "values outside the run (other offset / scale) change the run's result (or invalid cells become non-zero)",
                            sig=sig, order=order, mask=[int(b) for b in mask], run=keep)
