"""C05 bounded run-time tier: Field.grad / div / curl / laplace on the real code.

Oracles: analytic derivatives of polynomials of degree <= 2 (written out by hand: f = c + b.x + x^T S x,
d_k f = b_k + 2 sum_j S_kj x_j, d_k d_k f = 2 S_kk) combined by the textbook formulas, the pairing
component -> axis taken from the case parameters (never from the library); for arbitrary data the
combination of Field.diff of separately built scalar fields (the statement's own wording).
Pairings of fields built with default labels / default mapping, of stacked fields and of operator results are stated by
POSITION (component j <-> mesh axis j) from the case parameters and exercised on meshes whose dimension names collide with
component labels; chained operators (div grad, grad div, curl grad, div curl) check what the next operator makes of them."""
import functools
import itertools
import operator
import numpy as np
import discretisedfield as df
from .common import raises, ulp_close

PROPERTY = "C05"
CLAUSES = {
    "C05.grad_exact": "grad of a polynomial of degree <=2 (>=3 cells per direction, open, fully valid): component paired (through the result's own mapping) with axis a equals the analytic d f/d a at the cell centres (== for integer coefficients and power-of-two cells, else within 64 ulp of T/dx_a, T = largest summed magnitude of the polynomial's terms = rounding scale of the sampled values); result has ndim components",
    "C05.div_exact": "div of a degree-<=2 polynomial vector field == sum over components m of analytic d v_m / d axis(mapping[vdims[m]]) (==, or within 64 ulp of sum_m T_m/dx_axis(m)); result is scalar",
    "C05.curl_exact": "curl (3 components on a 3-d mesh): the component paired with axis k equals d v_r(k+2)/d axis(k+1) - d v_r(k+1)/d axis(k+2) with r = inverse of the mapping, k cyclic in mesh-axis order (==, or within 64 ulp of the operand scale)",
    "C05.laplace_exact": "laplace of degree-<=2 polynomials: every component (scalar or vector, any component count) equals 2*trace(S) of its own polynomial (==, or within 64 ulp of T_m sum_d 1/dx_d^2)",
    "C05.relabel_keeps_pairing": "renaming the components (f.vdims = new labels: fresh, the dimension names shuffled, the default labels, or the old labels rotated) carries the component-to-axis pairing over to the new labels position by position and the operators still pair by it",
    "C05.combination": "for arbitrary values, validity masks and periodic directions: grad == stack of diff(axis) per axis; div == sum_m diff(component m, mapped axis); curl_k == diff(v_r(k+2), k+1) - diff(v_r(k+1), k+2); laplace == sum_d diff(component, d, order 2); diffs taken with Field.diff on separately built scalar fields; within 8 ulp of the summed term magnitudes",
    "C05.curl_grad_zero": "curl(grad f) == 0 within 64 ulp of max|f|/(dx_a dx_b) per component on fully valid 3-d meshes (any n >= 1, open or periodic)",
    "C05.div_curl_zero": "div(curl v) == 0 within 64 ulp of max|v| * sum over axis pairs 1/(dx_a dx_b) on fully valid 3-d meshes (any n >= 1, open or periodic, any mapping)",
    "C05.rot90_commute": "op(f.rotate90(ax1, ax2, k)) == op(f).rotate90(ax1, ax2, k) for op in grad, div, curl, laplace, every axis pair and k=1,2,3: same n, region corners within 64 ulp of the coordinate scale, values within 64 ulp of g*max|f| sum_d 1/dx_d^order, same validity (g = 1 + R/min in-plane edge accounts for the rounding of the rotated corners at the in-plane coordinate scale R)",
    "C05.default_pairing": "a vector field with nvdim == ndim >= 2 built without component labels carries the documented default labels (x, y[, z]; v0.. for 4), and built without a mapping it pairs component m with mesh axis m BY POSITION - {vdims[m]: dims[m]} - whatever the labels and the dimension names are spelled like (dims that are the default labels in another order, labels that are the dims shuffled, ...); an explicit mapping is kept as given",
    "C05.result_pairing": "metadata of the results: grad and curl have ndim distinct labels and component j belongs to mesh axis j (vdim_mapping == {vdims[j]: dims[j]}, ndim >= 2); the Laplacian of a mapped vector field keeps the labels and the pairing of its input; div and the scalar Laplacian are scalar",
    "C05.chain_exact": "operators applied to operator results, degree-<=2 polynomials, >= 3 cells per direction, open, fully valid: div(grad f) == 2 tr S; grad(div v) component of axis a == sum_m 2 S_m[axis(m), a]; on 3-d meshes curl(grad f) == 0 and div(curl v) == 0 (== for integer coefficients and power-of-two cells, else within 64 ulp of the first result's rounding scale divided by the cell size of the second derivative)",
    "C05.stacked_pairing": "stacking scalar fields with << (how grad and curl build their results): component j holds the j-th operand (valid = AND of the operands); unlabelled operands give distinct labels paired with the mesh axes by position; operands labelled and mapped individually keep their label and axis; div/curl of the stacked field follow that pairing (values under C05.combination)",
    "C05.refusals": "refused (ValueError or TypeError): grad of a non-scalar field; div with nvdim != ndim; curl unless nvdim == ndim == 3; div/curl when a component has no mapping entry, maps to a name that is not a mesh axis, or (curl) an axis has no component",
}
RULE = ("poly: seeded meshes of 1-4 dims with 3-6 cells per axis, anisotropic cells (power of two for the exact variant, 10^U(-9,1) "
        "otherwise), renamed dims, fresh or misleading (= dimension names, shuffled) component labels, every permutation of the "
        "mapping for ndim <= 3 and sampled for ndim 4; combo/identity/rot: seeded random data, n from 1, masks, periodic subsets; "
        "rot: every unordered axis pair in both orders x k in 1..3; "
        "collision block (all kinds, plus stack): dimension names that ARE component labels - x,y,z in each of the 5 non-standard orders, "
        "(y,x) (x,z) (z,x) (y,z) (z,y) in 2-d, y / z in 1-d, v0..v3 permuted and x,y,z + a foreign name shuffled in 4-d, two default "
        "labels + a foreign name in 3-d - and ordinary random names, each crossed with labels {not given, default labels shuffled, "
        "dims shuffled, fresh} x mapping {not given (default), explicit random permutation}, relabelling to fresh / dims shuffled / "
        "default labels / the old labels rotated; stack: operands unlabelled or individually labelled+mapped, left/right association; "
        "non-trivial = more than one cell; distinct by (kind, params)")
ASSUMPTIONS = ["bounded: meshes <= 6 cells per axis, <= 4 dims; polynomial coefficients and data seeded",
               "rot90 cases: |p1| <= 6 cells from the origin and cell sizes within a factor 16 of each other, so that the geometric factor g of the rounding budget stays below ~100",
               "periodic directions only on meshes with one-character dimension names (bc names an axis by one character)",
               "default component labels taken from the documentation (x, y, z for 2-3 components, v0.. for more)",
               "trusted: Field construction from arrays, Field.diff (covered by C04) in C05.combination, numpy"]

NAMES = ["a", "b", "c", "e", "g", "h", "k", "p", "q", "r", "s", "u", "w", "x", "y", "z"]
VNAMES = ["p", "q", "r", "s", "u", "w", "ma", "mb", "e1", "e2", "alpha", "beta"]
SIG_BC = "rotate90-keeps-bc-on-old-axis-name"
SIG_LAPMAP = "vector-laplace-resets-vdim-mapping-to-positional"


# ------------------------------------------------------------------ cases
def _mesh_params(rng, ndim, exact, nlo, nhi, periodic=None, small_offset=False, dims=None):
    n = rng.integers(nlo, nhi + 1, size=ndim).tolist()
    rnd = [str(d) for d in rng.choice(NAMES, size=ndim, replace=False)]
    dims = rnd if dims is None else list(dims)
    if any(len(d) != 1 for d in dims):
        periodic = None     # a periodic direction is named by ONE character of bc: not expressible for names like 'v0'
    if small_offset:        # rotation cases: anisotropic, but cell sizes within a factor 16 of each other
        cell = (10.0 ** rng.uniform(-9, 1) * rng.uniform(0.25, 4.0, size=ndim)).tolist()
        p1 = (np.array(cell) * rng.uniform(-6, 6, size=ndim)).tolist()
    elif exact:
        cell = (2.0 ** rng.integers(-3, 4, size=ndim)).tolist()
        p1 = (np.array(cell) * rng.integers(-5, 6, size=ndim)).tolist()
    else:
        cell = (10.0 ** rng.uniform(-9, 1, size=ndim)).tolist()
        p1 = (np.array(cell) * rng.uniform(-20, 20, size=ndim)).tolist()
    if periodic is None or periodic == "open":
        bc = ""
    elif periodic == "all":
        bc = "".join(dims)
    else:
        k = int(rng.integers(1, ndim + 1))
        bc = "".join(str(d) for d in rng.choice(dims, size=k, replace=False))
    return {"n": n, "cell": cell, "p1": p1, "dims": dims, "bc": bc}


def _labels(rng, dims, mode):
    nd = len(dims)
    if mode == "fresh":
        return [str(v) for v in rng.choice(VNAMES, size=nd, replace=False)]
    if mode == "dims":      # labels spelled like the dimensions, in shuffled position
        return [str(v) for v in rng.permutation(dims)]
    return ["x", "y", "z", "v3"][:nd] if nd != 4 else ["v0", "v1", "v2", "v3"]


def _default_labels(nv):
    """the documented default component labels"""
    if nv == 1:
        return None
    return ["x", "y", "z"][:nv] if nv <= 3 else [f"v{i}" for i in range(nv)]


OTHER = ["a", "b", "c", "e", "g", "h"]


def _collide_list(rng, ndim):
    """dimension names that collide with default component labels, (almost) never at the standard position"""
    if ndim == 1:
        return [["y"], ["z"]]
    if ndim == 2:
        return [["y", "x"], ["x", "z"], ["z", "x"], ["y", "z"], ["z", "y"]]
    if ndim == 3:
        out = [list(p) for p in itertools.permutations("xyz")][1:]      # the default labels in every non-standard order
        for _ in range(2):                                                  # two of them + a foreign name
            p = [str(s) for s in rng.permutation(["x", "y", "z"])]
            p[int(rng.integers(3))] = str(rng.choice(OTHER))
            out.append(p)
        return out
    out = []
    base = _default_labels(4)
    while len(out) < 2:                                                     # v0..v3 in a non-standard order
        p = [str(s) for s in rng.permutation(base)]
        if p != base and p not in out:
            out.append(p)
    for _ in range(2):                                                      # x, y, z and a foreign name, shuffled
        out.append([str(s) for s in rng.permutation(["x", "y", "z", str(rng.choice(OTHER))])])
    return out


# (labels, mapping): labels none = not given (library defaults) | defperm = the default labels given in shuffled order |
# dims = the dimension names shuffled | fresh; mapping default = not given | perm = explicit random permutation
CFGS = [("none", "default"), ("defperm", "default"), ("dims", "default"), ("fresh", "default"),
        ("none", "perm"), ("defperm", "perm"), ("dims", "perm")]
CFGS1 = [("defperm", "perm"), ("dims", "perm")]       # 1-d: a scalar field has no default labels / mapping


def _label_cfg(rng, dims, cfg):
    nd = len(dims)
    lab, mp = cfg
    deflab = _default_labels(nd) or ["x"]
    if lab == "none":
        vd, keys = None, deflab
    elif lab == "defperm":
        vd = keys = [str(v) for v in rng.permutation(deflab)]
    elif lab == "dims":
        vd = keys = [str(v) for v in rng.permutation(dims)]
    else:
        vd = keys = [str(v) for v in rng.choice(VNAMES, size=nd, replace=False)]
    if mp == "default":
        return vd, None
    perm = rng.permutation(nd).tolist()
    return vd, {keys[m]: dims[perm[m]] for m in range(nd)}


def _relabel(rng, dims, vd):
    """new component labels: fresh | the dimension names shuffled | the default labels | the old labels rotated"""
    nd = len(dims)
    old = vd if vd is not None else (_default_labels(nd) or ["x"])
    c = int(rng.integers(6))
    if c == 0:
        return [str(v) for v in rng.choice(VNAMES, size=nd, replace=False)]
    if c == 1:
        return [str(v) for v in rng.permutation(dims)]
    if c == 2:
        return _default_labels(nd) or ["x"]
    if c == 3 and nd > 1:
        return old[1:] + old[:1]
    return None


def _collision_cases(ctx):
    rng = ctx.rng
    quick = ctx.tier == "quick"
    # ---- NAME COLLISIONS between dimension names and component labels + default labels / default mappings
    reps = 1 if quick else 3
    for ndim in (1, 2, 3, 4):
        for _rep in range(reps):
            dlist = _collide_list(rng, ndim) + [None]                       # None: ordinary random names
            for di, dn in enumerate(dlist):
                for ci, cfg in enumerate(CFGS1 if ndim == 1 else CFGS):
                    for exact in (True, False):
                        mp = _mesh_params(rng, ndim, exact, 3, 5 if ndim < 4 else 4, dims=dn)
                        vd, mapping = _label_cfg(rng, mp["dims"], cfg)
                        yield "poly", dict(mp, vdims=vd, mapping=mapping, relabel=_relabel(rng, mp["dims"], vd), exact=exact,
                                           nextra=int(rng.integers(1, 6)), seed=int(rng.integers(1 << 30)))
                    cfgs = CFGS1 if ndim == 1 else CFGS
                    cfg = cfgs[(di + ci) % len(cfgs)]
                    if ci < 2:      # arbitrary data, masks, periodic directions
                        mp = _mesh_params(rng, ndim, False, 1, {1: 8, 2: 6, 3: 5, 4: 3}[ndim], ["open", "some", "all"][(di + ci) % 3], dims=dn)
                        vd, mapping = _label_cfg(rng, mp["dims"], cfg)
                        yield "combo", dict(mp, vdims=vd, mapping=mapping, density=[1.0, 0.8, 0.5][int(rng.integers(3))],
                                            nextra=int(rng.integers(1, 6)), seed=int(rng.integers(1 << 30)))
                    if ndim == 3 and ci < 6:
                        mp = _mesh_params(rng, 3, False, 1, 6, ["open", "some", "all"][ci % 3], dims=dn)
                        vd, mapping = _label_cfg(rng, mp["dims"], CFGS[(di + ci) % len(CFGS)])
                        yield "identity", dict(mp, vdims=vd, mapping=mapping, seed=int(rng.integers(1 << 30)))
                if ndim >= 2:       # stacked fields
                    for variant in ("left", "right", "labelled-left", "labelled-right"):
                        mp = _mesh_params(rng, ndim, False, 1, {2: 6, 3: 5, 4: 3}[ndim], ["open", "some", "all"][int(rng.integers(3))], dims=dn)
                        labels = smap = None
                        if variant.startswith("labelled"):
                            src = [mp["dims"], _default_labels(ndim), VNAMES][int(rng.integers(3))]
                            labels = [str(v) for v in rng.permutation(src)[:ndim]]
                            smap = [str(v) for v in rng.permutation(mp["dims"])]
                        yield "stack", dict(mp, assoc=variant.split("-")[-1], labels=labels, smap=smap,
                                            density=[1.0, 0.8, 0.5][int(rng.integers(3))], seed=int(rng.integers(1 << 30)))
            # quarter turns on colliding names (open / fully periodic: a partly periodic plane is the known bc finding)
            if ndim >= 2:
                picks = [0, 3] if ndim == 2 else ([1, 3] if ndim == 3 else [0, 2])
                for pi, di in enumerate(picks[: 2 if ndim < 4 or not quick else 1]):
                    dn = dlist[di]
                    mp = _mesh_params(rng, ndim, False, 1 if ndim > 2 else 2, {2: 6, 3: 5, 4: 3}[ndim], ["open", "all"][pi % 2], small_offset=True, dims=dn)
                    vd, mapping = _label_cfg(rng, mp["dims"], CFGS[[0, 2, 1, 4][(pi + ndim) % 4]])
                    for i, j in itertools.permutations(range(ndim), 2):
                        for k in (1, 2, 3):
                            yield "rot", dict(mp, vdims=vd, mapping=mapping, ax1=mp["dims"][i], ax2=mp["dims"][j], k=k,
                                              density=[1.0, 1.0, 0.7][int(rng.integers(3))], seed=int(rng.integers(1 << 30)))


def cases(ctx):
    rng = ctx.rng
    quick = ctx.tier == "quick"
    # ---- polynomial exactness, every permutation of the mapping
    for ndim in (1, 2, 3, 4):
        perms = list(itertools.permutations(range(ndim)))
        if ndim == 4:
            sel = rng.choice(len(perms), size=6 if quick else 24, replace=False)
            perms = [perms[i] for i in sorted(sel)]
        for perm in perms:
            for exact in (True, False):
                for mode in (("fresh", "dims") if quick else ("fresh", "dims", "default")):
                    for _ in range(2 if quick else 4):
                        mp = _mesh_params(rng, ndim, exact, 3, 6 if ndim < 4 else 4)
                        vd = _labels(rng, mp["dims"], mode)
                        mapping = {vd[m]: mp["dims"][perm[m]] for m in range(ndim)}
                        newl = [str(v) for v in rng.choice(VNAMES, size=ndim, replace=False)] if rng.random() < 0.4 else None
                        yield "poly", dict(mp, vdims=vd, mapping=mapping, relabel=newl, exact=exact,
                                           nextra=int(rng.integers(1, 6)), seed=int(rng.integers(1 << 30)))
    # ---- combination clause on arbitrary data / masks / periodic directions
    for ndim in (1, 2, 3, 4):
        for per in ("open", "some", "all"):
            for _ in range(5 if quick else 16):
                mp = _mesh_params(rng, ndim, False, 1, {1: 8, 2: 6, 3: 5, 4: 3}[ndim], per)
                perm = rng.permutation(ndim).tolist()
                vd = _labels(rng, mp["dims"], ["fresh", "dims"][int(rng.integers(2))])
                mapping = {vd[m]: mp["dims"][perm[m]] for m in range(ndim)}
                yield "combo", dict(mp, vdims=vd, mapping=mapping, density=[1.0, 0.8, 0.5][int(rng.integers(3))],
                                    nextra=int(rng.integers(1, 6)), seed=int(rng.integers(1 << 30)))
    # ---- vector identities, 3-d, fully valid
    for per in ("open", "some", "all"):
        for _ in range(12 if quick else 80):
            mp = _mesh_params(rng, 3, False, 1, 6, per)
            perm = rng.permutation(3).tolist()
            vd = _labels(rng, mp["dims"], ["fresh", "dims", "default"][int(rng.integers(3))])
            mapping = {vd[m]: mp["dims"][perm[m]] for m in range(3)}
            yield "identity", dict(mp, vdims=vd, mapping=mapping, seed=int(rng.integers(1 << 30)))
    yield "identity", {"n": [1, 2, 3], "cell": [1e-9, 2e-9, 5e-10], "p1": [0.0, 0.0, 0.0], "dims": ["x", "y", "z"], "bc": "xz",
                       "vdims": ["x", "y", "z"], "mapping": {"x": "x", "y": "y", "z": "z"}, "seed": 3}
    # ---- rotations
    for ndim in (2, 3, 4):
        for per in ("open", "some", "all"):
            for _ in range(2 if quick else 8):
                mp = _mesh_params(rng, ndim, False, 1 if ndim > 2 else 2, {2: 6, 3: 5, 4: 3}[ndim], per, small_offset=True)
                perm = rng.permutation(ndim).tolist()
                vd = _labels(rng, mp["dims"], ["fresh", "dims"][int(rng.integers(2))])
                mapping = {vd[m]: mp["dims"][perm[m]] for m in range(ndim)}
                for i, j in itertools.permutations(range(ndim), 2):
                    for k in (1, 2, 3):
                        yield "rot", dict(mp, vdims=vd, mapping=mapping, ax1=mp["dims"][i], ax2=mp["dims"][j], k=k,
                                          density=[1.0, 1.0, 0.7][int(rng.integers(3))], seed=int(rng.integers(1 << 30)))
    # ---- refusals
    for ndim in (1, 2, 3, 4):
        for _ in range(2 if quick else 6):
            mp = _mesh_params(rng, ndim, False, 1, 4, ["open", "some"][int(rng.integers(2))])
            yield "refuse", dict(mp, seed=int(rng.integers(1 << 30)))
    yield from _collision_cases(ctx)


# ------------------------------------------------------------------ helpers
def _mesh(pr):
    n = list(pr["n"])
    cell = np.array(pr["cell"], dtype=float)
    p1 = np.array(pr["p1"], dtype=float)
    p2 = p1 + cell * np.array(n)
    region = df.Region(p1=tuple(p1), p2=tuple(p2), dims=tuple(pr["dims"]))
    mesh = df.Mesh(region=region, n=tuple(n), bc=pr.get("bc", ""))
    dxs = (np.maximum(p1, p2) - np.minimum(p1, p2)) / np.array(n)
    X = np.meshgrid(*[np.minimum(p1, p2)[d] + (np.arange(n[d]) + 0.5) * dxs[d] for d in range(len(n))], indexing="ij")
    return mesh, n, len(n), dxs, X


class Poly:
    """f = c + b.x + sum_ij S_ij x_i x_j with S symmetric"""

    def __init__(self, rng, ndim, exact):
        if exact:
            self.c = float(rng.integers(-9, 10))
            self.b = rng.integers(-6, 7, size=ndim).astype(float)
            A = rng.integers(-3, 4, size=(ndim, ndim)).astype(float)
        else:
            self.c = float(rng.uniform(-5, 5))
            self.b = rng.uniform(-5, 5, size=ndim)
            A = rng.uniform(-3, 3, size=(ndim, ndim))
        self.S = np.triu(A) + np.triu(A, 1).T
        for d in range(ndim):
            if self.S[d, d] == 0:
                self.S[d, d] = 1.0
        self.ndim = ndim

    def scaled(self, dxs):
        """make the terms comparable on a mesh with very different cell sizes: coefficients per cell units"""
        q = Poly.__new__(Poly)
        q.ndim, q.c = self.ndim, self.c
        q.b = self.b / dxs
        q.S = self.S / np.outer(dxs, dxs)
        return q

    def val(self, X):
        f = self.c + sum(self.b[i] * X[i] for i in range(self.ndim))
        for i in range(self.ndim):
            for j in range(self.ndim):
                f = f + self.S[i, j] * X[i] * X[j]
        return f

    def mag(self, X):
        """largest sum of the magnitudes of the terms: the rounding scale of the sampled values"""
        f = abs(self.c) + sum(np.abs(self.b[i] * X[i]) for i in range(self.ndim))
        for i in range(self.ndim):
            for j in range(self.ndim):
                f = f + np.abs(self.S[i, j] * X[i] * X[j])
        return float(np.max(f))

    def d1(self, k, X):
        return self.b[k] + 2 * sum(self.S[k, j] * X[j] for j in range(self.ndim))

    def d2(self, k, X):
        return 2 * self.S[k, k] + 0 * X[0]


def _close(got, want, exact, scale):
    if got.shape != want.shape:
        return False
    if exact:
        return bool(np.array_equal(got, want))
    return ulp_close(got, want, 64, scale)


def _axis_of_component(field, c, dims):
    """axis index the *result's own* mapping pairs with component c (None if it cannot be told)"""
    if field.nvdim == 1 and len(dims) == 1 and not field.vdim_mapping:
        return 0
    try:
        return list(dims).index(field.vdim_mapping[field.vdims[c]])
    except Exception:
        return None


def _scalar(mesh, arr, valid=None):
    return df.Field(mesh, nvdim=1, value=np.ascontiguousarray(arr[..., np.newaxis]), valid=True if valid is None else valid.copy())


def _vector(mesh, V, pr, ctx, valid=None):
    """the vector field of a case: labels / mapping given or left to the library (None in the parameters).
    Returns (field, labels, mapping) with labels and mapping as the PROPERTY defines them: documented default labels,
    default pairing by position."""
    dims = list(pr["dims"])
    nd = len(dims)
    vd_p, map_p = pr.get("vdims"), pr.get("mapping")
    kw = {}
    if vd_p is not None:
        kw["vdims"] = list(vd_p)
    if map_p is not None:
        kw["vdim_mapping"] = dict(map_p)
    if valid is not None:
        kw["valid"] = valid.copy()
    v = df.Field(mesh, nvdim=nd, value=V.copy(), **kw)
    vd = list(vd_p) if vd_p is not None else _default_labels(nd)
    mapping = dict(map_p) if map_p is not None else {vd[m]: dims[m] for m in range(nd)}
    if vd_p is None or map_p is None:
        ctx.require(v.vdims == vd and v.vdim_mapping == mapping, "C05.default_pairing",
                    "default labels / default (positional) pairing of a freshly built vector field",
                    dims=dims, given_vdims=vd_p, given_mapping=map_p, got_vdims=v.vdims, got_mapping=v.vdim_mapping, want_mapping=mapping)
    return v, vd, mapping


def _positional(res, dims):
    """result with one component per mesh axis, component j paired with axis j"""
    nd = len(dims)
    if res.nvdim != nd:
        return False
    if nd == 1:
        return True
    vd = res.vdims
    return vd is not None and len(vd) == nd and len(set(vd)) == nd and res.vdim_mapping == {vd[j]: dims[j] for j in range(nd)}


# ------------------------------------------------------------------ checks
def check(kind, pr, ctx):
    return {"poly": check_poly, "combo": check_combo, "identity": check_identity, "rot": check_rot, "refuse": check_refuse,
            "stack": check_stack}[kind](pr, ctx)


def check_poly(pr, ctx):
    mesh, n, ndim, dxs, X = _mesh(pr)
    rng = np.random.default_rng(pr["seed"])
    exact = pr["exact"]
    dims = pr["dims"]

    def newpoly():
        p = Poly(rng, ndim, exact)
        return p if exact else p.scaled(dxs)

    # ---- scalar: grad, laplace
    p = newpoly()
    fv = p.val(X)
    f = _scalar(mesh, fv)
    Fm = p.mag(X)
    r, g = raises(Exception, lambda: f.grad)
    if r:
        ctx.require(False, "C05.grad_exact", "grad raised", sig="raises-" + type(g).__name__, error=repr(g))
    else:
        ok = g.nvdim == ndim and g.array.shape == (*n, ndim) and g.mesh == mesh
        seen = set()
        for c in range(g.nvdim if ok else 0):
            a = _axis_of_component(g, c, dims)
            if a is None:
                ok = False
                break
            seen.add(a)
            ok &= _close(g.array[..., c], p.d1(a, X) + 0 * X[0], exact, Fm / dxs[a])
        ctx.require(ok and len(seen) == ndim, "C05.grad_exact", "gradient of a quadratic is not the analytic gradient",
                    vdims=g.vdims, mapping=g.vdim_mapping, dims=dims)
        ctx.require(_positional(g, dims), "C05.result_pairing", "component j of grad is not paired with mesh axis j", op="grad",
                    dims=dims, vdims=g.vdims, mapping=g.vdim_mapping)
        # chains on the gradient: what the NEXT operator makes of the result's labels / mapping
        r2, dg = raises(Exception, lambda: g.div) if ndim > 1 else (False, None)
        if dg is not None or r2:
            want = sum(p.d2(k, X) for k in range(ndim))
            ctx.require(not r2 and dg.nvdim == 1 and _close(dg.array[..., 0], want, exact, Fm * np.sum(1 / dxs ** 2)), "C05.chain_exact",
                        "div(grad f) of a quadratic is not 2 tr S", op="div(grad)", dims=dims, grad_mapping=g.vdim_mapping,
                        error=repr(dg) if r2 else None)
        if ndim == 3:
            r2, cg = raises(Exception, lambda: g.curl)
            ok = not r2 and cg.nvdim == 3
            for c in range(3 if ok else 0):
                k = _axis_of_component(cg, c, dims)
                if k is None:
                    ok = False
                    break
                ok &= _close(cg.array[..., c], 0 * X[0], exact, 2 * Fm / (dxs[(k + 1) % 3] * dxs[(k + 2) % 3]))
            ctx.require(ok, "C05.chain_exact", "curl(grad f) of a quadratic is not 0", op="curl(grad)", dims=dims,
                        grad_mapping=g.vdim_mapping, error=repr(cg) if r2 else None)
    r, l = raises(Exception, lambda: f.laplace)
    if r:
        ctx.require(False, "C05.laplace_exact", "laplace raised", sig="raises-" + type(l).__name__, error=repr(l))
    else:
        want = sum(p.d2(k, X) for k in range(ndim))
        ctx.require(l.nvdim == 1 and _close(l.array[..., 0], want, exact, Fm * np.sum(1 / dxs ** 2)), "C05.laplace_exact",
                    "laplacian of a scalar quadratic is not 2 tr S")

    # ---- vector with nvdim == ndim and a permuted mapping: div, curl, laplace
    polys = [newpoly() for _ in range(ndim)]
    V = np.stack([q.val(X) for q in polys], axis=-1)
    v, vd, mapping = _vector(mesh, V, pr, ctx)
    if pr["relabel"]:
        rr, er = raises(Exception, setattr, v, "vdims", list(pr["relabel"]))
        want_map = {new: mapping[old] for new, old in zip(pr["relabel"], vd)}
        ctx.require(not rr and v.vdims == list(pr["relabel"]) and v.vdim_mapping == want_map, "C05.relabel_keeps_pairing",
                    "relabelling lost/changed the pairing", got=v.vdim_mapping, want=want_map)
    ax = [dims.index(mapping[vd[m]]) for m in range(ndim)]          # component m -> axis, from the case parameters
    rinv = {a: m for m, a in enumerate(ax)}                             # axis -> component
    Vm = [polys[m].mag(X) for m in range(ndim)]
    rel = "C05.relabel_keeps_pairing" if pr["relabel"] else None

    r, d = raises(Exception, lambda: v.div)
    if r:
        ctx.require(False, "C05.div_exact", "div raised", sig="raises-" + type(d).__name__, error=repr(d), mapping=mapping)
    else:
        want = sum(polys[m].d1(ax[m], X) for m in range(ndim)) + 0 * X[0]
        okd = d.nvdim == 1 and d.mesh == mesh and _close(d.array[..., 0], want, exact, sum(Vm[m] / dxs[ax[m]] for m in range(ndim)))
        ctx.require(okd, "C05.div_exact", "divergence does not pair components with the mapped axes", mapping=mapping, dims=dims)
        if rel:
            ctx.require(okd, rel, "after relabelling the divergence no longer pairs by the mapping")
        r2, gd = raises(Exception, lambda: d.grad)
        ok = not r2 and gd.nvdim == ndim
        for c in range(ndim if ok else 0):
            a = _axis_of_component(gd, c, dims)
            if a is None:
                ok = False
                break
            want = sum(2 * polys[m].S[ax[m], a] for m in range(ndim)) + 0 * X[0]
            ok &= _close(gd.array[..., c], want, exact, sum(Vm[m] / dxs[ax[m]] for m in range(ndim)) / dxs[a])
        ctx.require(ok, "C05.chain_exact", "grad(div v) of quadratics is not the analytic constant", op="grad(div)", mapping=mapping,
                    dims=dims, error=repr(gd) if r2 else None)
    if ndim == 3:
        r, cu = raises(Exception, lambda: v.curl)
        if r:
            ctx.require(False, "C05.curl_exact", "curl raised", sig="raises-" + type(cu).__name__, error=repr(cu), mapping=mapping)
        else:
            ok = cu.nvdim == 3 and cu.mesh == mesh
            seen = set()
            for c in range(3 if ok else 0):
                k = _axis_of_component(cu, c, dims)
                if k is None:
                    ok = False
                    break
                seen.add(k)
                k1, k2 = (k + 1) % 3, (k + 2) % 3
                want = polys[rinv[k2]].d1(k1, X) - polys[rinv[k1]].d1(k2, X) + 0 * X[0]
                ok &= _close(cu.array[..., c], want, exact, Vm[rinv[k2]] / dxs[k1] + Vm[rinv[k1]] / dxs[k2])
            ok = ok and len(seen) == 3
            ctx.require(ok, "C05.curl_exact", "curl does not pair components with the mapped axes", mapping=mapping, dims=dims,
                        res_mapping=cu.vdim_mapping)
            if rel:
                ctx.require(ok, rel, "after relabelling the curl no longer pairs by the mapping")
            ctx.require(_positional(cu, dims), "C05.result_pairing", "component j of curl is not paired with mesh axis j", op="curl",
                        dims=dims, vdims=cu.vdims, mapping=cu.vdim_mapping)
            r2, dc = raises(Exception, lambda: cu.div)
            sc = sum((Vm[rinv[(k + 2) % 3]] / dxs[(k + 1) % 3] + Vm[rinv[(k + 1) % 3]] / dxs[(k + 2) % 3]) / dxs[k] for k in range(3))
            ctx.require(not r2 and dc.nvdim == 1 and _close(dc.array[..., 0], 0 * X[0], exact, sc), "C05.chain_exact",
                        "div(curl v) of quadratics is not 0", op="div(curl)", mapping=mapping, dims=dims, curl_mapping=cu.vdim_mapping,
                        error=repr(dc) if r2 else None)
    r, l = raises(Exception, lambda: v.laplace)
    if r:
        ctx.require(False, "C05.laplace_exact", "laplace raised", sig="raises-" + type(l).__name__, error=repr(l))
    else:
        ok = l.nvdim == ndim
        for m in range(ndim if ok else 0):
            want = sum(polys[m].d2(k, X) for k in range(ndim))
            ok &= _close(l.array[..., m], want, exact, Vm[m] * np.sum(1 / dxs ** 2))
        ctx.require(ok, "C05.laplace_exact", "laplacian of a vector field is not 2 tr S per component")
        if ndim > 1:
            lab = list(pr["relabel"]) if pr["relabel"] else vd
            want_map = {lab[m]: dims[ax[m]] for m in range(ndim)}
            okm = l.vdims == lab and l.vdim_mapping == want_map
            ctx.require(okm, "C05.result_pairing", "the Laplacian of a mapped vector field lost the labels / pairing of its input",
                        sig=SIG_LAPMAP if (l.vdims == lab and l.vdim_mapping != want_map) else None,
                        op="laplace-vector", got_vdims=l.vdims, got=l.vdim_mapping, want=want_map)
    # ---- laplace for a component count unrelated to ndim (no mapping)
    ne = pr["nextra"]
    if ne != ndim and ne > 1:
        pe = [newpoly() for _ in range(ne)]
        W = np.stack([q.val(X) for q in pe], axis=-1)
        w = df.Field(mesh, nvdim=ne, value=W.copy(), vdims=[f"c{i}" for i in range(ne)])
        r, l = raises(Exception, lambda: w.laplace)
        ok = not r and l.nvdim == ne
        for m in range(ne if ok else 0):
            want = sum(pe[m].d2(k, X) for k in range(ndim))
            ok &= _close(l.array[..., m], want, exact, pe[m].mag(X) * np.sum(1 / dxs ** 2))
        ctx.require(ok, "C05.laplace_exact", "laplacian of an unmapped multi-component field", nvdim=ne, error=repr(l) if r else None)


def _diff_arr(mesh, arr, valid, dname, order=1):
    return _scalar(mesh, arr, valid).diff(dname, order=order).array[..., 0]


def _sum_close(got, terms, ulps=8):
    want = sum(terms)
    scale = sum(np.abs(t) for t in terms)
    return got.shape == want.shape and bool(np.all(np.abs(got - want) <= ulps * np.finfo(float).eps * np.maximum(scale, np.abs(want))))


def check_combo(pr, ctx):
    mesh, n, ndim, dxs, X = _mesh(pr)
    if int(np.prod(n)) == 1:
        ctx.trivial()
    rng = np.random.default_rng(pr["seed"])
    dims = pr["dims"]
    valid = rng.random(tuple(n)) < pr["density"]
    amp = 10.0 ** rng.uniform(-6, 6)
    fv = rng.uniform(-1, 1, size=tuple(n)) * amp
    f = _scalar(mesh, fv, valid)
    r, g = raises(Exception, lambda: f.grad)
    ok = not r and g.nvdim == ndim
    for c in range(ndim if ok else 0):
        a = _axis_of_component(g, c, dims)
        ok &= a is not None and np.array_equal(g.array[..., c], _diff_arr(mesh, fv, valid, dims[a]))
    ctx.require(ok, "C05.combination", "grad is not the stack of the directional derivatives", op="grad", error=repr(g) if r else None)
    if not r:
        ctx.require(_positional(g, dims), "C05.result_pairing", "component j of grad is not paired with mesh axis j", op="grad",
                    dims=dims, vdims=g.vdims, mapping=g.vdim_mapping)
    r, l = raises(Exception, lambda: f.laplace)
    ctx.require(not r and _sum_close(l.array[..., 0], [_diff_arr(mesh, fv, valid, d, 2) for d in dims]), "C05.combination",
                "laplace is not the sum of the second derivatives", op="laplace", error=repr(l) if r else None)

    V = rng.uniform(-1, 1, size=(*n, ndim)) * amp
    v, vd, mapping = _vector(mesh, V, pr, ctx, valid=valid)
    ax = [dims.index(mapping[vd[m]]) for m in range(ndim)]
    rinv = {a: m for m, a in enumerate(ax)}
    r, d = raises(Exception, lambda: v.div)
    ctx.require(not r and d.nvdim == 1 and _sum_close(d.array[..., 0], [_diff_arr(mesh, V[..., m], valid, dims[ax[m]]) for m in range(ndim)]),
                "C05.combination", "div is not the sum of d(component)/d(mapped axis)", op="div", mapping=mapping, dims=dims,
                error=repr(d) if r else None)
    if ndim == 3:
        r, cu = raises(Exception, lambda: v.curl)
        ok = not r and cu.nvdim == 3
        for c in range(3 if ok else 0):
            k = _axis_of_component(cu, c, dims)
            if k is None:
                ok = False
                break
            k1, k2 = (k + 1) % 3, (k + 2) % 3
            ok &= _sum_close(cu.array[..., c], [_diff_arr(mesh, V[..., rinv[k2]], valid, dims[k1]),
                                                -_diff_arr(mesh, V[..., rinv[k1]], valid, dims[k2])])
        ctx.require(ok, "C05.combination", "curl is not the textbook combination through the mapping", op="curl", mapping=mapping,
                    dims=dims, error=repr(cu) if r else None)
        if not r:
            ctx.require(_positional(cu, dims), "C05.result_pairing", "component j of curl is not paired with mesh axis j", op="curl",
                        dims=dims, vdims=cu.vdims, mapping=cu.vdim_mapping)
    ne = pr["nextra"]
    W = rng.uniform(-1, 1, size=(*n, ne)) * amp
    w = df.Field(mesh, nvdim=ne, value=W.copy(), valid=valid.copy(), vdims=[f"c{i}" for i in range(ne)] if ne > 1 else None)
    r, l = raises(Exception, lambda: w.laplace)
    ok = not r and l.nvdim == ne
    for m in range(ne if ok else 0):
        ok &= _sum_close(l.array[..., m], [_diff_arr(mesh, W[..., m], valid, d, 2) for d in dims])
    ctx.require(ok, "C05.combination", "vector laplace is not the per-component sum of second derivatives", op="laplace-vector", nvdim=ne,
                error=repr(l) if r else None)


def check_identity(pr, ctx):
    mesh, n, ndim, dxs, X = _mesh(pr)
    if int(np.prod(n)) == 1:
        ctx.trivial()
    rng = np.random.default_rng(pr["seed"])
    dims = pr["dims"]
    amp = 10.0 ** rng.uniform(-6, 6)
    fv = rng.uniform(-1, 1, size=tuple(n)) * amp
    f = _scalar(mesh, fv)
    Fm = float(np.max(np.abs(fv)))
    r, cg = raises(Exception, lambda: f.grad.curl)
    if r:
        ctx.require(False, "C05.curl_grad_zero", "curl(grad f) raised", sig="raises-" + type(cg).__name__, error=repr(cg))
    else:
        ok = True
        worst = 0.0
        for c in range(3):
            k = _axis_of_component(cg, c, dims)
            if k is None:
                ok = False
                break
            k1, k2 = (k + 1) % 3, (k + 2) % 3
            sc = Fm / (dxs[k1] * dxs[k2])
            worst = max(worst, float(np.max(np.abs(cg.array[..., c])) / (np.finfo(float).eps * sc)) if sc > 0 else 0.0)
            ok &= ulp_close(cg.array[..., c], 0.0, 64, sc)
        ctx.require(ok, "C05.curl_grad_zero", "curl(grad f) is not zero to rounding", worst_ulp=worst, n=n)
    V = rng.uniform(-1, 1, size=(*n, 3)) * amp
    v, vd, mapping = _vector(mesh, V, pr, ctx)
    Vm = float(np.max(np.abs(V)))
    r, dc = raises(Exception, lambda: v.curl.div)
    if r:
        ctx.require(False, "C05.div_curl_zero", "div(curl v) raised", sig="raises-" + type(dc).__name__, error=repr(dc))
    else:
        sc = Vm * (1 / (dxs[0] * dxs[1]) + 1 / (dxs[1] * dxs[2]) + 1 / (dxs[0] * dxs[2]))
        worst = float(np.max(np.abs(dc.array)) / (np.finfo(float).eps * sc))
        ctx.require(dc.nvdim == 1 and ulp_close(dc.array, 0.0, 64, sc), "C05.div_curl_zero", "div(curl v) is not zero to rounding",
                    worst_ulp=worst, n=n, mapping=mapping)


def _same_field(a, b, scale, coord_scale):
    if not (np.array_equal(a.mesh.n, b.mesh.n) and a.array.shape == b.array.shape):
        return False, "shape"
    if not (ulp_close(a.mesh.region.pmin, b.mesh.region.pmin, 64, coord_scale) and ulp_close(a.mesh.region.pmax, b.mesh.region.pmax, 64, coord_scale)):
        return False, "region"
    if not np.array_equal(a.valid, b.valid):
        return False, "valid"
    if not ulp_close(a.array, b.array, 64, scale):
        return False, "values"
    return True, ""


def check_rot(pr, ctx):
    mesh, n, ndim, dxs, X = _mesh(pr)
    if int(np.prod(n)) == 1:
        ctx.trivial()
    rng = np.random.default_rng(pr["seed"])
    dims = pr["dims"]
    ax1, ax2, k = pr["ax1"], pr["ax2"], pr["k"]
    valid = rng.random(tuple(n)) < pr["density"]
    amp = 10.0 ** rng.uniform(-6, 6)
    fv = rng.uniform(-1, 1, size=tuple(n)) * amp
    f = _scalar(mesh, fv, valid)
    V = rng.uniform(-1, 1, size=(*n, ndim)) * amp
    v, vd, mapping = _vector(mesh, V, pr, ctx, valid=valid)
    coord = np.maximum(np.abs(mesh.region.pmin), np.abs(mesh.region.pmax))
    i1, i2 = dims.index(ax1), dims.index(ax2)
    coord_scale = coord.copy()
    coord_scale[i1] = coord_scale[i2] = max(coord[i1], coord[i2])
    # the corners of the rotated region mix the two in-plane coordinates, so the rotated cell sizes carry a relative
    # rounding error of eps * (in-plane coordinate scale R) / edge; the value budget is scaled by g = 1 + R / min in-plane edge
    edges = mesh.region.pmax - mesh.region.pmin
    g = 1.0 + max(coord[i1], coord[i2]) / min(edges[i1], edges[i2])
    s1 = g * amp * float(np.sum(1 / dxs))
    s2 = g * amp * float(np.sum(1 / dxs ** 2))
    bc_mismatch = k % 2 == 1 and ((ax1 in pr["bc"]) != (ax2 in pr["bc"]))
    ops = [("grad", f, lambda q: q.grad, s1), ("laplace", f, lambda q: q.laplace, s2),
           ("div", v, lambda q: q.div, s1), ("laplace-vector", v, lambda q: q.laplace, s2)]
    if ndim == 3:
        ops.append(("curl", v, lambda q: q.curl, s1))
    for name, fld, op, sc in ops:
        r, res = raises(Exception, lambda: (op(fld.rotate90(ax1, ax2, k=k)), op(fld).rotate90(ax1, ax2, k=k)))
        if r:
            ctx.require(False, "C05.rot90_commute", "raised", sig="raises-%s-%s" % (name, type(res).__name__), error=repr(res), op=name)
            continue
        ok, why = _same_field(res[0], res[1], sc, coord_scale)
        sig = None
        if not ok and why == "values":
            if bc_mismatch:
                sig = SIG_BC
            elif name == "laplace-vector":
                # does the un-rotated result still pair component m with the axis the input paired it with?
                res0 = op(fld)
                pairing = [(res0.vdim_mapping or {}).get(res0.vdims[m]) if res0.vdims else None for m in range(ndim)]
                if pairing != [mapping[vd[m]] for m in range(ndim)]:
                    sig = SIG_LAPMAP
        err = float(np.max(np.abs(res[0].array - res[1].array))) if res[0].array.shape == res[1].array.shape else None
        ctx.require(ok, "C05.rot90_commute", "operator does not commute with the quarter turn",
                    sig=sig,
                    op=name, why=why, ax=[ax1, ax2], k=k, bc=pr["bc"], n=n, err=err, scale=sc)


def check_stack(pr, ctx):
    mesh, n, ndim, dxs, X = _mesh(pr)
    if int(np.prod(n)) == 1:
        ctx.trivial()
    rng = np.random.default_rng(pr["seed"])
    dims = pr["dims"]
    amp = 10.0 ** rng.uniform(-6, 6)
    A = rng.uniform(-1, 1, size=(*n, ndim)) * amp
    valids = [rng.random(tuple(n)) < pr["density"] for _ in range(ndim)]
    labels, smap = pr["labels"], pr["smap"]
    scal = []
    for j in range(ndim):
        kw = {} if labels is None else {"vdims": [labels[j]], "vdim_mapping": {labels[j]: smap[j]}}
        scal.append(df.Field(mesh, nvdim=1, value=A[..., j, np.newaxis].copy(), valid=valids[j].copy(), **kw))
    if pr["assoc"] == "left":
        r, st = raises(Exception, lambda: functools.reduce(operator.lshift, scal))
    else:
        r, st = raises(Exception, lambda: functools.reduce(lambda acc, sfield: sfield << acc, reversed(scal)))
    if r:
        ctx.require(False, "C05.stacked_pairing", "stacking raised", sig="raises-" + type(st).__name__, error=repr(st))
        return
    Vd = np.logical_and.reduce(valids)
    axes = list(range(ndim)) if labels is None else [dims.index(a) for a in smap]      # component j -> axis, from the parameters
    vd = st.vdims
    ok = st.nvdim == ndim and st.mesh == mesh and st.array.shape == A.shape and np.array_equal(st.array[Vd], A[Vd])
    ok = ok and np.array_equal(st.valid, Vd) and vd is not None and len(vd) == ndim and len(set(vd)) == ndim
    ok = ok and (labels is None or list(vd) == list(labels))
    ok = ok and st.vdim_mapping == {vd[j]: dims[axes[j]] for j in range(ndim)}
    ctx.require(ok, "C05.stacked_pairing", "stacked field: components, labels or component-to-axis pairing", dims=dims, labels=labels,
                smap=smap, got_vdims=vd, got_mapping=st.vdim_mapping, assoc=pr["assoc"])
    rinv = {a: m for m, a in enumerate(axes)}
    r, d = raises(Exception, lambda: st.div)
    ctx.require(not r and d.nvdim == 1 and _sum_close(d.array[..., 0], [_diff_arr(mesh, A[..., m], Vd, dims[axes[m]]) for m in range(ndim)]),
                "C05.combination", "div of a stacked field is not the sum of d(component)/d(paired axis)", op="div-stacked", dims=dims,
                labels=labels, smap=smap, error=repr(d) if r else None)
    if ndim == 3:
        r, cu = raises(Exception, lambda: st.curl)
        ok = not r and cu.nvdim == 3
        for c in range(3 if ok else 0):
            k = _axis_of_component(cu, c, dims)
            if k is None:
                ok = False
                break
            k1, k2 = (k + 1) % 3, (k + 2) % 3
            ok &= _sum_close(cu.array[..., c], [_diff_arr(mesh, A[..., rinv[k2]], Vd, dims[k1]),
                                                -_diff_arr(mesh, A[..., rinv[k1]], Vd, dims[k2])])
        ctx.require(ok, "C05.combination", "curl of a stacked field is not the textbook combination through its pairing", op="curl-stacked",
                    dims=dims, labels=labels, smap=smap, error=repr(cu) if r else None)
        if not r:
            ctx.require(_positional(cu, dims), "C05.result_pairing", "component j of curl is not paired with mesh axis j", op="curl-stacked",
                        dims=dims, vdims=cu.vdims, mapping=cu.vdim_mapping)


def check_refuse(pr, ctx):
    mesh, n, ndim, dxs, X = _mesh(pr)
    rng = np.random.default_rng(pr["seed"])
    dims = pr["dims"]
    REF = (ValueError, TypeError)

    def refused(fn, what, **kw):
        try:
            fn()
        except REF:
            ctx.require(True, "C05.refusals", what)
            return
        except Exception as e:
            ctx.require(False, "C05.refusals", what + " - unexpected exception type", sig="raises-" + type(e).__name__, error=repr(e), **kw)
            return
        ctx.require(False, "C05.refusals", what + " - accepted", sig="accepted-" + what.split(":")[0], **kw)

    def vec(nv, **kw):
        return df.Field(mesh, nvdim=nv, value=rng.uniform(-1, 1, size=(*n, nv)), **kw)

    for nv in (2, 3, 4):
        refused(lambda: vec(nv).grad, "grad-nonscalar: grad of a field with %d components" % nv, ndim=ndim)
    for nv in (1, 2, 3, 4):
        if nv != ndim:
            refused(lambda: vec(nv).div, "div-nvdim: div with nvdim %d on a %d-d mesh" % (nv, ndim))
        if not (nv == 3 and ndim == 3):
            refused(lambda: vec(nv).curl, "curl-shape: curl with nvdim %d on a %d-d mesh" % (nv, ndim))
    labels = ["p", "q", "r", "s"][:ndim]
    # nvdim == ndim but no pairing at all
    refused(lambda: vec(ndim, vdims=labels, vdim_mapping={}).div if ndim > 1 else vec(1).div,
            "div-unmapped: div of a field without component-to-axis mapping", ndim=ndim)
    # one component mapped to a name that is no mesh axis
    bad = {labels[m]: dims[m] for m in range(ndim)}
    bad[labels[int(rng.integers(ndim))]] = "nodim"
    refused(lambda: vec(ndim, vdims=labels, vdim_mapping=bad).div, "div-foreign-axis: div with a component mapped to a non-axis", mapping=bad)
    if ndim == 3:
        refused(lambda: vec(3, vdims=labels, vdim_mapping={}).curl, "curl-unmapped: curl of a field without mapping")
        refused(lambda: vec(3, vdims=labels, vdim_mapping=bad).curl, "curl-foreign-axis: curl with a component mapped to a non-axis", mapping=bad)
        dup = {labels[0]: dims[0], labels[1]: dims[0], labels[2]: dims[1]}
        refused(lambda: vec(3, vdims=labels, vdim_mapping=dup).curl, "curl-axis-without-component: curl when an axis has no component", mapping=dup)
