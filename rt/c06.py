"""C06 bounded run-time tier: Field.integrate / Field.mean / discretisedfield.integrate on the real code.

Oracle: plain numpy sums of the value array times cell lengths computed here from the corners
(cell_d = (pmax_d - pmin_d) / n_d).  Exact variant: integer values, power-of-two cells, corners on
integer multiples of the cell -> every number is exactly representable and the comparison is `==`.
General variant: 64 ulp of (sum of |values| entering the sum) x (measure).

Two kinds of cases:
* "integ":   one fresh mesh, every quantity observed once (plus linearity / per component / translation);
* "history": observe -> mutate -> observe sequences on ONE mesh object.  Between observations the mesh is transformed in
  place (scale / translate / rotate90 through the mesh, through a field's `.mesh`, through the Region object the mesh was
  built from, or by Field.rotate90), its dims/units are renamed, the values are overwritten in place, or a new mesh is
  derived (copy form / deepcopy) from the already observed one.  After every step the oracle is re-evaluated for the CURRENT
  geometry, which is taken from the primitive stored state only (region.pmin / pmax / dims / units read back, n = shape of the
  value array); cell, dV, edges, sums are recomputed here.  Anything the library derived and kept (cell volume, cell, edges,
  index maps, integrals, means) would be stale against it.

Field dtype ("dtype" / "dtype-history" cases): the same clauses for fields created with the documented `dtype=` keyword (signed /
unsigned integers of every width, bool, single / double / extended floats, single / double complex; handed over as numpy type,
string, np.dtype or python type), for integer / Boolean / single-precision / complex data handed over WITHOUT the keyword (typed
arrays, nested python lists, a constant, a callable), optionally with the `valid=` and `unit=` keywords.  The oracle is computed
here in float64 (complex128) from a copy of the values the field actually stores, with the property's formulas: an integral, a
cumulative integral (half-cell term) or a mean of an integer field is a real number - nothing may be truncated, wrapped or cast to
the field's dtype.  Tolerance: `==` in the exact variant for integer / bool / float64 storage, else 64 ulp of double; 64 ulp of
SINGLE precision only when the field itself stores single-precision (float32 / complex64) numbers, 64 ulp of half for float16.

Scale of the values and of the geometry ("scale" / "scale-history" cases): the property has no length or value scale in it, so
every clause is stated again for fields whose values are of the order 1e-12 ... 1e12 (SI quantities such as 1.3e-11 or 8e5; tiny
everywhere, tiny and of one sign, one tiny constant, tiny except one cell, zero except a few tiny cells, a huge offset plus a tiny
variation, huge everywhere, components of very different magnitude, every cell its own decade) on meshes whose cells are 1e-9 ...
1e6 long (mixed per axis, all nanometres, all huge), and for the scaled fields s*f, s = +-1e-10 ... 1e10.  Every budget there is
RELATIVE and elementwise: 64 ulp of (the same sum taken over |values|) x measure, i.e. of the largest partial sum that enters the
entry concerned; nothing is ever compared with an absolute tolerance, so a result that is wrong by its own order of magnitude is
seen however small that magnitude is."""
import copy
import itertools
import numpy as np
import discretisedfield as df
from .common import raises, ulp_close

PROPERTY = "C06"
CLAUSES = {
    "C06.volume": "integrate() == (sum of the cell values over all cell axes, per component) * prod(cell); a numpy array of shape (nvdim,); discretisedfield.integrate(f) is the same; for every field dtype (int / uint / bool / float32 / complex ... requested with dtype= or implied by the data) the number is the float64 / complex128 value of that formula for the stored values: not truncated, wrapped or cast to the field's dtype (64 ulp of double; of single only for fields storing single precision)",
    "C06.fubini": "integrating direction by direction, in every order of the directions, ends in the same numbers as integrate() (64 ulp of sum|v|*dV, == in the exact variant)",
    "C06.directional": "integrate(d).array == sum along axis d * cell_d (plain array of shape (nvdim,) on a 1-d mesh); a real (complex) number for every field dtype, non-integer for an integer field on non-integer cells",
    "C06.axis_removed": "the result of integrate(d) / mean(d) / mean([..]) lives on the mesh with exactly those axes removed: remaining dims, units, n, pmin, pmax, cell in the original order; cumulative integrals keep the full mesh",
    "C06.cumulative": "integrate(d, cumulative=True)[i] == cell_d * (sum_{k<i} v_k + v_i / 2) for every cell, on the unchanged mesh; cumulative without a direction is refused (ValueError); the half-cell term makes it non-integer for integer fields: same oracle in float64 / complex128 for every field dtype",
    "C06.cumulative_last": "last cumulative entry + cell_d * (last cell value) / 2 == integrate(d)",
    "C06.mean": "mean() == integrate()/prod(edges); mean(d) == integrate(d)/edge_d; mean([d1..dk]) (list or tuple, any order, any non-empty subset) == iterated integral / prod of the integrated edges; all directions -> plain array",
    "C06.mean_duplicates": "a direction list with a repeated direction is rejected (ValueError)",
    "C06.linearity": "integrate / cumulative / mean of a*f+b*g == a*(..f) + b*(..g) within 64 ulp of the operand scale (scale cases: elementwise, 64 ulp of |a| x sum|f| + |b| x sum|g| over the cells entering the entry, f and g of different magnitude profiles; integer coefficients and a representable combination for integer / bool fields, complex coefficients for complex fields)",
    "C06.per_component": "every component of the result equals the result for the scalar field holding that component alone (scale cases: budget relative to that component's own sums, components of very different magnitude)",
    "C06.cell_volume": "read directly at every observation point: mesh.cell == (pmax - pmin)/n, mesh.dV == prod(cell), region.edges == pmax - pmin (4 ulp), mesh.n == shape of the value array",
    "C06.history": "observe/mutate/observe histories: after every in-place step (mesh/region scale, translate, rotate90 through any handle, Field.rotate90, renaming dims/units, overwriting the values) and every derivation of a new mesh from an observed one, all clauses above are stated again for the CURRENT geometry and values (reported under the clause concerned, sig history-after-<op>); this clause itself: the step did not raise and took effect (edges x |factor|, corners + vector, edges of the rotated pair swapped for odd k, new names / values read back; rtol 1e-9 of the coordinate scale) and left the mesh it was derived from untouched",
    "C06.scaling": "integrate() / integrate(d) / integrate(d, cumulative=True) / mean() / mean(d) / mean([..]) of s*f == s * (the same of f) for s = +-1e-10 ... 1e10 and values of the order 1e-12 ... 1e12 on cells 1e-9 ... 1e6 long, every direction; each entry within 64 ulp of |s| x (the same sum over |values|) x measure - a relative budget, never an absolute one; the scaled field itself satisfies every clause above against the direct oracle with the same relative budget",
    "C06.translation": "the same values on a translated mesh give the same numbers (== when the shift is a whole number of power-of-two cells; else within 64 ulp x (1 + |coordinate|/edge), the cell of the shifted mesh being edges/n of rounded corners) on the accordingly shifted result mesh",
}
RULE = ("seeded meshes with 1-4 dims (n <= 6 per axis, anisotropic cells, renamed dims, distinct units), 1-4 components, exact and "
        "general variant; per case: every direction, every order of directions (<= 24), every non-empty subset of directions for the "
        "mean in a seeded order; histories: the same meshes (cells within 3 decades), 2-4 seeded steps out of {scale (scalar / per-axis "
        "factor, either sign, centre or explicit reference point), translate, rotate90 (k in 1,2,3,-1; pairs of axes with equal n, or "
        "Field.rotate90 of scalar fields on any pair), rename dims / units, overwrite values (view write, array setter, "
        "update_field_values), derive (copy-form scale / translate / rotate90, deepcopy + in-place scale)} through every handle (mesh, "
        "field.mesh, another field's mesh, the Region object, field.mesh.region), with a seeded ordered subset of the quantity groups "
        "(cell/dV attributes, volume, iterated, directional, cumulative, single-direction mean, other means) observed before the first "
        "step and all groups in a seeded order after each step; plus fixed histories; "
        "field dtype: every dtype name of DTYPES (handed over as type / string / np.dtype / python type) x 1-4 dims x exact / general "
        "geometry, values drawn representable in the dtype (small |v| <= 50 or half the integer range, so that narrow accumulation "
        "would wrap), fractional power-of-two cells favoured in the exact variant; data classes of NODTYPE handed over without the "
        "keyword; value forms array of the dtype / float64 array / typed array / nested lists / constant / callable; valid= and unit= "
        "keywords of the field, bc= (periodic axes / neumann / dirichlet) and subregions= keywords of the mesh on a seeded third each; every dtype also through a history; fixed dtype cases in every run; "
        "scale: every magnitude profile of PROFILES x 1-4 dims (1-4 components, a fifth complex) x geometry classes of GEOMS (cells "
        "1e-9..1e6 mixed per axis / nanometres / huge / unit), a second field of another profile for linearity (coefficients up to "
        "1e+-6), three scaling factors per case (one in 1e-10..1e-6, one in 1e6..1e10, one in 1e-3..1e3, either sign), every direction "
        "for directional / cumulative / one-direction mean, a seeded subset for the mean over several; fixed scale cases in every run; "
        "scale-history: histories whose initial values and value steps follow magnitude profiles (ordinary -> tiny -> ordinary ...); "
        "non-trivial = more than one cell; distinct by (kind, params)")
ASSUMPTIONS = ["bounded: <= 6 cells per axis, <= 4 dims, <= 4 components, seeded values and geometry",
               "trusted: numpy.sum on the value array, Field construction from arrays",
               "histories: region.pmin / pmax / dims / units as read back after a step are the primitive state the oracle starts from "
               "(what the transformations do to them is C12/C13's business; here only a loose took-effect check); exact comparison is "
               "kept until the first rotate90 (cos(k pi/2) is not exactly 0), 64 ulp afterwards",
               "histories: <= 4 steps, factors 2^-2..2^3 / 3 / 1.5 (exact) or 10^-2..10^2 (general), either sign",
               "scale: |values| within 1e-24 .. 1e13, cells 1e-9 .. 1e6, |s| within 1e-10 .. 1e10: every product stays far inside the "
               "normal range of double, so the 64 ulp relative budget is meaningful for every entry (no underflow / overflow)",
               "field dtype: the values a field stores (f.array read once right after construction / after a value step, copied, "
               "converted to float64 / complex128) are the primitive state the oracle starts from - how a value specification is "
               "turned into stored values is C02's business; integers |v| <= 2^40 so that every sum is exact in double",
               "field dtype: rounding unit = double, except for fields that store single (half) precision numbers, where the "
               "library's arithmetic in the field's own precision is accepted (64 ulp of float32 / float16): a cast of a result to "
               "float32 is therefore not observable for float32 fields, it is for every integer / bool / double / complex128 field"]

NAMES = ["a", "b", "c", "e", "g", "h", "k", "p", "q", "r", "s", "u", "w", "x", "y", "z"]
UNITS = ["m", "s", "kg", "A", "K", "rad"]
VNAMES = ["p", "q", "r", "s", "u", "w", "ma", "mb", "e1", "e2"]
SIG_MEAN1D = "mean-str-direction-on-1d-mesh-raises"
SIG_SEL = "axis-removal-raises-mixed-cell-scales"


def _rc(e, clause, sig):
    """clause and sig under which a raised exception is reported.  Genuine defect of the unchanged library (Mesh.__init__, cell=
    path, reached through Mesh.sel): the divisibility test uses ONE absolute tolerance, 1e-3 * min(cell), for every axis, so a mesh
    with nanometre cells along one axis and large cells along another cannot be rebuilt from its own region and cell - integrate(d)
    / mean(d) raise 'Region cannot be divided into discretisation cells' instead of returning the field on the mesh with the axis
    removed.  Reported under C06.axis_removed with its own sig, whichever quantity was being computed."""
    if isinstance(e, ValueError) and "cannot be divided into discretisation cells" in str(e):
        return "C06.axis_removed", SIG_SEL
    return clause, sig


# dtype name -> the ways it can be handed to Field(dtype=...)   ("py": the python type of that name)
DTYPES = {"int64": ["type", "str", "dtype"], "int32": ["type", "str", "dtype"], "int16": ["type", "str", "dtype"],
          "int8": ["type", "str", "dtype"], "uint8": ["type", "str", "dtype"], "uint16": ["type", "str"], "uint32": ["type", "dtype"],
          "bool": ["type", "str", "dtype"], "float32": ["type", "str", "dtype"], "float64": ["type", "str", "dtype"],
          "longdouble": ["type", "str"],
          "complex128": ["type", "str", "dtype"], "complex64": ["type", "str", "dtype"],
          "int": ["py"], "float": ["py"], "complex": ["py"], "bool_": ["py"]}
PYTYPES = {"int": int, "float": float, "complex": complex, "bool_": bool}
CANON = {"int": "int64", "float": "float64", "complex": "complex128", "bool_": "bool"}
# data classes handed over WITHOUT the dtype keyword (integer / bool / single precision / complex data)
NODTYPE = ["int64", "int32", "int8", "uint8", "bool", "float32", "complex128", "complex64"]
FORMS = ["array", "wide", "typed", "list", "const", "callable"]


# magnitude profiles of the values / classes of geometry of the "scale" cases
PROFILES = ["ordinary", "tiny", "tiny-positive", "tiny-constant", "si", "tiny-but-one", "sparse-tiny", "offset", "huge",
            "mixed-components", "graded"]
GEOMS = ["mixed", "nano", "huge", "unit"]
SI = [1.3e-11, 8e5, 1.2566370614359173e-06, 3e-3, 5e-10, 9.274e-24, 1.76e11, 2.1e-9, 6.4e-12, 1.1e6]


GROUPS = ["attrs", "volume", "fubini", "dir", "cum", "mean1", "means"]
VIAS = ["mesh", "field", "other-field", "region", "field-region"]
EXACT_FACTORS = [0.25, 0.5, 2.0, 4.0, 8.0, 3.0, 1.5, -2.0, -0.5]


def _base(rng, ndim, nvdim, exact, narrow=False, frac=False):
    hi = {1: 8, 2: 6, 3: 5, 4: 4}[ndim]
    n = rng.integers(1, hi + 1, size=ndim).tolist()
    if max(n) == 1:
        n[int(rng.integers(ndim))] = int(rng.integers(2, hi + 1))
    dims = [str(d) for d in rng.choice(NAMES, size=ndim, replace=False)]
    units = [str(u) for u in rng.choice(UNITS, size=ndim, replace=False)]
    if exact:
        cell = (2.0 ** (rng.integers(-5, 1, size=ndim) if frac else rng.integers(-4, 5, size=ndim))).tolist()
        p1 = (np.array(cell) * rng.integers(-6, 7, size=ndim)).tolist()
        shift = (np.array(cell) * rng.integers(-9, 10, size=ndim)).tolist()
    else:
        if narrow:      # histories rotate axes into each other: keep the cells within 3 decades
            cell = (10.0 ** (rng.uniform(-8, 1) + rng.uniform(-1.5, 1.5, size=ndim))).tolist()
        else:
            cell = (10.0 ** rng.uniform(-9, 2, size=ndim)).tolist()
        p1 = (np.array(cell) * rng.uniform(-10, 10, size=ndim)).tolist()
        shift = (np.array(cell) * rng.uniform(-10, 10, size=ndim)).tolist()
    vdims = [str(v) for v in rng.choice(VNAMES, size=nvdim, replace=False)] if rng.random() < 0.6 else None
    return {"n": n, "cell": cell, "p1": p1, "flip": rng.integers(0, 2, size=ndim).tolist(), "dims": dims,
            "units": units, "nvdim": nvdim, "vdims": vdims, "exact": exact, "shift": shift,
            "seed": int(rng.integers(1 << 30))}


def cases(ctx):
    rng = ctx.rng
    reps = 6 if ctx.tier == "quick" else 30
    for ndim in (1, 2, 3, 4):
        for nvdim in (1, 2, 3, 4):
            for exact in (True, False):
                for _ in range(reps):
                    yield "integ", _base(rng, ndim, nvdim, exact)
    yield "integ", {"n": [1], "cell": [0.5], "p1": [0.0], "flip": [0], "dims": ["x"], "units": ["m"], "nvdim": 1, "vdims": None,
                    "exact": True, "shift": [1.0], "seed": 1}
    yield "integ", {"n": [2, 1, 3], "cell": [1.0, 4.0, 0.25], "p1": [0.0, 0.0, 0.0], "flip": [0, 1, 0], "dims": ["x", "y", "z"],
                    "units": ["m", "m", "m"], "nvdim": 3, "vdims": None, "exact": True, "shift": [0.0, 8.0, -1.0], "seed": 2}
    # ---------------- observe / mutate / observe histories
    hreps = 4 if ctx.tier == "quick" else 20
    for ndim in (1, 2, 3, 4):
        for nvdim in (1, 2, 3, 4):
            for exact in (True, False):
                for _ in range(hreps):
                    yield "history", _history(rng, ndim, nvdim, exact)
    yield from _fixed_histories()
    # ---------------- field dtype (keyword or implied by the data), valid= / unit= keywords
    dreps = 2 if ctx.tier == "quick" else 8
    for name in DTYPES:
        for ndim in (1, 2, 3, 4):
            for exact in (True, False):
                for _ in range(dreps):
                    yield "dtype", _dtyped(rng, _base(rng, ndim, int(rng.integers(1, 5)), exact, frac=rng.random() < 0.7), name)
    for vals in NODTYPE:
        for ndim in (1, 2, 3, 4):
            for _ in range(dreps // 2):
                yield "dtype", _dtyped(rng, _base(rng, ndim, int(rng.integers(1, 5)), bool(rng.random() < 0.5), frac=True), None, vals)
    for name in list(DTYPES) + [None] * 4:
        for _ in range(dreps // 2):
            ndim = int(rng.integers(1, 5))
            nvdim = 1 if rng.random() < 0.5 else int(rng.integers(2, 5))
            pr = _history(rng, ndim, nvdim, bool(rng.random() < 0.5), frac=True)
            vals = None if name is not None else str(rng.choice(NODTYPE))
            yield "dtype-history", _dtyped(rng, pr, name, vals, forms=FORMS[:4])
    yield from _fixed_dtype()
    # ---------------- scale of the values and of the geometry
    sreps = 2 if ctx.tier == "quick" else 10
    for ndim in (1, 2, 3, 4):
        for profile in PROFILES:
            for _ in range(sreps):
                yield "scale", _scaled(rng, ndim, profile)
    for ndim in (1, 2, 3, 4):
        for _ in range(2 * sreps):
            yield "scale-history", _scale_history(rng, ndim)
    yield from _fixed_scale()


def _scaled(rng, ndim, profile, nvdim=None, geom=None):
    if nvdim is None:
        nvdim = int(rng.integers(2, 5)) if profile == "mixed-components" else int(rng.integers(1, 5))
    pr = _base(rng, ndim, nvdim, False)
    geom = str(rng.choice(GEOMS, p=[0.5, 0.25, 0.15, 0.1])) if geom is None else geom
    if geom == "mixed":
        cell = 10.0 ** rng.uniform(-9, 6, size=ndim)
    elif geom == "nano":
        cell = rng.uniform(1, 10, size=ndim) * 1e-9
    elif geom == "huge":
        cell = 10.0 ** rng.uniform(3, 6, size=ndim)
    else:
        cell = rng.uniform(0.5, 2, size=ndim)
    pr["cell"] = cell.tolist()
    pr["p1"] = (cell * rng.uniform(-10, 10, size=ndim)).tolist()
    pr["shift"] = (cell * rng.uniform(-10, 10, size=ndim)).tolist()
    sign = lambda: -1.0 if rng.random() < 0.3 else 1.0
    pr.update(geom=geom, profile=profile, profile2=str(rng.choice(PROFILES)),
              factors=[sign() * float(10.0 ** rng.uniform(-10, -6)), sign() * float(10.0 ** rng.uniform(6, 10)),
                       sign() * float(10.0 ** rng.uniform(-3, 3))])
    if rng.random() < 0.2:
        pr.update(vals="complex128", vform="typed")
    return pr


def _scale_history(rng, ndim):
    """a history whose values follow magnitude profiles: initial values, every value step, and at least two extra value steps"""
    pr = _history(rng, ndim, int(rng.integers(1, 5)), False)
    pr["profile"] = str(rng.choice(PROFILES))
    steps = pr["steps"]
    for _ in range(2):
        steps.insert(int(rng.integers(0, len(steps) + 1)), {"op": "values", "how": str(rng.choice(["view", "setter", "update"])),
                                                            "seed": int(rng.integers(1 << 30)), "obs": _obs(rng, full=True)})
    for st in steps:
        if st["op"] == "values":
            st["profile"] = str(rng.choice(PROFILES))
    pr["obs0"] = _obs(rng, full=True)
    return pr


def _fixed_scale():
    """the magnitudes the statement is most often used with, in every run whatever the seed: nanometre cells, SI-sized values"""
    nano3 = {"n": [6, 4, 3], "cell": [1e-9, 2e-9, 2e-9], "p1": [-3e-9, 0.0, -2e-9], "flip": [0, 0, 0], "dims": ["x", "y", "z"],
             "units": ["m", "m", "m"], "nvdim": 2, "vdims": None, "exact": False, "shift": [5e-9, -2e-9, 1e-9], "geom": "nano",
             "factors": [1e-10, -3.7e9, 0.25]}
    line = {"n": [8], "cell": [2.5e-9], "p1": [0.0], "flip": [0], "dims": ["x"], "units": ["m"], "nvdim": 1, "vdims": None,
            "exact": False, "shift": [1e-8], "geom": "nano", "factors": [-1e-10, 1e10, 3.0]}
    mixed2 = {"n": [5, 3], "cell": [4e-9, 2.5e5], "p1": [-1e-8, 1e6], "flip": [1, 0], "dims": ["a", "t"], "units": ["m", "s"],
              "nvdim": 3, "vdims": ["p", "q", "r"], "exact": False, "shift": [3e-9, -7e5], "geom": "mixed", "factors": [2e-7, 8e5, -1.0]}
    unit4 = {"n": [2, 3, 2, 2], "cell": [1.0, 0.5, 4.0, 0.25], "p1": [0.0, 1.0, -4.0, 0.5], "flip": [0, 0, 1, 1],
             "dims": ["x", "y", "z", "w"], "units": ["m", "m", "m", "s"], "nvdim": 2, "vdims": None, "exact": False,
             "shift": [1.0, -2.0, 8.0, 0.75], "geom": "unit", "factors": [1e-10, 1e10, -1e-3]}
    k = 0
    for b in (nano3, line, mixed2, unit4):
        for profile, other in (("ordinary", "tiny"), ("tiny", "huge"), ("tiny-constant", "ordinary"), ("si", "offset"),
                               ("tiny-but-one", "sparse-tiny"), ("sparse-tiny", "tiny-positive"), ("offset", "tiny"), ("huge", "si"),
                               ("tiny-positive", "graded"), ("graded", "tiny-but-one")):
            k += 1
            yield "scale", dict(b, profile=profile, profile2=other, seed=300 + k)
    yield "scale", dict(mixed2, profile="mixed-components", profile2="tiny", seed=350)
    yield "scale", dict(nano3, profile="mixed-components", profile2="huge", seed=351, vals="complex128", vform="typed")
    yield "scale", dict(nano3, profile="tiny", profile2="ordinary", seed=352, vals="complex128", vform="typed")
    # nanometre cells along one axis, 100 km cells along another, a third axis to remove (minimal reproducer of SIG_SEL, a genuine
    # defect of the unchanged library: Mesh.sel cannot rebuild the remaining mesh)
    yield "scale", {"n": [3, 4, 5], "cell": [1.0, 1.501631415614504e-09, 104862.28856403774], "p1": [0.0, 2.2080150523444495e-09, 932292.1190989116],
                    "flip": [0, 0, 0], "dims": ["x", "y", "z"], "units": ["m", "m", "m"], "nvdim": 1, "vdims": None, "exact": False,
                    "shift": [0.0, 0.0, 0.0], "geom": "mixed", "factors": [1e-10, 1e10, 1.0], "profile": "si", "profile2": "ordinary", "seed": 360}
    h2 = {"n": [3, 3], "cell": [2e-9, 5e-9], "p1": [0.0, 1e-9], "flip": [0, 1], "dims": ["x", "y"], "units": ["m", "m"], "nvdim": 1,
          "vdims": None, "exact": False, "seed": 31}
    for first, then in (("ordinary", "tiny"), ("tiny", "ordinary"), ("huge", "sparse-tiny"), ("tiny-constant", "offset")):
        yield "scale-history", dict(h2, profile=first, obs0=list(GROUPS), steps=[
            {"op": "values", "how": "view", "seed": 7, "profile": then, "obs": list(GROUPS)},
            {"op": "scale", "via": "field", "factor": [3.0, 0.5], "ref": None, "obs": list(GROUPS)},
            {"op": "values", "how": "setter", "seed": 8, "profile": first, "obs": list(GROUPS)},
            {"op": "rotate90", "via": "field-rotate", "ax": [0, 1], "k": 1, "ref": None, "obs": list(GROUPS)},
            {"op": "values", "how": "update", "seed": 9, "profile": then, "obs": list(reversed(GROUPS))},
            {"op": "derive", "how": "scale", "factor": 1e6, "ref": None, "obs": list(GROUPS)}])


def _dtyped(rng, pr, name, vals=None, forms=FORMS):
    """add the dtype keyword `name` (None: no keyword, data of class `vals`), a value form, an amplitude, optional valid / unit"""
    if name is not None:
        pr["dtype"] = {"name": name, "as": str(rng.choice(DTYPES[name]))}
        vals = CANON.get(name, name)
    pr["vals"] = vals
    kind = np.dtype(vals).kind
    ok = [f for f in forms if not (f == "callable" and name is None and kind == "c")]
    if name is None:
        ok = [f for f in ok if f not in ("array", "wide")]     # a float64 array without the keyword is the legacy case
    pr["vform"] = str(rng.choice(ok))
    pr["amp"] = "small" if rng.random() < 0.6 else "full"
    if rng.random() < 0.33:
        pr["valid_seed"] = int(rng.integers(1 << 30))
        pr["unit"] = str(rng.choice(["T", "A/m", "J/m3"]))
    if "steps" not in pr and rng.random() < 0.3:        # mesh keywords (what transformations do to them is not this property's business)
        k = int(rng.integers(1, len(pr["dims"]) + 1))
        pr["bc"] = str(rng.choice(["".join(str(c) for c in rng.choice(pr["dims"], size=k, replace=False)), "neumann", "dirichlet"], p=[0.6, 0.2, 0.2]))
    if "steps" not in pr and rng.random() < 0.3:
        i0 = [int(rng.integers(0, k)) for k in pr["n"]]
        pr["sub"] = {"r%d" % rng.integers(10): [i0, [int(rng.integers(a + 1, k + 1)) for a, k in zip(i0, pr["n"])]]}
    return pr


def _fixed_dtype():
    """the statement's own example shapes for the main dtypes in every run, whatever the seed: fractional (non power-of-two and
    power-of-two) cells, small integers, every value form once"""
    b3 = {"n": [3, 4, 3], "cell": [0.5, 0.25, 0.25], "p1": [0.0, 0.0, 0.0], "flip": [0, 0, 0], "dims": ["x", "y", "z"],
          "units": ["m", "m", "m"], "nvdim": 2, "vdims": None, "exact": True, "shift": [1.0, -0.5, 0.25], "amp": "small"}
    g2 = {"n": [5, 2], "cell": [0.3, 0.35], "p1": [-0.1, 0.2], "flip": [1, 0], "dims": ["a", "b"], "units": ["m", "s"], "nvdim": 3,
          "vdims": ["p", "q", "r"], "exact": False, "shift": [0.7, -1.3], "amp": "small"}
    g1 = {"n": [6], "cell": [1.0], "p1": [0.0], "flip": [0], "dims": ["t"], "units": ["s"], "nvdim": 1, "vdims": None, "exact": True,
          "shift": [3.0], "amp": "full"}
    k = 0
    for name, how in (("int64", "type"), ("int32", "type"), ("int", "py"), ("int8", "str"), ("uint8", "dtype"), ("bool_", "py"),
                      ("float32", "type"), ("float64", "type"), ("complex128", "type"), ("complex", "py")):
        for b in (b3, g2, g1):
            k += 1
            yield "dtype", dict(b, dtype={"name": name, "as": how}, vals=CANON.get(name, name), vform=FORMS[k % 4], seed=100 + k)
    for vals, form in (("int64", "typed"), ("int64", "list"), ("int32", "typed"), ("bool", "list"), ("int64", "const"),
                       ("int64", "callable"), ("complex128", "typed")):
        for b in (b3, g2):
            k += 1
            yield "dtype", dict(b, vals=vals, vform=form, seed=100 + k)
    yield "dtype", dict(g2, dtype={"name": "int64", "as": "type"}, vals="int64", vform="const", seed=201)
    yield "dtype", dict(b3, dtype={"name": "int32", "as": "str"}, vals="int32", vform="callable", seed=202)
    yield "dtype", dict(b3, dtype={"name": "int64", "as": "type"}, vals="int64", vform="array", seed=203, valid_seed=5, unit="T")
    yield "dtype", dict(b3, dtype={"name": "int16", "as": "type"}, vals="int16", vform="array", seed=204, bc="zx",
                        sub={"left": [[0, 0, 0], [1, 4, 3]], "core": [[1, 1, 1], [3, 3, 2]]})
    yield "dtype", dict(g2, vals="int64", vform="typed", seed=205, bc="neumann", sub={"s": [[2, 0], [5, 1]]}, valid_seed=6, unit="A/m")
    h2 = {"n": [3, 3], "cell": [0.5, 0.25], "p1": [0.0, 1.0], "flip": [0, 1], "dims": ["x", "y"], "units": ["m", "m"], "nvdim": 1,
          "vdims": None, "exact": True, "seed": 21, "amp": "small"}
    for name in ("int64", "int8", "bool", "float32", "complex128"):
        yield "dtype-history", dict(h2, dtype={"name": name, "as": "type"}, vals=name, vform="array", obs0=list(GROUPS), steps=[
            {"op": "values", "how": "view", "seed": 7, "obs": list(GROUPS)},
            {"op": "scale", "via": "field", "factor": [3.0, 0.5], "ref": None, "obs": list(GROUPS)},
            {"op": "values", "how": "setter", "seed": 8, "obs": list(GROUPS)},
            {"op": "rotate90", "via": "field-rotate", "ax": [0, 1], "k": 1, "ref": None, "obs": list(GROUPS)},
            {"op": "values", "how": "update", "seed": 9, "obs": list(reversed(GROUPS))},
            {"op": "derive", "how": "translate", "vector": [0.5, -0.25], "obs": list(GROUPS)}])


def _obs(rng, full=False):
    if full or rng.random() < 0.5:
        return [GROUPS[i] for i in rng.permutation(len(GROUPS))]
    k = int(rng.integers(1, len(GROUPS)))
    return [GROUPS[i] for i in rng.permutation(len(GROUPS))[:k]]


def _history(rng, ndim, nvdim, exact, frac=False):
    pr = _base(rng, ndim, nvdim, exact, narrow=True, frac=frac)
    n = pr["n"]
    if ndim >= 2 and rng.random() < 0.65:       # a pair of axes with equal n: in-place rotations keep the field consistent
        i, j = (int(q) for q in rng.choice(ndim, size=2, replace=False))
        n[j] = n[i]
        if max(n) == 1:
            n[i] = n[j] = 2
    cell0 = np.array(pr["cell"])
    p0 = np.array(pr["p1"])
    ncur = list(n)

    def factor():
        if exact:
            if rng.random() < 0.5:
                return float(rng.choice(EXACT_FACTORS))
            fs = [float(2.0 ** q) for q in rng.integers(-2, 4, size=ndim)]
            if all(q == 1.0 for q in fs):
                fs[int(rng.integers(ndim))] = 4.0
            return fs
        sign = lambda: -1.0 if rng.random() < 0.2 else 1.0
        if rng.random() < 0.5:
            return sign() * float(10.0 ** rng.uniform(-2, 2))
        return [sign() * float(10.0 ** rng.uniform(-2, 2)) for _ in range(ndim)]

    def ref():
        if rng.random() < 0.5:
            return None
        if exact:
            return (cell0 * rng.integers(-8, 9, size=ndim)).tolist()
        return (p0 + cell0 * np.array(n) * rng.uniform(-2, 3, size=ndim)).tolist()

    def vector():
        if exact:
            return (cell0 * rng.integers(-9, 10, size=ndim)).tolist()
        return (cell0 * rng.uniform(-10, 10, size=ndim)).tolist()

    def rot(any_pair):
        pairs = [(i, j) for i in range(ndim) for j in range(ndim) if i != j and (any_pair or ncur[i] == ncur[j])]
        if not pairs:
            return None
        i, j = pairs[int(rng.integers(len(pairs)))]
        return {"ax": [i, j], "k": int(rng.choice([1, 2, 3, -1])), "ref": ref()}

    steps = []
    nsteps = int(rng.integers(2, 5))
    while len(steps) < nsteps:
        op = str(rng.choice(["scale", "translate", "rotate90", "rename", "values", "derive"], p=[0.34, 0.14, 0.2, 0.1, 0.1, 0.12]))
        st = {"op": op}
        if op == "scale":
            st.update(via=str(rng.choice(VIAS)), factor=factor(), ref=ref())
        elif op == "translate":
            st.update(via=str(rng.choice(VIAS)), vector=vector())
        elif op == "rotate90":
            via = str(rng.choice(VIAS + ["field-rotate"] * 3)) if (nvdim == 1 and ndim >= 2) else str(rng.choice(VIAS))
            r = rot(via == "field-rotate")
            if r is None:
                continue
            st.update(via=via, **r)
            if via == "field-rotate" and r["k"] % 2 == 1:
                i, j = r["ax"]
                ncur[i], ncur[j] = ncur[j], ncur[i]
        elif op == "rename":
            if rng.random() < 0.6:
                st.update(what="dims", names=[str(d) for d in rng.choice(NAMES, size=ndim, replace=False)])
            else:
                st.update(what="units", names=[str(u) for u in rng.choice(UNITS, size=ndim, replace=False)])
        elif op == "values":
            st.update(how=str(rng.choice(["view", "setter", "update"])), seed=int(rng.integers(1 << 30)))
        else:
            how = str(rng.choice(["scale", "translate", "rotate90", "deepcopy-scale"]))
            if how == "rotate90":
                r = rot(True) if ndim >= 2 else None
                if r is None:
                    continue
                st.update(how=how, **r)
                if r["k"] % 2 == 1:
                    i, j = r["ax"]
                    ncur[i], ncur[j] = ncur[j], ncur[i]
            elif how == "translate":
                st.update(how=how, vector=vector())
            else:
                st.update(how=how, factor=factor(), ref=ref())
        st["obs"] = _obs(rng, full=True)      # all groups in a seeded order: what went stale shows right after the step that caused it
        steps.append(st)
    pr["obs0"] = _obs(rng)
    pr["steps"] = steps
    del pr["shift"]
    return pr


def _fixed_histories():
    """every op / handle at least once in every run, whatever the seed"""
    b3 = {"n": [4, 3, 2], "cell": [2.0, 2.0, 1.0], "p1": [-3.0, 1.0, 0.0], "flip": [0, 1, 0], "dims": ["x", "y", "z"],
          "units": ["m", "m", "m"], "nvdim": 2, "vdims": None, "exact": True, "seed": 11}
    for g0 in (["volume"], ["attrs"], ["mean1", "dir"], ["fubini", "cum", "means"], list(GROUPS)):
        for via in VIAS:
            yield "history", dict(b3, obs0=g0, steps=[
                {"op": "scale", "via": via, "factor": [2.0, 1.0, 4.0], "ref": None, "obs": list(GROUPS)},
                {"op": "scale", "via": via, "factor": 0.5, "ref": [1.0, 0.0, -2.0], "obs": list(reversed(GROUPS))}])
    b2 = {"n": [3, 3], "cell": [2.0, 0.5], "p1": [0.0, 0.0], "flip": [0, 0], "dims": ["a", "b"], "units": ["m", "s"], "nvdim": 1,
          "vdims": None, "exact": False, "seed": 12}
    for via in VIAS + ["field-rotate"]:
        yield "history", dict(b2, obs0=list(GROUPS), steps=[
            {"op": "rotate90", "via": via, "ax": [0, 1], "k": 1, "ref": None, "obs": list(GROUPS)},
            {"op": "translate", "via": "mesh" if via == "field-rotate" else via, "vector": [0.3, -7.0], "obs": list(GROUPS)},
            {"op": "rename", "what": "dims", "names": ["b", "a"], "obs": list(GROUPS)},
            {"op": "rename", "what": "units", "names": ["K", "A"], "obs": list(GROUPS)},
            {"op": "rotate90", "via": via, "ax": [1, 0], "k": 3, "ref": [1.0, 1.0], "obs": list(reversed(GROUPS))}])
    b1 = {"n": [5], "cell": [0.3], "p1": [-0.7], "flip": [1], "dims": ["t"], "units": ["s"], "nvdim": 3, "vdims": ["p", "q", "r"],
          "exact": False, "seed": 13}
    for how in ("view", "setter", "update"):
        yield "history", dict(b1, obs0=list(GROUPS), steps=[
            {"op": "values", "how": how, "seed": 5, "obs": list(GROUPS)},
            {"op": "scale", "via": "region", "factor": -3.0, "ref": None, "obs": list(GROUPS)},
            {"op": "values", "how": how, "seed": 6, "obs": list(reversed(GROUPS))}])
    b4 = {"n": [2, 3, 2, 2], "cell": [1.0, 0.5, 4.0, 0.25], "p1": [0.0, 1.0, -4.0, 0.5], "flip": [0, 0, 1, 1],
          "dims": ["x", "y", "z", "w"], "units": ["m", "m", "m", "s"], "nvdim": 1, "vdims": None, "exact": True, "seed": 14}
    for how, extra in (("scale", {"factor": [2.0, 0.5, 4.0, 1.0], "ref": None}), ("translate", {"vector": [1.0, -2.0, 8.0, 0.75]}),
                       ("rotate90", {"ax": [1, 3], "k": 1, "ref": None}), ("deepcopy-scale", {"factor": 4.0, "ref": [0.0, 0.0, 0.0, 0.0]})):
        yield "history", dict(b4, obs0=list(GROUPS), steps=[
            dict({"op": "derive", "how": how, "obs": list(GROUPS)}, **extra),
            {"op": "scale", "via": "field", "factor": [0.5, 2.0, 2.0, 8.0], "ref": None, "obs": list(GROUPS)}])


def _mesh(pr, shift=None):
    n = np.array(pr["n"])
    cell = np.array(pr["cell"], dtype=float)
    lo = np.array(pr["p1"], dtype=float)
    if shift is not None:
        lo = lo + np.array(shift, dtype=float)
    hi = lo + cell * n
    flip = np.array(pr["flip"], dtype=bool)
    p1 = np.where(flip, hi, lo)
    p2 = np.where(flip, lo, hi)
    region = df.Region(p1=tuple(p1), p2=tuple(p2), dims=tuple(pr["dims"]), units=tuple(pr["units"]))
    kw = {}
    if pr.get("bc"):            # boundary conditions / subregions of the mesh: no influence on any integral or mean
        kw["bc"] = pr["bc"]
    if pr.get("sub"):
        kw["subregions"] = {name: df.Region(p1=tuple(lo + cell * np.array(i0)), p2=tuple(lo + cell * np.array(i1)), dims=tuple(pr["dims"]),
                                            units=tuple(pr["units"])) for name, (i0, i1) in pr["sub"].items()}
    mesh = df.Mesh(region=region, n=tuple(int(k) for k in n), **kw)
    return mesh, lo, hi, (hi - lo) / n


class Geo:
    """the oracle's picture of a mesh: names, n and the two corners; everything else is derived here"""

    def __init__(self, dims, units, n, lo, hi):
        self.dims = [str(d) for d in dims]
        self.units = [str(u) for u in units]
        self.n = [int(k) for k in n]
        self.lo = np.array(lo, dtype=float)
        self.hi = np.array(hi, dtype=float)
        self.ndim = len(self.n)
        self.edges = self.hi - self.lo
        self.cell = self.edges / np.array(self.n)

    @classmethod
    def live(cls, mesh, F):
        r = mesh.region
        return cls(r.dims, r.units, F.shape[:-1], r.pmin, r.pmax)

    def coord(self):
        return float(np.max(np.maximum(np.abs(self.lo), np.abs(self.hi)) + self.edges))


def _mesh_ok(m, keep, geo):
    """m is the mesh with only the axes `keep` (sorted original indices) left"""
    try:
        return (tuple(m.region.dims) == tuple(geo.dims[i] for i in keep)
                and tuple(m.region.units) == tuple(geo.units[i] for i in keep)
                and np.array_equal(m.n, [geo.n[i] for i in keep])
                and np.array_equal(m.region.pmin, geo.lo[keep]) and np.array_equal(m.region.pmax, geo.hi[keep])
                and ulp_close(m.cell, geo.cell[keep], 4))
    except Exception:
        return False


def _close(a, b, ulps=64, scale=None):
    """|a-b| <= ulps * eps(double) * max(scale, |a|, |b|) elementwise; moduli for complex numbers"""
    a = np.asarray(a)
    b = np.asarray(b)
    wide = complex if (np.iscomplexobj(a) or np.iscomplexobj(b)) else float
    a = a.astype(wide)
    b = b.astype(wide)
    m = np.maximum(np.abs(a), np.abs(b))
    if scale is not None:
        m = np.maximum(m, scale)
    return bool(np.all(np.abs(a - b) <= ulps * np.finfo(float).eps * m))


class Cmp:
    """== (exact variant, storage that holds the numbers exactly and is computed in double) or 64 ulp x g0, g0 = 1 unless the
    field stores single / half precision numbers (then eps of that precision / eps of double)"""

    def __init__(self, exact, store=None):
        self.g0 = 1.0
        self.exact = exact
        self.exact_ok = True
        if store is not None:
            self.retarget(store)

    def retarget(self, store):
        store = np.dtype(store)
        self.g0 = 1.0
        if store.kind in "fc":
            self.g0 = max(1.0, float(np.finfo(store).eps / np.finfo(float).eps))
        # complex division / extended or single precision arithmetic do not reproduce the double oracle bit for bit
        self.exact_ok = store.kind in "biu" or store == np.dtype(float)

    def __call__(self, got, want, scale, g=1.0):
        got = np.asarray(got)
        want = np.asarray(want)
        if got.shape != want.shape:
            return False
        if self.exact and self.exact_ok:
            return bool(np.array_equal(got, want))
        return _close(got, want, 64 * g * self.g0, scale)


def _values(rng, exact, shape):
    if exact:
        return rng.integers(-50, 51, size=shape).astype(float)
    return rng.uniform(-1, 1, size=shape) * 10.0 ** rng.uniform(-6, 6)


def _profile_values(rng, profile, shape, cplx=False):
    """values of the magnitude profile, float64 (complex128); |v| within 1e-24 .. 1e13"""
    nv = shape[-1]
    cells = shape[:-1]
    ncell = int(np.prod(cells))

    def base(sh=shape):
        u = rng.uniform(-1, 1, size=sh)
        return u + 1j * rng.uniform(-1, 1, size=sh) if cplx else u

    def tiny(sh=()):
        return rng.uniform(1, 10, size=sh) * 10.0 ** rng.uniform(-13, -10, size=sh)       # 1e-13 .. 1e-9

    if profile == "ordinary":
        return base() * 10.0 ** rng.uniform(-3, 3)
    if profile == "tiny":
        return base() * tiny()
    if profile == "tiny-positive":
        return (np.abs(base()) + 0.01) * tiny()
    if profile == "tiny-constant":
        c = base((nv,)) * tiny((nv,))
        return np.broadcast_to(c, shape).copy()
    if profile == "si":
        amp = rng.choice(SI, size=nv)
        return (1 + 0.3 * base()) * amp * rng.choice([-1.0, 1.0], size=nv)
    if profile == "tiny-but-one":
        v = base() * tiny()
        idx = np.unravel_index(int(rng.integers(ncell)), cells)
        v[idx] = base((nv,)) * 10.0 ** rng.uniform(0, 5)
        return v
    if profile == "sparse-tiny":
        v = base() * tiny()
        mask = rng.random(cells) < 0.3
        mask.flat[int(rng.integers(ncell))] = True
        return v * mask[..., None]
    if profile == "offset":
        off = rng.choice([-1.0, 1.0], size=nv) * 10.0 ** rng.uniform(0, 12, size=nv)
        return off * (1 + base() * 10.0 ** rng.uniform(-13, -5))
    if profile == "huge":
        return base() * 10.0 ** rng.uniform(8, 12)
    if profile == "mixed-components":
        amp = 10.0 ** rng.uniform(-12, 12, size=nv)
        amp[0] = tiny()
        if nv > 1:
            amp[-1] = 10.0 ** rng.uniform(3, 12)
        return base() * amp[rng.permutation(nv)]
    if profile == "graded":
        return base() * 10.0 ** rng.uniform(-12, 12, size=shape)
    raise ValueError("unknown profile %r" % (profile,))


def _draw(rng, exact, shape, vals=None, amp="small"):
    """values representable in the numpy dtype `vals`, returned as float64 / complex128 (None: the legacy float values)"""
    if vals is None:
        return _values(rng, exact, shape)
    dt = np.dtype(vals)
    if dt.kind == "b":
        return rng.integers(0, 2, size=shape).astype(float)
    if dt.kind in "iu":
        info = np.iinfo(dt)
        if amp == "small":
            lo, hi = max(info.min, -50), min(info.max, 50)
        else:       # half the range: any two-term combination with coefficients +-1 is representable, narrow accumulation wraps
            lo, hi = max(info.min // 2, -(1 << 40)), min(info.max // 2, 1 << 40)
        return rng.integers(lo, hi + 1, size=shape).astype(float)
    dec = 2 if dt.itemsize == 2 else 6
    if dt.kind == "f":
        v = rng.integers(-50, 51, size=shape).astype(float) if exact else rng.uniform(-1, 1, size=shape) * 10.0 ** rng.uniform(-dec, dec)
        return v.astype(dt).astype(float)
    if exact:
        v = rng.integers(-50, 51, size=shape) + 1j * rng.integers(-50, 51, size=shape)
    else:
        v = (rng.uniform(-1, 1, size=shape) + 1j * rng.uniform(-1, 1, size=shape)) * 10.0 ** rng.uniform(-dec, dec)
    return v.astype(dt).astype(complex)


def _dtype_arg(d):
    if d is None:
        return None
    name, how = d["name"], d["as"]
    if how == "py":
        return PYTYPES[name]
    if how == "str":
        return name
    if how == "dtype":
        return np.dtype(name)
    return np.bool_ if name == "bool" else getattr(np, name)


def _mk(mesh, F, pr, vdims=True):
    """the field the case describes, holding the values F (float64 / complex128, representable in the dtype concerned):
    dtype keyword, value form, valid / unit keywords"""
    nv = F.shape[-1]
    ndim = F.ndim - 1
    kw = {"nvdim": nv}
    if vdims:
        kw["vdims"] = pr["vdims"]
    d = pr.get("dtype")
    if d is not None:
        kw["dtype"] = _dtype_arg(d)
    if pr.get("unit") is not None:
        kw["unit"] = pr["unit"]
    if pr.get("valid_seed") is not None:
        mask = np.random.default_rng(pr["valid_seed"]).random(F.shape[:-1]) < 0.6
        mask.flat[0] = True
        kw["valid"] = mask
    vals = pr.get("vals")
    form = pr.get("vform", "array")
    own = np.dtype(vals) if vals is not None else F.dtype                               # the data's own type
    store = np.dtype(CANON.get(d["name"], d["name"])) if d is not None else F.dtype     # array of the requested dtype
    if form == "array":
        value = F.astype(store)
    elif form == "wide":
        value = F.copy()
    elif form == "typed":
        value = F.astype(own)
    elif form == "list":
        value = F.astype(own).tolist()
    elif form == "const":       # F is constant over the cells
        c = F[(0,) * ndim].astype(own).tolist()
        value = c[0] if nv == 1 else tuple(c)
    elif form == "callable":
        lo = np.array(mesh.region.pmin, dtype=float)
        n = np.array(F.shape[:-1])
        cell = (np.array(mesh.region.pmax, dtype=float) - lo) / n
        table = F.astype(own)

        def value(point):
            idx = np.clip(np.floor((np.atleast_1d(np.asarray(point, dtype=float)) - lo) / cell).astype(int), 0, n - 1)
            return table[tuple(idx)]
    else:
        raise ValueError("unknown value form %r" % (form,))
    return df.Field(mesh, value=value, **kw)


def _stored(f):
    """a copy of what the field stores, in float64 / complex128: the exact values every oracle starts from"""
    a = np.asarray(f.array)
    return np.array(a, dtype=complex if np.iscomplexobj(a) else float)


def _observe(ctx, f, F, geo, cmp, rng, groups, sig=None, where=None):
    """state the clauses of the listed quantity groups, in the listed order, for field f whose values are F on geometry geo"""
    n, ndim, nv, dims = geo.n, geo.ndim, F.shape[-1], geo.dims
    cell, edges = geo.cell, geo.edges
    shape = F.shape
    cax = tuple(range(ndim))
    dV = float(np.prod(cell))
    absF = np.abs(F)
    want_vol = np.sum(F, axis=cax) * dV
    sc_vol = np.sum(absF, axis=cax) * dV
    st = {"okv": False, "vol": None, "di": {}}

    def rq(cond, clause, what, s=None, **detail):
        if where is not None:
            detail["where"] = where
        return ctx.require(cond, clause, what, sig=s if s is not None else sig, **detail)

    def dir_oracle(ax):
        return np.sum(F, axis=ax) * cell[ax], np.sum(absF, axis=ax) * cell[ax]

    for grp in groups:
        if grp == "attrs":
            m = f.mesh
            r, got = raises(Exception, lambda: (np.array(m.cell), m.dV, np.array(m.region.edges), np.array(m.n)))
            ok = (not r and ulp_close(got[0], cell, 4) and isinstance(got[1], float) and ulp_close(got[1], dV, 4)
                  and ulp_close(got[2], edges, 4) and np.array_equal(got[3], n))
            rq(ok, "C06.cell_volume", "mesh.cell / mesh.dV / region.edges / mesh.n do not describe the current mesh",
               got=repr(got), want=[cell, dV, edges, n])

        elif grp == "volume":
            r, vol = raises(Exception, f.integrate)
            okv = not r and isinstance(vol, np.ndarray) and cmp(vol, want_vol, sc_vol)
            rq(okv, "C06.volume", "integrate() != sum * cell volume", got=None if r else vol, want=want_vol, error=repr(vol) if r else None)
            r2, vol2 = raises(Exception, df.integrate, f)
            rq(not r and not r2 and np.array_equal(vol, vol2), "C06.volume", "discretisedfield.integrate(f) differs from f.integrate()")
            st["okv"], st["vol"] = okv, vol

        elif grp == "fubini":
            okf, bad, fub = True, None, ("C06.fubini", None)
            for perm in itertools.permutations(range(ndim)):
                cur = f
                try:
                    for i in perm:
                        cur = cur.integrate(dims[i])
                except Exception as e:
                    okf, bad, fub = False, (list(perm), repr(e)), _rc(e, *fub)
                    break
                if not (isinstance(cur, np.ndarray) and cmp(cur, want_vol, sc_vol)):
                    okf, bad = False, (list(perm), np.asarray(cur).tolist() if isinstance(cur, np.ndarray) else repr(cur))
                    break
            rq(okf, fub[0], "iterated directional integrals differ from the volume integral" if fub[0] == "C06.fubini" else
               "an iterated directional integral raised: the mesh with the axis removed could not be built", s=fub[1], order_and_result=bad, want=want_vol)

        elif grp == "dir":
            for ax, d in enumerate(dims):
                keep = [i for i in range(ndim) if i != ax]
                want, sc = dir_oracle(ax)
                r, di = raises(Exception, f.integrate, d)
                if r:
                    cl, sg = _rc(di, "C06.directional", "raises-" + type(di).__name__)
                    rq(False, cl, "integrate(direction) raised", s=sg, error=repr(di), axis=ax)
                    continue
                if ndim == 1:
                    rq(isinstance(di, np.ndarray) and cmp(di, want, sc), "C06.directional", "1-d: integrate(d) != sum*cell", axis=ax)
                    di_arr = di if isinstance(di, np.ndarray) else None
                else:
                    isf = isinstance(di, df.Field)
                    rq(isf and di.nvdim == nv and cmp(di.array, want, sc), "C06.directional", "integrate(d) != sum along d * cell_d", axis=ax, n=n)
                    rq(isf and _mesh_ok(di.mesh, keep, geo), "C06.axis_removed", "integrate(d): wrong result mesh", axis=ax,
                       got=repr(di.mesh) if isf else None)
                    di_arr = di.array if isf else None
                r3, di3 = raises(Exception, df.integrate, f, d)
                rq(not r3 and di_arr is not None and np.array_equal(di3 if ndim == 1 else di3.array, di_arr), "C06.directional",
                   "discretisedfield.integrate(f, d) differs from the method", axis=ax)
                st["di"][ax] = di_arr

        elif grp == "cum":
            for ax, d in enumerate(dims):
                want, sc = dir_oracle(ax)
                r, cu = raises(Exception, f.integrate, d, cumulative=True)
                if r or not isinstance(cu, df.Field):
                    rq(False, "C06.cumulative", "cumulative integral raised / no field", s="raises-" + type(cu).__name__, error=repr(cu))
                    continue
                wantc = np.zeros(shape, dtype=F.dtype)
                scc = np.zeros(shape)
                for i in range(n[ax]):
                    sl = [slice(None)] * (ndim + 1)
                    sl[ax] = i
                    pre = [slice(None)] * (ndim + 1)
                    pre[ax] = slice(0, i)
                    wantc[tuple(sl)] = cell[ax] * (np.sum(F[tuple(pre)], axis=ax) + F[tuple(sl)] / 2)
                    scc[tuple(sl)] = cell[ax] * (np.sum(absF[tuple(pre)], axis=ax) + absF[tuple(sl)] / 2)
                rq(cu.nvdim == nv and cmp(cu.array, wantc, scc), "C06.cumulative", "cumulative[i] != cell*(sum of preceding + half own)",
                   axis=ax, n=n)
                rq(_mesh_ok(cu.mesh, list(range(ndim)), geo), "C06.axis_removed", "cumulative integral changed the mesh", axis=ax)
                last = [slice(None)] * (ndim + 1)
                last[ax] = n[ax] - 1
                # against the directional integral observed in this round if there is one, else against its oracle value
                total = st["di"].get(ax)
                if cu.array.shape == shape:
                    rq(cmp(cu.array[tuple(last)] + cell[ax] * F[tuple(last)] / 2, want if total is None else total, sc), "C06.cumulative_last",
                       "last cumulative entry + half last cell != directional integral", axis=ax)
                r4, cu4 = raises(Exception, df.integrate, f, d, True)
                rq(not r4 and np.array_equal(cu4.array, cu.array), "C06.cumulative", "discretisedfield.integrate(f, d, True) differs", axis=ax)
            r, _ = raises(ValueError, f.integrate, cumulative=True)
            rq(r, "C06.cumulative", "cumulative integral without a direction accepted")

        elif grp == "mean1":        # mean over one direction given as a string
            for ax, d in enumerate(dims):
                keep = [i for i in range(ndim) if i != ax]
                want, sc = dir_oracle(ax)
                wantm = want / edges[ax]
                scm = sc / edges[ax]
                di_arr = st["di"].get(ax)
                r, me = raises(Exception, f.mean, d)
                if r:
                    cl, sg = _rc(me, "C06.mean", SIG_MEAN1D if (ndim == 1 and isinstance(me, ValueError) and sig in (None, "history-initial")) else "raises-" + type(me).__name__)
                    rq(False, cl, "mean(direction) raised", s=sg, error=repr(me), ndim=ndim)
                elif ndim == 1:
                    rq(isinstance(me, np.ndarray) and cmp(me, wantm, scm), "C06.mean", "1-d: mean(d) != integrate(d)/edge")
                else:
                    isf = isinstance(me, df.Field)
                    rq(isf and cmp(me.array, wantm, scm) and (di_arr is None or cmp(me.array, di_arr / edges[ax], scm)), "C06.mean",
                       "mean(d) != integrate(d)/edge_d", axis=ax)
                    rq(isf and _mesh_ok(me.mesh, keep, geo), "C06.axis_removed", "mean(d): wrong result mesh", axis=ax)

        elif grp == "means":        # mean over none / subsets
            vol_ext = float(np.prod(edges))
            wantm = want_vol / vol_ext
            scm = sc_vol / vol_ext
            r, m0 = raises(Exception, f.mean)
            rq(not r and isinstance(m0, np.ndarray) and cmp(m0, wantm, scm) and (not st["okv"] or cmp(m0, st["vol"] / vol_ext, scm)),
               "C06.mean", "mean() != integrate()/volume", got=None if r else m0, want=wantm)
            for k in range(1, ndim + 1):
                for sub in itertools.combinations(range(ndim), k):
                    order = [int(i) for i in rng.permutation(sub)]
                    dirs = [dims[i] for i in order]
                    if rng.random() < 0.5:
                        dirs = tuple(dirs)
                    keep = [i for i in range(ndim) if i not in sub]
                    ext = float(np.prod(edges[list(sub)]))
                    want = np.sum(F, axis=tuple(sub)) * float(np.prod(cell[list(sub)])) / ext
                    sc = np.sum(absF, axis=tuple(sub)) * float(np.prod(cell[list(sub)])) / ext
                    r, me = raises(Exception, f.mean, dirs)
                    if r:
                        cl, sg = _rc(me, "C06.mean", "raises-" + type(me).__name__)
                        rq(False, cl, "mean(directions) raised", s=sg, error=repr(me), dirs=list(dirs))
                        continue
                    if k == ndim:
                        rq(isinstance(me, np.ndarray) and cmp(me, want, sc), "C06.mean", "mean over all directions (listed) != integral/volume",
                           dirs=list(dirs))
                        continue
                    isf = isinstance(me, df.Field)
                    ok = isf and cmp(me.array, want, sc)
                    if ok:      # the statement's wording: the iterated integral divided by the integrated extent
                        def chain():
                            cur = f
                            for dn in dirs:
                                cur = cur.integrate(dn)
                            return cur.array
                        rc, cur = raises(Exception, chain)
                        ok = not rc and cmp(me.array, cur / ext, sc)
                    rq(ok, "C06.mean", "mean over several directions != iterated integral / extent", dirs=list(dirs), n=n)
                    rq(isf and _mesh_ok(me.mesh, keep, geo), "C06.axis_removed", "mean([..]): wrong result mesh", dirs=list(dirs))
            dup = [dims[0], dims[0]] if ndim == 1 else [dims[0], dims[-1], dims[0]]
            r, e = raises(ValueError, f.mean, dup)
            rq(r, "C06.mean_duplicates", "duplicate directions accepted", dirs=dup)
            r, e = raises(ValueError, f.mean, tuple(dup))
            rq(r, "C06.mean_duplicates", "duplicate directions (tuple) accepted", dirs=dup)
        else:
            raise ValueError("unknown group %r" % (grp,))


def _combination(rng, pr, shape, exact):
    """F, G, a, b with a*F + b*G representable in the data class of the case"""
    vals, amp = pr.get("vals"), pr.get("amp", "small")
    if pr.get("vform") == "const":
        cshape = (1,) * (len(shape) - 1) + (shape[-1],)
        F = np.broadcast_to(_draw(rng, exact, cshape, vals, amp), shape).copy()
        G = np.broadcast_to(_draw(rng, exact, cshape, vals, amp), shape).copy()
    else:
        F = _draw(rng, exact, shape, vals, amp)
        G = _draw(rng, exact, shape, vals, amp)
    dt = np.dtype(vals)
    if dt.kind == "b":
        G = G * (1 - F)         # disjoint supports: F + G is Boolean again
        a, b = 1.0, 1.0
    elif dt.kind == "u":
        a, b = (float(rng.integers(1, 3)), float(rng.integers(1, 3))) if (amp == "small" and dt.itemsize > 1) else (1.0, 1.0)
        if amp == "small" and dt.itemsize == 1:
            a = float(rng.integers(1, 3))       # 2*50 + 50 <= 255
    elif dt.kind == "i":
        if amp == "small" and dt.itemsize > 1:
            a, b = float(rng.integers(-4, 5)), float(rng.integers(1, 5))
        else:
            a, b = float(rng.choice([-1, 1])), 1.0
    elif dt.kind == "f":
        a, b = (float(rng.integers(-4, 5)), float(rng.integers(1, 5))) if exact else (float(rng.uniform(-3, 3)), float(rng.uniform(-3, 3)))
    else:
        if exact:
            a, b = complex(rng.integers(-3, 4), rng.integers(-3, 4)), complex(rng.integers(1, 4), rng.integers(-3, 4))
        else:
            a, b = complex(*rng.uniform(-3, 3, size=2)), complex(*rng.uniform(-3, 3, size=2))
    return F, G, a, b


def check(kind, pr, ctx):
    if kind in ("history", "dtype-history", "scale-history"):
        return _check_history(pr, ctx)
    if kind == "scale":
        return _check_scale(pr, ctx)
    n = list(pr["n"])
    ndim, nv, exact = len(n), pr["nvdim"], pr["exact"]
    dims = pr["dims"]
    if int(np.prod(n)) == 1:
        ctx.trivial()
    mesh, lo, hi, cell = _mesh(pr)
    geo = Geo(dims, pr["units"], n, lo, hi)
    edges = hi - lo
    rng = np.random.default_rng(pr["seed"])
    shape = (*n, nv)
    sig = None
    if kind == "dtype":
        sig = "dtype-%s-%s" % (pr["dtype"]["name"] if pr.get("dtype") else "none", pr["vals"])
        F, G, a, b = _combination(rng, pr, shape, exact)
    elif exact:
        F = rng.integers(-50, 51, size=shape).astype(float)
        G = rng.integers(-50, 51, size=shape).astype(float)
        a, b = float(rng.integers(-4, 5)), float(rng.integers(1, 5))
    else:
        F = rng.uniform(-1, 1, size=shape) * 10.0 ** rng.uniform(-6, 6)
        G = rng.uniform(-1, 1, size=shape) * 10.0 ** rng.uniform(-6, 6)
        a, b = float(rng.uniform(-3, 3)), float(rng.uniform(-3, 3))
    H = a * F + b * G
    r, res = raises(Exception, lambda: (_mk(mesh, F, pr), _mk(mesh, G, pr), _mk(mesh, H, pr)))
    if r:
        if kind == "dtype":     # a dtype / value form the constructor refuses: nothing to integrate (C02's business)
            ctx.trivial()
            return
        raise res
    f, g_, h = res
    # the oracle starts from what the fields actually store (== F, G, H for every representable value)
    verbatim = np.array_equal(_stored(f), F) and np.array_equal(_stored(g_), G)
    F, G, Hs = _stored(f), _stored(g_), _stored(h)
    cmp = Cmp(exact, f.array.dtype)
    dV = float(np.prod(cell))
    absF = np.abs(F)

    # ---------------- every quantity once, on the fresh mesh
    _observe(ctx, f, F, geo, cmp, rng, ["volume", "fubini", "dir", "cum", "mean1", "means", "attrs"], sig=sig)

    # ---------------- linearity, per component
    ax = int(rng.integers(ndim))
    d = dims[ax]
    dirs2 = [dims[i] for i in rng.permutation(ndim)[:max(1, ndim - 1)]]
    modes = [("volume", lambda q: q.integrate(), dV * float(np.prod(n))),
             ("directional", lambda q: _arr(q.integrate(d)), cell[ax] * n[ax]),
             ("cumulative", lambda q: q.integrate(d, cumulative=True).array, cell[ax] * n[ax]),
             ("mean", lambda q: q.mean(), 1.0),
             ("mean-dirs", lambda q: _arr(q.mean(dirs2)), 1.0)]
    sc_lin = abs(a) * float(np.max(absF)) + abs(b) * float(np.max(np.abs(G)))
    # the combination field holds a*F + b*G up to the rounding of its own storage (single precision fields)
    lin_ok = verbatim and _close(Hs, a * F + b * G, cmp.g0 if cmp.g0 > 1 else 0, sc_lin)
    for name, op, meas in modes:
        r, res = raises(Exception, lambda: (op(f), op(g_), op(h)))
        if r:
            ctx.require(False, "C06.linearity", "raised", sig="raises-%s-%s" % (name, type(res).__name__), error=repr(res), mode=name)
            continue
        if lin_ok:
            ctx.require(np.shape(res[2]) == np.shape(res[0]) and _close(res[2], a * np.asarray(res[0]) + b * np.asarray(res[1]), 64 * cmp.g0, sc_lin * meas),
                        "C06.linearity", "not linear in the field", sig=sig, mode=name, a=a, b=b)
        okc = True
        for c in range(nv):
            rc, resc = raises(Exception, lambda: op(_mk(mesh, np.ascontiguousarray(F[..., c:c + 1]), pr, vdims=False)))
            okc &= (not rc) and cmp(np.asarray(resc)[..., 0], np.asarray(res[0])[..., c], float(np.max(absF)) * meas)
        ctx.require(okc, "C06.per_component", "component of the result != result of the component", sig=sig, mode=name)

    # ---------------- translation
    mesh_t, lo_t, hi_t, cell_t = _mesh(pr, pr["shift"])
    geo_t = Geo(dims, pr["units"], n, lo_t, hi_t)
    ft = _mk(mesh_t, F, pr)
    coord = np.maximum(np.maximum(np.abs(lo), np.abs(hi)), np.maximum(np.abs(lo_t), np.abs(hi_t)))
    gfac = 1.0 if exact else float(1.0 + np.max(coord / edges))
    okt = True
    why = None
    for name, op, meas in modes:
        r, res = raises(Exception, lambda: (op(f), op(ft)))
        if r or not cmp(res[0], res[1], float(np.max(absF)) * meas, gfac):
            okt, why = False, name
    if ndim > 1:
        r, res = raises(Exception, lambda: ft.integrate(d).mesh)
        keep = [i for i in range(ndim) if i != ax]
        if r or not _mesh_ok(res, keep, geo_t):
            okt, why = False, "result mesh not shifted with the field"
    ctx.require(okt, "C06.translation", "result depends on the position of the mesh", sig=sig, mode=why, shift=pr["shift"])


def _arr(x):
    return x if isinstance(x, np.ndarray) else x.array


def _cum_sum(X, ax):
    """sum of the preceding cells + half the own cell along axis ax (the statement's formula, cell by cell)"""
    out = np.zeros(X.shape, dtype=X.dtype)
    for i in range(X.shape[ax]):
        sl = [slice(None)] * X.ndim
        sl[ax] = i
        pre = [slice(None)] * X.ndim
        pre[ax] = slice(0, i)
        out[tuple(sl)] = np.sum(X[tuple(pre)], axis=ax) + X[tuple(sl)] / 2
    return out


def _check_scale(pr, ctx):
    """values 1e-12 .. 1e12, cells 1e-9 .. 1e6: all clauses against the direct oracle (through _observe, for f and every s*f) and
    the relations scaling / linearity / per component / translation for every quantity and direction, with elementwise relative
    budgets: each functional is a sum L(X) over cells; the budget of an entry is 64 ulp of L(|X|) of that entry"""
    n = list(pr["n"])
    ndim, nv, dims = len(n), pr["nvdim"], pr["dims"]
    if int(np.prod(n)) == 1:
        ctx.trivial()
    mesh, lo, hi, cell = _mesh(pr)
    geo = Geo(dims, pr["units"], n, lo, hi)
    edges = hi - lo
    rng = np.random.default_rng(pr["seed"])
    shape = (*n, nv)
    cplx = pr.get("vals") == "complex128"
    sig = "scale-" + pr["profile"]
    F = _profile_values(rng, pr["profile"], shape, cplx)
    G = _profile_values(rng, pr["profile2"], shape, cplx)
    a = float(rng.uniform(-3, 3)) if rng.random() < 0.5 else float(rng.choice([-1.0, 1.0]) * 10.0 ** rng.uniform(-6, 6))
    b = float(rng.uniform(-3, 3)) if rng.random() < 0.5 else float(rng.choice([-1.0, 1.0]) * 10.0 ** rng.uniform(-6, 6))
    if cplx:
        a, b = a * complex(*rng.uniform(-1, 1, size=2)), b * complex(*rng.uniform(-1, 1, size=2))
    f, g_ = _mk(mesh, F, pr), _mk(mesh, G, pr)
    F, G = _stored(f), _stored(g_)
    H = a * F + b * G
    h = _mk(mesh, H, pr)
    verbatim = np.array_equal(_stored(h), H)
    cmp = Cmp(False, f.array.dtype)
    allg = ["volume", "fubini", "dir", "cum", "mean1", "means", "attrs"]
    _observe(ctx, f, F, geo, cmp, rng, allg, sig=sig)
    scaled = []
    for k, s_ in enumerate(pr["factors"]):
        fs = _mk(mesh, s_ * F, pr)
        Fs = _stored(fs)
        _observe(ctx, fs, Fs, geo, cmp, rng, allg if k == 0 else ["volume", "dir", "cum", "mean1", "means"], sig=sig + "-scaled",
                 where="the field times %r" % (s_,))
        scaled.append((s_, fs, np.array_equal(Fs, s_ * F)))

    # ---------------- the quantities as linear functionals L of the value array
    cax = tuple(range(ndim))
    dV = float(np.prod(cell))
    ext = float(np.prod(edges))
    sub = sorted(int(i) for i in rng.permutation(ndim)[:max(1, ndim - 1)])
    dirs2 = [dims[i] for i in rng.permutation(sub)]
    cs, es = float(np.prod(cell[sub])), float(np.prod(edges[sub]))
    modes = [("volume", lambda q: q.integrate(), lambda X: np.sum(X, axis=cax) * dV),
             ("mean", lambda q: q.mean(), lambda X: np.sum(X, axis=cax) * dV / ext),
             ("mean-dirs %s" % dirs2, lambda q: _arr(q.mean(dirs2)), lambda X: np.sum(X, axis=tuple(sub)) * cs / es)]
    for ax, d in enumerate(dims):
        modes.append(("directional %s" % d, lambda q, d=d: _arr(q.integrate(d)), lambda X, ax=ax: np.sum(X, axis=ax) * cell[ax]))
        modes.append(("cumulative %s" % d, lambda q, d=d: q.integrate(d, cumulative=True).array, lambda X, ax=ax: _cum_sum(X, ax) * cell[ax]))
        modes.append(("mean %s" % d, lambda q, d=d: _arr(q.mean(d)), lambda X, ax=ax: np.sum(X, axis=ax) * cell[ax] / edges[ax]))

    mesh_t, lo_t, hi_t, _ = _mesh(pr, pr["shift"])
    ft = _mk(mesh_t, F, pr)
    coord = np.maximum(np.maximum(np.abs(lo), np.abs(hi)), np.maximum(np.abs(lo_t), np.abs(hi_t)))
    gfac = float(1.0 + np.max(coord / edges))
    comps = [_mk(mesh, np.ascontiguousarray(F[..., c:c + 1]), pr, vdims=False) for c in range(nv)]
    absF, absG = np.abs(F), np.abs(G)
    for name, op, L in modes:
        scF, scG = L(absF), L(absG)
        r, rf = raises(Exception, op, f)
        if r:
            cl, sg = _rc(rf, "C06.scaling", "raises-%s-%s" % (name.split()[0], type(rf).__name__))
            ctx.require(False, cl, "the quantity raised", sig=sg, error=repr(rf), mode=name)
            continue
        rf = np.asarray(rf)
        # s * f
        for s_, fs, same in scaled:
            r, rs = raises(Exception, op, fs)
            ok = not r and np.shape(rs) == rf.shape and (not same or _close(rs, s_ * rf, 64, abs(s_) * scF))
            cl, sg = _rc(rs, "C06.scaling", sig) if r else ("C06.scaling", sig)
            ctx.require(ok, cl, "the quantity of s*f is not s times the quantity of f (relative budget 64 ulp of |s| x sum|f| x measure)",
                        sig=sg, mode=name, s=s_, got=None if r else np.asarray(rs).ravel()[:6], want=(s_ * rf).ravel()[:6],
                        error=repr(rs) if r else None)
        # a*f + b*g
        r, res = raises(Exception, lambda: (np.asarray(op(g_)), np.asarray(op(h))))
        if r:
            cl, sg = _rc(res, "C06.linearity", "raises-%s-%s" % (name.split()[0], type(res).__name__))
            ctx.require(False, cl, "raised", sig=sg, error=repr(res), mode=name)
        elif verbatim:
            ctx.require(res[1].shape == rf.shape and _close(res[1], a * rf + b * res[0], 64, abs(a) * scF + abs(b) * scG), "C06.linearity",
                        "not linear in the field (relative budget 64 ulp of |a| sum|f| + |b| sum|g|)", sig=sig, mode=name, a=a, b=b,
                        profiles=[pr["profile"], pr["profile2"]])
        # per component
        okc, badc, clc = True, None, ("C06.per_component", sig)
        for c in range(nv):
            rc, resc = raises(Exception, op, comps[c])
            if rc:
                clc = _rc(resc, *clc)
            if rc or np.shape(resc) != rf[..., c:c + 1].shape or not cmp(np.asarray(resc)[..., 0], rf[..., c], scF[..., c]):
                okc, badc = False, c
        ctx.require(okc, clc[0], "component of the result != result of the component (budget relative to the component's own sums)",
                    sig=clc[1], mode=name, component=badc)
        # translation
        r, rt = raises(Exception, op, ft)
        cl, sg = _rc(rt, "C06.translation", sig) if r else ("C06.translation", sig)
        ctx.require(not r and cmp(rt, rf, scF, gfac), cl, "result depends on the position of the mesh", sig=sg, mode=name,
                    shift=pr["shift"], error=repr(rt) if r else None)


# ====================================================================== histories
def _near(a, b, scale):
    a = np.asarray(a, dtype=float)
    b = np.asarray(b, dtype=float)
    return a.shape == b.shape and bool(np.all(np.abs(a - b) <= 1e-9 * scale))


class _Hist:
    """the objects a user would hold: the Region handed to the mesh, the mesh, two fields on it; plus the oracle's F and geo"""

    def __init__(self, pr):
        self.pr = pr
        self.exact = pr["exact"]
        self.nv = pr["nvdim"]
        self.vals, self.amp = pr.get("vals"), pr.get("amp", "small")
        self.mesh, lo, hi, _ = _mesh(pr)
        self.region = self.mesh.region
        self.geo = Geo(pr["dims"], pr["units"], pr["n"], lo, hi)
        self.rng = np.random.default_rng(pr["seed"])
        shape = (*pr["n"], self.nv)
        if pr.get("profile"):       # values of a magnitude profile (scale histories)
            draw = lambda: _profile_values(self.rng, pr["profile"], shape)
        else:
            draw = lambda: _draw(self.rng, self.exact, shape, self.vals, self.amp)
        self.f = _mk(self.mesh, draw(), pr)
        self.g = _mk(self.mesh, draw(), pr)
        self.cmp = Cmp(self.exact)
        self.reread()

    def reread(self):
        """the oracle's values: what the field stores now; the tolerance follows the storage"""
        self.F = _stored(self.f)
        self.cmp.retarget(self.f.array.dtype)

    def handle(self, via):
        return {"mesh": self.mesh, "field": self.f.mesh, "other-field": self.g.mesh, "region": self.region,
                "field-region": self.f.mesh.region}[via]

    def rebuild(self, mesh, F):
        self.mesh, self.region = mesh, mesh.region
        self.f = _mk(mesh, F, self.pr)
        self.g = _mk(mesh, F[::-1].copy(), self.pr)
        self.reread()


def _tup(x):
    return tuple(float(v) for v in x) if isinstance(x, (list, tuple)) else float(x)


def _scaled_ok(old, new, factor):
    fac = np.abs(np.array(factor, dtype=float)) * np.ones(old.ndim)
    return _near(new.edges, old.edges * fac, max(old.coord(), new.coord()))


def _rotated_ok(old, new, ax, k):
    want = old.edges.copy()
    if k % 2 == 1:
        want[ax[0]], want[ax[1]] = old.edges[ax[1]], old.edges[ax[0]]
    rest = [i for i in range(old.ndim) if i not in ax]
    return (_near(new.edges, want, max(old.coord(), new.coord()))
            and np.array_equal(new.lo[rest], old.lo[rest]) and np.array_equal(new.hi[rest], old.hi[rest]))


def _step(H, st):
    """apply one step to the live objects, move the oracle's picture along; returns (took_effect, note)"""
    op = st["op"]
    old = H.geo
    if op == "scale":
        ref = None if st["ref"] is None else _tup(st["ref"])
        H.handle(st["via"]).scale(_tup(st["factor"]), reference_point=ref, inplace=True)
        H.geo = Geo.live(H.mesh, H.F)
        return _scaled_ok(old, H.geo, st["factor"]) and H.geo.dims == old.dims and H.geo.units == old.units, "edges x |factor|"
    if op == "translate":
        H.handle(st["via"]).translate(_tup(st["vector"]), inplace=True)
        H.geo = Geo.live(H.mesh, H.F)
        sc = max(old.coord(), H.geo.coord())
        v = np.array(st["vector"], dtype=float)
        return _near(H.geo.lo, old.lo + v, sc) and _near(H.geo.hi, old.hi + v, sc) and H.geo.dims == old.dims, "corners + vector"
    if op == "rotate90":
        i, j = st["ax"]
        k = st["k"]
        ref = None if st["ref"] is None else _tup(st["ref"])
        ok = True
        if st["via"] == "field-rotate":
            H.f.rotate90(old.dims[i], old.dims[j], k=k, reference_point=ref, inplace=True)
            H.F = np.ascontiguousarray(np.rot90(H.F, k=k, axes=(i, j)))
            ok = np.array_equal(H.f.array, H.F)
        else:
            H.handle(st["via"]).rotate90(old.dims[i], old.dims[j], k=k, reference_point=ref, inplace=True)
        H.cmp.exact = False         # cos(k pi/2) is not exactly 0: corners are only near the exact ones from here on
        H.geo = Geo.live(H.mesh, H.F)
        return ok and _rotated_ok(old, H.geo, [i, j], k) and H.geo.dims == old.dims, "edges of the pair swapped for odd k, values rotated"
    if op == "rename":
        if st["what"] == "dims":
            H.region.dims = list(st["names"])
        else:
            H.region.units = list(st["names"])
        H.geo = Geo.live(H.mesh, H.F)
        want = (st["names"], old.units) if st["what"] == "dims" else (old.dims, st["names"])
        return (H.geo.dims, H.geo.units) == (list(want[0]), list(want[1])) and np.array_equal(H.geo.lo, old.lo), "names read back"
    if op == "values":
        if st.get("profile"):
            new = _profile_values(np.random.default_rng(st["seed"]), st["profile"], H.F.shape)
        else:
            new = _draw(np.random.default_rng(st["seed"]), H.exact, H.F.shape, H.vals, H.amp)
        if st["how"] == "view":
            H.f.array[...] = new
        elif st["how"] == "setter":
            H.f.array = new.copy()
        else:
            H.f.update_field_values(new.copy())
        H.reread()
        return np.array_equal(H.F, new), "values read back"
    if op == "derive":
        how = st["how"]
        F = H.F
        if how == "scale":
            m2 = H.mesh.scale(_tup(st["factor"]), reference_point=None if st["ref"] is None else _tup(st["ref"]))
        elif how == "translate":
            m2 = H.mesh.translate(_tup(st["vector"]))
        elif how == "rotate90":
            i, j = st["ax"]
            m2 = H.mesh.rotate90(old.dims[i], old.dims[j], k=st["k"], reference_point=None if st["ref"] is None else _tup(st["ref"]))
            F = np.ascontiguousarray(np.rot90(F, k=st["k"], axes=(i, j)))
            H.cmp.exact = False
        else:
            m2 = copy.deepcopy(H.mesh)
            m2.scale(_tup(st["factor"]), reference_point=None if st["ref"] is None else _tup(st["ref"]), inplace=True)
        H.old = (H.f, H.F, old)
        untouched = Geo.live(H.mesh, H.F)
        ok = (m2 is not H.mesh and m2.region is not H.region and np.array_equal(untouched.lo, old.lo) and np.array_equal(untouched.hi, old.hi)
              and untouched.dims == old.dims and untouched.units == old.units)
        H.rebuild(m2, F)
        H.geo = Geo.live(m2, F)
        if how in ("scale", "deepcopy-scale"):
            ok = ok and _scaled_ok(old, H.geo, st["factor"])
        elif how == "translate":
            ok = ok and _near(H.geo.lo, old.lo + np.array(st["vector"]), max(old.coord(), H.geo.coord()))
        else:
            ok = ok and _rotated_ok(old, H.geo, st["ax"], st["k"])
        return ok, "new mesh transformed, the observed one untouched"
    raise ValueError("unknown op %r" % (op,))


def _check_history(pr, ctx):
    if int(np.prod(pr["n"])) == 1:
        ctx.trivial()
    tag = ""
    if "vals" in pr:
        tag = "-dtype-%s-%s" % (pr["dtype"]["name"] if pr.get("dtype") else "none", pr["vals"])
        r, H = raises(Exception, _Hist, pr)
        if r:       # a dtype / value form the constructor refuses (C02's business)
            ctx.trivial()
            return
    else:
        if pr.get("profile"):
            tag = "-scale-" + pr["profile"]
        H = _Hist(pr)
    _observe(ctx, H.f, H.F, H.geo, H.cmp, H.rng, pr["obs0"], sig="history-initial" + tag, where="before the first step")
    for k, st in enumerate(pr["steps"]):
        op = st["op"]
        label = "step %d: %s" % (k, {q: v for q, v in st.items() if q != "obs"})
        sig = "history-after-" + op + tag
        H.old = None
        r, res = raises(Exception, _step, H, st)
        if r:
            ctx.require(False, "C06.history", "the step raised", sig="history-%s-raises-%s" % (op, type(res).__name__), error=repr(res), where=label)
            return
        ctx.require(res[0] and np.array_equal(np.array(H.mesh.n), H.F.shape[:-1]), "C06.history", "the step did not take effect: " + res[1],
                    sig="history-%s-no-effect" % op, where=label, now=[H.geo.lo, H.geo.hi, H.geo.dims, H.geo.units])
        nviol = len(ctx.violations)
        if H.old is not None:       # the field on the mesh the new one was derived from: same numbers as before
            f0, F0, geo0 = H.old
            _observe(ctx, f0, F0, geo0, H.cmp, H.rng, GROUPS, sig=sig + "-original", where=label + " (the original mesh)")
        _observe(ctx, H.f, H.F, H.geo, H.cmp, H.rng, st["obs"], sig=sig, where=label)
        if any(str(v["sig"]).startswith("history-after") for v in ctx.violations[nviol:]):
            return      # whatever went stale stays stale: later steps would only repeat it under a misleading op name
